"""C11 — compare reports the defined error counts, independent of haplotype labelling.

Three layers per run (see notes/C11.md):
* library level, in-process: `hamming`, `switch_encoding`, `complement`, `compute_switch_flips`, `compare_block`
  and the polyploid `SwitchFlipCalculator.compute_switch_flips_poly` on exhaustive small + random larger inputs
  (also malformed ones) against the Lean model (correspondence) and against the brute-force definitions
  (property oracle, `harness/gen/c11_gen.py`, and the executable Lean spec `c11.blockspec` on small inputs);
* number representation: the calculator keeps its scores in IEEE doubles; it is run with LARGE integer cost pairs (2^20 .. 2^50,
  mostly fc = sc + 1, the optimum placed around 2^24, 2^31, 2^32 and just below 2^53) on small blocks against exact integer
  optima (Python / Lean naturals), exactness demanded whenever p * (n * fc + sc) < 2^53; and long error-dense blocks
  (tetraploid ~3000-4000, triploid ~5000-6000 positions) go through compare_block, whose own cost pair k / k+1 then
  produces scores beyond 2^24 (integer Viterbi oracle, relabelling, Lean model);
* relabelling: every (diploid, triploid) or sampled (tetraploid) permutation of the haplotype order of either
  phasing must leave `compare_block`'s numbers unchanged;
* CLI: `whatshap compare` on pairs/triples of generated phased VCFs (ploidy 2-4, block structures, missing /
  unphased / homozygous calls, interleaved phase sets), all of --tsv-pairwise, --longest-block-tsv,
  --switch-error-bed, --tsv-multiway parsed and compared with the Lean model of `compare` and with the
  definitions recomputed from the generated calls; identities between the outputs (BED rows = switches,
  zeros of the agreement vector = Hamming distance, switches = s + 2f); relabelling invariance by re-running on
  files whose phase sets list the haplotypes in another order.
"""
import itertools, json, math, os, shutil
from fractions import Fraction

from harness.gen import c11_gen as G
from harness.gen import c11_glue as GL
from harness.gen import sim

RULE = ("a case is one block pair handed to compare_block / the polyploid calculator, or one `whatshap compare` "
        "scenario (2-3 VCFs, 1-2 chromosomes). Non-trivial: the two phasings differ by at least one switch or flip "
        "(block level: some reported number is non-zero or the block has >= 2 positions with ploidy > 2; CLI level: at "
        "least one non-singleton intersection block and a non-zero error count in some row); distinct = distinct "
        "haplotype strings / distinct scenario")
MANIFEST = dict(
    text="Lean 4 theorems about an exact model of compare.py's diploid functions (switch_encoding, hamming, complement, "
         "compute_switch_flips, compare_block, longest-block agreement as coded and as repaired), all block lengths: "
         "switches = s + 2f, zero on identical input, invariance under swapping the haplotypes of either phasing, Hamming = "
         "minimum over correspondences = min(d, n-d), different genotypes = multiset definition, switch errors = changes of "
         "the forced correspondence, agreement vector has exactly `hamming` zeros. Polyploid calculator "
         "(switchflipcalculator.cpp, model incl. its pruning), every ploidy (`*_any_ploidy`), all lengths and costs: cost = brute-force minimum "
         "over all sequences of haplotype correspondences; every (switches, flips) pair the back-tracking may return is REALISED "
         "by such a sequence and is a member of the brute-force set of optimal pairs (poly_reported_pair_realised); with the "
         "costs compare_block uses the pair is unique and the lexicographic minimum of (switches+flips, flips) "
         "(poly_fixed_split_unique_lexmin); the optimum and the set of co-optimal pairs are invariant under listing the "
         "haplotypes of either phasing in any order (poly_optimum_perm_invariant) and so is everything compare_block reports "
         "for every ploidy >= 3 (poly_perm_invariant_any_ploidy; all polyploid theorems now hold for EVERY ploidy: the state list is "
         "characterised and equals the specification's enumeration of bijections for all p, Lemmas/C11Perms). Pairwise report: "
         "DEFINITION `Spec/C11Run.lean` (`c11.runspec`, `c11.pairspec`) compared three-way with the Python oracle, the model and the "
         "real CLI rows; proved: totals_are_sums, run_compare_rows_are_pair_comparisons. Glue of run_compare (sample selection, reader filters incl. --only-snvs, "
         "variant identity, common chromosomes, all pairs, BED order, multiway table): executable Lean model `c11.run`, tied "
         "to the working tree by real CLI runs; with fixes/F46.patch every assessed diploid block has the shape the diploid "
         "theorems assume (assessed_diploid_blocks_are_complementary)",
    design_ref="DESIGN.md §5 C11, §6 F3",
    note="trusted: Lean kernel, axioms ⊆ {propext, Classical.choice, Quot.sound}; the hand-written model (correspondence is "
         "differential testing: quick ≈ 5 500 cases incl. ≈ 135 + ≈ 100 CLI runs, thorough ≈ 70 000 incl. ≈ 1 800 + ≈ 1 000). "
         "Not proved in Lean: `jointBlocks` = naive group-by and `sfLoop` = run-length decomposition (the two missing pieces of "
         "`run_compare_meets_spec`; compared on every run). Not modelled: HP-tag phasing, --names validation, plots, the printed "
         "report, allele indices >= 10 (two characters in the haplotype strings). Open findings on the unchanged tree: F45 "
         "(KeyError on a multi-allelic diploid call), F46 (diploid numbers derived from the first haplotype only), F47 "
         "(hash-seed dependent sample column of --tsv-multiway), each with a patch under fixes/",
    technique="Lean 4 proofs about a faithful functional model + differential correspondence (in-process and CLI) + "
              "brute-force definition oracle + metamorphic relabelling",
)
ASSUMPTIONS = [
    "alleles are single digits (at most 3 ALT alleles are generated); HP tags are not generated; VCFs are position-sorted",
    "float sums of k/ploidy per block are compared with tolerance 1e-9 to the exact rational",
    "Python asserts are enabled (the model maps AssertionError/KeyError/ZeroDivisionError to `error`)",
    "scores of the polyploid calculator are exact integers only while they are < 2^53 (IEEE double, `typedef double Score`): "
    "exactness of compute_switch_flips_poly / SwitchFlipCalculator is demanded for every cost pair with "
    "ploidy * (n * flip_cost + switch_cost) < 2^53 (an upper bound of every score the dynamic program forms) and for nothing "
    "beyond; compare_block's own pair k / k+1, k = ploidy * n + 1, stays inside for every block with ploidy * n < ~9.4e7 "
    "(ploidy^2 * n^2 < 2^53); generated blocks have at most 6000 positions",
    "glue stream: for diploid calls with an allele >= 2 two readings of 'assessed' are admitted: every phased call is "
    "(then the numbers must equal the definitions: F46), or such calls are not assessed at all (fixes/F46.patch)",
]

K_F3 = "F3-longest-block-agreement"
K_A = "FC11a-poly-single-matching-position"
K_B = "FC11b-poly-switchflip-split-relabel"
K_C = "FC11c-multiway-assert"
K_D = "FC11d-polyploid-triple-assert"


def frac(x):
    if isinstance(x, Fraction):
        return x
    if isinstance(x, int):
        return Fraction(x)
    return Fraction(x).limit_denominator(5000)


def hstr(h):
    return "".join(str(a) for a in h)


# ------------------------------------------------------------------------------------------------
# library level
# ------------------------------------------------------------------------------------------------

class Lib:
    def __init__(self, ctx):
        from whatshap.cli import compare as C
        from whatshap.polyphase.solver import SwitchFlipCalculator
        self.C, self.Calc, self.ctx = C, SwitchFlipCalculator, ctx
        self.pending = []   # (request, callback)

    def ask(self, req, cb, may_flush=True):
        self.pending.append((req, cb))
        if may_flush and len(self.pending) >= 400:
            self.flush()

    def flush(self):
        if not self.pending:
            return
        while self.pending:
            todo, self.pending = self.pending, []
            answers = self.ctx.model.ask_many([r for r, _ in todo])
            for (req, cb), ans in zip(todo, answers):
                cb(req, ans)      # a callback may enqueue a follow-up request

    # -- raw string functions -----------------------------------------------------------------
    def raw(self, a, b):
        ctx, C = self.ctx, self.C
        ctx.evaluated()
        sa, sb = hstr(a), hstr(b)

        def guard(f):
            try:
                return f()
            except (AssertionError, KeyError, IndexError):
                return "error"
        impl = {
            "c11.hamming": guard(lambda: C.hamming(sa, sb)),
            "c11.switchenc": guard(lambda: [int(c) for c in C.switch_encoding(sa)]),
            "c11.complement": guard(lambda: [int(c) for c in C.complement(sa)]),
            "c11.sf": guard(lambda: (lambda r: [r.switches, r.flips])(C.compute_switch_flips(sa, sb))),
        }
        # definitions
        if len(a) == len(b):
            if impl["c11.hamming"] != sum(x != y for x, y in zip(a, b)):
                ctx.fail("hamming differs from the number of differing positions", {"kind": "raw", "a": a, "b": b}, key="raw-hamming")
            sw = G.hd([x != y for x, y in zip(a, a[1:])], [x != y for x, y in zip(b, b[1:])])
            s, f = impl["c11.sf"]
            if s + 2 * f != sw:
                ctx.fail(f"switch/flip decomposition {s}/{f}: s + 2f != {sw} switches", {"kind": "raw", "a": a, "b": b}, key="raw-sf-identity")
            if len(a) <= 12 and set(a) | set(b) <= {0, 1}:
                # s + f is the minimum of (#orientation changes + #flipped positions) over all orientation sequences
                best, _ = G.objective([a, [1 - x for x in a]], [b, [1 - x for x in b]], 1, 1, force_viterbi=len(a) > 7)
                if 2 * (s + f) != best:
                    ctx.fail(f"switch/flip decomposition {s}/{f} is not minimal ({Fraction(best, 2)})", {"kind": "raw", "a": a, "b": b}, key="raw-sf-min")
        for op, val in impl.items():
            req = {"op": op, "a": a, "b": b}
            self.ask(req, lambda r, ans, val=val, op=op: ctx.disagree(op, r, val, ans) if ans != val else None)

    # -- compare_block ------------------------------------------------------------------------
    def impl_block(self, ph0, ph1):
        try:
            e = self.C.compare_block([hstr(h) for h in ph0], [hstr(h) for h in ph1])
        except (AssertionError, KeyError, IndexError, ZeroDivisionError, ValueError):
            return "error"
        return dict(switches=frac(e.switches), hamming=frac(e.hamming), diff=e.diff_genotypes,
                    sf=(frac(e.switch_flips.switches), frac(e.switch_flips.flips)))

    def block(self, ph0, ph1, relabels=0, oracle=True, spec=False):
        """one block pair: impl vs definitions (if `oracle`: het biallelic input), impl vs model, relabelling"""
        ctx = self.ctx
        ctx.evaluated()
        case = {"kind": "block", "ph0": ph0, "ph1": ph1}
        impl = self.impl_block(ph0, ph1)
        p = len(ph0)
        keys = []

        def fail(what, key):
            keys.append(key)
            ctx.fail(what, case, key=key)

        wellformed = p == len(ph1) and p >= 2 and len({len(h) for h in ph0 + ph1}) == 1
        if not wellformed:
            oracle = False
        d = None
        if oracle and impl == "error":
            fail("compare_block raised on a well-formed block", "block-exception")
        elif oracle:
            n = len(ph0[0])
            d = G.block_definitions(ph0, ph1)
            ctx.dist("block_ploidy", p); ctx.dist("block_len", n)
            if impl["hamming"] != d["hamming"]:
                fail(f"Hamming {impl['hamming']} != minimum over correspondences {d['hamming']}", "block-hamming")
            if impl["diff"] != d["diff"]:
                fail(f"diff_genotypes {impl['diff']} != {d['diff']}", "block-diff-genotypes")
            if impl["switches"] != d["switches"]:
                k = K_A if (p > 2 and d["n_matching"] == 1) else "block-switches"
                fail(f"switch errors {impl['switches']} != definition {d['switches']} ({d['n_matching']} genotype-matching positions)", k)
            s, f = impl["sf"]
            if p == 2:
                if s + f != d["sf_cost"]:
                    fail(f"switch/flip {s}/{f}: s+f != minimum {d['sf_cost']}", "block-switchflips")
                if s + 2 * f != impl["switches"]:
                    fail(f"switches {impl['switches']} != {s} + 2*{f}", "block-identity")
            else:
                if (s, f) not in d["sf_pairs"]:
                    k = K_A if n == 1 else "block-switchflips"
                    fail(f"switch/flip {s}/{f} is not an optimal decomposition (optimal cost {d['sf_cost']})", k)
            if sorted(map(hstr, ph0)) == sorted(map(hstr, ph1)) and len(set(map(hstr, ph0))) == p:
                if any([impl["hamming"], impl["switches"], impl["diff"], s, f]):
                    fail("non-zero result for identical phasings", "block-zero-on-identical" if not keys else keys[0])
            if any([impl["hamming"], impl["switches"], s, f]) or (p > 2 and n >= 2):
                ctx.nontrivial("b" + "/".join(map(hstr, ph0)) + "|" + "/".join(map(hstr, ph1)))
            # relabelling
            if relabels:
                perms = list(itertools.permutations(range(p)))
                combos = [(a, b) for a in perms for b in perms][1:]
                if relabels < len(combos):
                    combos = ctx.rng.sample(combos, relabels)
                for ci, (s0, s1) in enumerate(combos):
                    r = self.impl_block(G.relabel(ph0, s0), G.relabel(ph1, s1))
                    if ci == 0:
                        # the relabelling of the theorems (`relabelHaps`, Props.C11.poly_perm_invariant) is the harness's one,
                        # and the model of the current code on the relabelled block is what the implementation reports
                        def cbr(req, ans, r=r, s0=s0, s1=s1):
                            if ans["ph0"] != G.relabel(ph0, s0) or ans["ph1"] != G.relabel(ph1, s1):
                                ctx.disagree("c11.relabel:haplotypes", req, [G.relabel(ph0, s0), G.relabel(ph1, s1)], [ans["ph0"], ans["ph1"]])
                            elif not block_exact(r, ans["block"]) and not keys:
                                ctx.disagree("c11.relabel", req, show(r), ans["block"])
                            elif p > 2 and ans["block"] != ans["orig"]:
                                ctx.disagree("c11.relabel:model-not-invariant (contradicts poly_perm_invariant)", req, ans["orig"], ans["block"])
                        self.ask({"op": "c11.relabel", "ph0": ph0, "ph1": ph1, "tau": list(s0), "ups": list(s1)}, cbr, may_flush=False)
                    if r != impl:
                        only_split = (r != "error" and p > 2 and all(r[k] == impl[k] for k in ("switches", "hamming", "diff"))
                                      and sum(r["sf"]) == sum(impl["sf"]))
                        ctx.fail(f"result changes when haplotypes are listed in order {s0}/{s1}: {show(impl)} -> {show(r)}",
                                 dict(case, relabel=[list(s0), list(s1)]), key=K_B if only_split else "block-relabel")
                        keys.append(K_B if only_split else "block-relabel")
                        break
        # correspondence with the Lean model (repaired behaviour; the faithful one where a finding was reported)
        known = True   # as-coded behaviour is accepted; the defect itself is reported by the oracle above

        def adm_check(req, ans):
            if d is not None and ans != "error" and p > 2:
                adm = {(Fraction(a, p), Fraction(b, p)) for a, b in ans["sfAdm"]}
                if not adm <= d["sf_pairs"]:
                    ctx.disagree("c11.block:model-admissible-set-vs-definition", req, sorted(map(str, d["sf_pairs"])), ans)

        def cb(req, ans, impl=impl):
            strict, split = block_cmp(impl, ans)
            adm_check(req, ans)
            if strict and split:
                return

            def cb2(req2, ans2):
                # numbers: equal to the repaired model, or to the model of the code as it is when that defect was
                # reported for this very case (or the input is outside the property).  Polyploid switch/flip split:
                # admissible under the code-as-is model (any hash order) or equal to the repaired tie-breaking.
                strict2, split2 = block_cmp(impl, ans2)
                adm_check(req2, ans2)
                if not ((strict or (strict2 and known)) and (split or split2)):
                    ctx.disagree("c11.block", req2, show(impl), {"repaired": ans, "as-coded": ans2})
            self.ask(dict(req, fixA=False, fixB=False), cb2, may_flush=False)
        self.ask({"op": "c11.block", "ph0": ph0, "ph1": ph1, "fixA": True, "fixB": True}, cb)
        if spec and d is not None:
            def cb3(req, ans, d=d):
                mine = dict(hammingNum=int(d["hamming"] * p), diff=d["diff"], swCost=int(d["switches"] * p),
                            sfCost=int(d["sf_cost"] * p), sfPairs=sorted([int(a * p), int(b * p)] for a, b in d["sf_pairs"]))
                theirs = dict(hammingNum=ans["hammingNum"], diff=ans["diff"], swCost=ans["swCost"], sfCost=ans["sfCost"],
                              sfPairs=sorted(ans["sfPairs"]))
                if mine != theirs:
                    ctx.disagree("c11.blockspec (Lean brute-force spec vs Python oracle)", req, mine, theirs)
            self.ask({"op": "c11.blockspec", "ph0": ph0, "ph1": ph1}, cb3)
        return impl, keys

    # -- the polyploid calculator with arbitrary costs ----------------------------------------------
    def poly(self, ph0, ph1, sc, fc, brute, key="poly-not-optimal", wrapper=False):
        """the calculator with the cost pair (sc, fc) against the exact optimum (Python integers / Lean naturals).
        Exactness is demanded whenever every value the dynamic program can form stays below 2^53 (see exact_domain)."""
        ctx = self.ctx
        ctx.evaluated()
        p, n = len(ph0), len(ph0[0])
        assert exact_domain(p, n, sc, fc), "cost pair outside the domain in which IEEE doubles are exact"
        case = {"kind": "poly", "ph0": ph0, "ph1": ph1, "sc": sc, "fc": fc}
        sw, fl, swc, flc, perm = self.Calc(p, sc, fc).compute_switch_flips_poly([hstr(h) for h in ph0], [hstr(h) for h in ph1])
        sw, fl = int(sw), int(fl)
        best, pairs = G.objective(ph0, ph1, sc, fc)
        keys = []
        if sc * sw + fc * fl != best or (sw, fl) not in pairs:
            k = K_A if n == 1 else key
            keys.append(k)
            ctx.fail(f"calculator returns switches={sw} flips={fl} (cost {sc * sw + fc * fl}); optimum {best}, optimal pairs {sorted(pairs)}",
                     case, key=k)
        if wrapper:
            # compare.py's entry point with explicit costs (what compare_block calls): haplotype-averaged numbers
            r = self.C.compute_switch_flips_poly([hstr(h) for h in ph0], [hstr(h) for h in ph1], switch_cost=sc, flip_cost=fc)
            ws, wf = frac(r.switches) * p, frac(r.flips) * p
            if (ws, wf) not in pairs and not keys:
                k = K_A if n == 1 else key
                keys.append(k)
                ctx.fail(f"compute_switch_flips_poly(switch_cost={sc}, flip_cost={fc}) returns {r.switches}/{r.flips} per haplotype = "
                         f"({ws}, {wf}); optimum {best}, optimal pairs {sorted(pairs)}", case, key=k)
        if perm and n > 1:
            # the reported configuration must realise the reported numbers
            rs = sum(G.hd(perm[i], perm[i - 1]) for i in range(1, n))
            rf = sum(ph0[perm[i][j]][i] != ph1[j][i] for i in range(n) for j in range(p))
            if (rs, rf) != (sw, fl) or sum(swc) != sw or sum(len(x) for x in flc) != fl:
                ctx.fail("position-wise configuration does not realise the reported switches/flips", case, key="poly-backtrace")
        ctx.nontrivial("p%d/%d/" % (sc, fc) + "/".join(map(hstr, ph0)) + "|" + "/".join(map(hstr, ph1)))

        def cb(req, ans, keys=tuple(keys)):
            adm = {tuple(x) for x in ans["adm"]}
            if ans["cost"] != sc * sw + fc * fl or (sw, fl) not in adm:
                if not keys:
                    ctx.disagree("c11.poly", req, [sw, fl], ans)
            if ans["fullCost"] != best or {tuple(x) for x in ans["fullPairs"]} != pairs:
                ctx.disagree("c11.poly:unpruned-model-vs-definition", req, [best, sorted(pairs)], ans)
        self.ask({"op": "c11.poly", "ph0": ph0, "ph1": ph1, "sc": sc, "fc": fc, "fixA": n > 1 or not keys}, cb)
        if brute:
            def cb2(req, ans):
                if ans["cost"] != best or {tuple(x) for x in ans["pairs"]} != pairs:
                    ctx.disagree("c11.polybrute (Lean brute-force spec vs Python oracle)", req, [best, sorted(pairs)], ans)
            self.ask({"op": "c11.polybrute", "ph0": ph0, "ph1": ph1, "sc": sc, "fc": fc}, cb2)

    # -- one long polyploid block through compare_block ------------------------------------------------
    def long_block(self, ph0, ph1, relabels=8):
        """a block of thousands of positions (het biallelic columns): compare_block hands the calculator the cost pair
        k / k+1 with k = ploidy * n + 1, so its scores reach (switches + flips) * k - far beyond 2^24 for a long error-dense
        block.  Definitions by the un-pruned integer Viterbi oracle (sets of optimal pairs stay singletons with the cost pair
        K / K+1, K = 10^12, an exact lexicographic encoding of (switches + flips, flips))."""
        ctx = self.ctx
        ctx.evaluated()
        p, n = len(ph0), len(ph0[0])
        a, b = [hstr(h) for h in ph0], [hstr(h) for h in ph1]
        case = {"kind": "longblock", "ph0": a, "ph1": b}
        ctx.dist("long_block_ploidy_len", f"p={p} n~{round(n, -3)}")
        impl = self.impl_block(ph0, ph1)
        keys = []

        def fail(what, key, c=None):
            keys.append(key)
            ctx.fail(what, c or case, key=key)
        if impl == "error":
            fail("compare_block raised on a well-formed block", "block-exception")
            return
        K = 10 ** 12
        best, pairs = G.objective(ph0, ph1, K, K + 1, force_viterbi=True)
        total, lex_fl = divmod(best, K)          # min (switches + flips), fewest flips among those
        assert pairs == {(total - lex_fl, lex_fl)} and lex_fl < K
        mp = G.matching_positions(ph0, ph1)
        swc, swp = G.objective([[h[i] for i in mp] for h in ph0], [[h[i] for i in mp] for h in ph1], 1, 2 * n * p + 1, force_viterbi=True)
        assert all(f_ == 0 for _, f_ in swp)
        ctx.dist("long_block_score_log2", ((total * (p * n + 1)).bit_length()))
        s, f_ = impl["sf"]
        if impl["hamming"] != Fraction(G.min_hamming_num(ph0, ph1), p):
            fail(f"Hamming {impl['hamming']} != minimum over correspondences", "block-hamming")
        if impl["diff"] != n - len(mp):
            fail(f"diff_genotypes {impl['diff']} != {n - len(mp)}", "block-diff-genotypes")
        if impl["switches"] != Fraction(swc, p):
            fail(f"switch errors {impl['switches']} != definition {Fraction(swc, p)}", "block-switches")
        if (s + f_) * p != total:
            fail(f"switch/flip {s}/{f_}: s+f is not the minimum {Fraction(total, p)}", "block-switchflips")
        ctx.nontrivial("L" + "/".join(a) + "|" + "/".join(b))
        # the calculator itself with the cost pair compare_block derives from the block: exact optimum demanded (k * total < 2^53)
        k = p * n + 1
        if exact_domain(p, n, k, k + 1):
            sw, fl, _, _, _ = self.Calc(p, k, k + 1).compute_switch_flips_poly(a, b)
            sw, fl = int(sw), int(fl)
            if (sw, fl) != (total - lex_fl, lex_fl):
                fail(f"calculator with costs {k}/{k + 1} returns switches={sw} flips={fl} (cost {k * sw + (k + 1) * fl}); the optimum "
                     f"{k * total + lex_fl} is attained by ({total - lex_fl}, {lex_fl}) only", "poly-not-optimal")
        # relabelling: listing the haplotypes of either phasing in another order changes nothing
        perms = list(itertools.permutations(range(p)))
        for _ in range(relabels):
            s0, s1 = ctx.rng.choice(perms), ctx.rng.choice(perms)
            r = self.impl_block(G.relabel(ph0, s0), G.relabel(ph1, s1))
            if r != impl:
                only_split = (r != "error" and all(r[x] == impl[x] for x in ("switches", "hamming", "diff")) and sum(r["sf"]) == sum(impl["sf"]))
                fail(f"result changes when haplotypes are listed in order {s0}/{s1}: {show(impl)} -> {show(r)}",
                     "block-relabel-long" if only_split else "block-relabel", dict(case, relabel=[list(s0), list(s1)]))
                break

        # correspondence: the model reports the unique lexicographic minimum (Props.C11.poly_fixed_split_unique_lexmin)
        def cb(req, ans, impl=impl, keys=keys):
            if ans != "error" and (ans["sf"][0], ans["sf"][1]) != (total - lex_fl, lex_fl):
                ctx.disagree("c11.block:model-vs-definition (long block)", case, [total - lex_fl, lex_fl], ans["sf"])
            elif not block_exact(impl, ans) and not keys:
                ctx.disagree("c11.block (long block)", case, show(impl), ans if ans == "error" else {x: ans[x] for x in ("den", "switches", "hamming", "diff", "sf")})
        self.ask({"op": "c11.block", "ph0": ph0, "ph1": ph1, "fixA": True, "fixB": True}, cb)


def exact_domain(p, n, sc, fc):
    """True when the calculator must be exact: it keeps its scores in IEEE doubles (`typedef double Score`), every score it forms
    is a sum of integer multiples of the two costs, and none exceeds p * (n * fc + sc) (column scores are at most
    (i + 1) * p * fc by induction - staying on one correspondence is always a candidate - and a candidate adds at most
    p * sc).  Below 2^53 every such integer and every such sum is represented exactly."""
    return 0 <= sc and 0 <= fc and p * (n * fc + sc) < 2 ** 53


def show(r):
    if r == "error":
        return r
    return {"switches": str(r["switches"]), "hamming": str(r["hamming"]), "diff": r["diff"], "sf": [str(x) for x in r["sf"]]}


def block_cmp(impl, ans):
    """(numbers equal, switch/flip split acceptable) of a compare_block result against a model answer"""
    if impl == "error" or ans == "error":
        return impl == ans, True
    den = ans["den"]
    strict = (impl["switches"], impl["hamming"], impl["diff"]) == (Fraction(ans["switches"], den), Fraction(ans["hamming"], den), ans["diff"])
    if den == 1:
        return strict and tuple(impl["sf"]) == (ans["sf"][0], ans["sf"][1]), True
    strict = strict and sum(impl["sf"]) * den == sum(ans["sf"])
    return strict, (impl["sf"][0] * den, impl["sf"][1] * den) in {tuple(x) for x in ans["sfAdm"]}


def block_exact(impl, ans):
    """compare_block result == model answer, the polyploid switch/flip pair included (unique for the current code)"""
    if impl == "error" or ans == "error":
        return impl == ans
    den = ans["den"]
    return ((impl["switches"], impl["hamming"], impl["diff"]) == (Fraction(ans["switches"], den), Fraction(ans["hamming"], den), ans["diff"])
            and tuple(impl["sf"]) == (Fraction(ans["sf"][0], den), Fraction(ans["sf"][1], den)))


# ------------------------------------------------------------------------------------------------
# CLI level
# ------------------------------------------------------------------------------------------------

NUMERIC = ["intersection_blocks", "covered_variants", "all_assessed_pairs", "all_switches", "all_switchflips",
           "blockwise_hamming", "blockwise_diff_genotypes", "largestblock_assessed_pairs", "largestblock_switches",
           "largestblock_switchflips", "largestblock_hamming", "largestblock_diff_genotypes"]


def parse_sf(s):
    a, b = s.split("/")
    return frac(float(a)), frac(float(b))


def run_cli(ctx, scen, d, tag):
    """writes the VCFs, runs the real CLI, parses all outputs. Returns dict or {'crash': ...}"""
    k, p = scen.n_files, scen.ploidy
    paths = []
    for f in range(k):
        path = os.path.join(d, f"{tag}_{f}.vcf")
        sim.write_vcf(path, scen.contigs, ["S1"], scen.vcf_records(f), fmt_defs=G.PS_DEF)
        paths.append(path)
    out = {n: os.path.join(d, f"{tag}.{n}") for n in ("pair.tsv", "bed", "longest.tsv", "multi.tsv")}
    args = ["compare", "--ploidy", p, "--names", ",".join(f"f{i}" for i in range(k)), "--tsv-pairwise", out["pair.tsv"]]
    if p == 2:
        args += ["--switch-error-bed", out["bed"], "--longest-block-tsv", out["longest.tsv"]]
        if k > 2:
            args += ["--tsv-multiway", out["multi.tsv"]]
    rc, so, se, _ = sim.whatshap(args + paths, ctx.overlay)
    res = {"rc": rc}
    if rc != 0:
        last = [l for l in se.strip().splitlines() if l.strip()][-1:] or [""]
        res["crash"] = last[0][:200]
        res["multiway_assert"] = "compare_multiway" in se and "AssertionError" in se
        res["poly_triple_assert"] = "assert ploidy == 2" in se and "AssertionError" in se
    rows = {}
    if os.path.exists(out["pair.tsv"]):
        lines = [l.rstrip("\n").split("\t") for l in open(out["pair.tsv"])]
        if lines:
            hdr = [h.lstrip("#") for h in lines[0]]
            for l in lines[1:]:
                r = dict(zip(hdr, l))
                rows[(r["chromosome"], int(r["dataset_name0"][1:]), int(r["dataset_name1"][1:]))] = r
    res["rows"] = rows
    bed = {}
    if p == 2 and os.path.exists(out["bed"]):
        for l in open(out["bed"]):
            c, s, e, ann = l.rstrip("\n").split("\t")
            a, b = ann.split("<-->")
            bed.setdefault((c, int(a[1:]), int(b[1:])), []).append((int(s), int(e)))
    res["bed"] = bed
    lb = {}
    if p == 2 and os.path.exists(out["longest.tsv"]):
        for l in open(out["longest.tsv"]):
            if l.startswith("#"):
                continue
            a, b, _, c, pos, agr = l.rstrip("\n").split("\t")
            lb.setdefault((c, int(a[1:]), int(b[1:])), []).append((int(pos), int(agr)))
    res["longest"] = lb
    mw = {}
    if p == 2 and k > 2 and os.path.exists(out["multi.tsv"]):
        for l in open(out["multi.tsv"]):
            if l.startswith("#"):
                continue
            _, c, left, right, cnt = l.rstrip("\n").split("\t")
            rs = frozenset(int(x[1:]) for x in right.strip("{}").split(",") if x)
            mw.setdefault(c, []).append((rs, int(cnt)))
    res["multiway"] = mw
    for f in list(out.values()) + paths:
        if os.path.exists(f):
            os.remove(f)
    return res


MULTI_KEYS = {"cli-all_switches", "cli-largestblock_switches", "cli-all_switchflips", "cli-largestblock_switchflips",
              "cli-identity", "cli-bed", "cli-bed-count", "cli-longest-vector", "F3-longest-block-agreement"}


def check_pair_row(ctx, fail_, where, row, res, key, t0, t1, p, multi_key=None):
    """the property predicate on one --tsv-pairwise row (+ its BED / longest-block rows): the definitions recomputed from
    the calls `t0`, `t1` of the two data sets.  Returns True when some error count is non-zero.
    `multi_key`: key under which deviations of the diploid first-haplotype formulas are reported (F46) when the compared
    calls contain an allele other than 0/1."""
    nontrivial = False
    c, i, j = key
    def fail(what, k, c_=None):
        fail_(what, multi_key if (multi_key and k in MULTI_KEYS) else k, c_)
    D = G.pair_definitions(t0, t1, p)
    ctx.dist("cli_blocks", D["intersection_blocks"])
    for b in D["blocks"]:
        ctx.dist("cli_block_len", len(b))
    single = p > 2 and any(x[3]["n_matching"] == 1 for x in D["per_block"])
    where = f"{c} f{i}<->f{j}: "
    # "the longest block": any intersection block of maximal length is accepted (the code takes the first)
    cands = [x for x in D["per_block"] if len(x[0]) == D["longest_len"]]
    lb = res["longest"].get(key, []) if p == 2 else []
    chosen = None
    if cands and p == 2 and lb:
        chosen = next((x for x in cands if [D["common"][v] for v in x[0]] == [q for q, _ in lb]), None)
        if chosen is None:
            fail(where + "--longest-block-tsv does not list the positions of an intersection block of maximal length", "cli-longest-positions")
    elif cands and p == 2 and "crash" not in res:
        fail(where + "--longest-block-tsv has no rows although there is an intersection block", "cli-longest-positions")
    elif cands:
        chosen = next((x for x in cands if largest_matches(row, x[3], p)), None)
    if cands and chosen is None:
        chosen = cands[0]
    L = chosen[3] if chosen else None
    for col, exp in (("intersection_blocks", D["intersection_blocks"]), ("covered_variants", D["covered"]),
                     ("all_assessed_pairs", D["pairs"]), ("largestblock_assessed_pairs", max(D["longest_len"] - 1, 0)),
                     ("blockwise_diff_genotypes", D["total"]["diff"]),
                     ("largestblock_diff_genotypes", L["diff"] if L else 0)):
        if int(row[col]) != exp:
            fail(where + f"{col} = {row[col]}, by definition {exp}", "cli-" + col)
    for col, exp in (("all_switches", D["total"]["switches"]), ("blockwise_hamming", D["total"]["hamming"]),
                     ("largestblock_switches", L["switches"] if L else 0),
                     ("largestblock_hamming", L["hamming"] if L else 0)):
        if frac(float(row[col])) != exp:
            kk = K_A if (single and "switches" in col) else "cli-" + col
            fail(where + f"{col} = {row[col]}, by definition {exp}", kk)
    for col, swcol, cost, pairs in (
            ("all_switchflips", "all_switches", D["total"]["sf_cost"], D["total_sf_pairs"]),
            ("largestblock_switchflips", "largestblock_switches", L["sf_cost"] if L else 0,
             L["sf_pairs"] if L else {(0, 0)})):
        s, f = parse_sf(row[col])
        if p == 2:
            if s + f != cost:
                fail(where + f"{col} = {row[col]}: s+f is not the minimum {cost}", "cli-" + col)
            if s + 2 * f != frac(float(row[swcol])):
                fail(where + f"{swcol} = {row[swcol]} != s + 2f of {col} = {row[col]}", "cli-identity")
        elif (s, f) not in pairs:
            fail(where + f"{col} = {row[col]} is not an optimal decomposition (cost {cost})", "cli-" + col)
        elif s + 2 * f != frac(float(row[swcol])):
            ctx.observe("polyploid: switches != s + 2f (identity is stated/proved for diploid only)")
    if any(float(row[x]) != 0 for x in ("all_switches", "blockwise_hamming", "blockwise_diff_genotypes")):
        nontrivial = True
    # the rate columns are the quotients of the count columns (nan when nothing was assessed)
    longest = int(row["largestblock_assessed_pairs"]) + 1 if int(row["largestblock_assessed_pairs"]) > 0 else D["longest_len"]
    for rate, num, den in (("all_switch_rate", float(row["all_switches"]), int(row["all_assessed_pairs"])),
                           ("all_switchflip_rate", float(sum(parse_sf(row["all_switchflips"]))), int(row["all_assessed_pairs"])),
                           ("blockwise_hamming_rate", float(row["blockwise_hamming"]), int(row["covered_variants"])),
                           ("blockwise_diff_genotypes_rate", float(row["blockwise_diff_genotypes"]), int(row["covered_variants"])),
                           ("largestblock_switch_rate", float(row["largestblock_switches"]), int(row["largestblock_assessed_pairs"])),
                           ("largestblock_switchflip_rate", float(sum(parse_sf(row["largestblock_switchflips"]))), int(row["largestblock_assessed_pairs"])),
                           ("largestblock_hamming_rate", float(row["largestblock_hamming"]), longest),
                           ("largestblock_diff_genotypes_rate", float(row["largestblock_diff_genotypes"]), longest)):
        got_rate = float(row[rate])
        if (den == 0) != math.isnan(got_rate) or (den and abs(got_rate - num / den) > 1e-9):
            fail(where + f"{rate} = {row[rate]} is not {num}/{den}", "cli-rate")
    if p == 2:
        # BED rows = switch positions
        exp_bed = []
        for b, ph0, ph1, _ in D["per_block"]:
            o = [x == y for x, y in zip(ph0[0], ph1[0])]
            exp_bed += [(D["common"][b[x]] + 1, D["common"][b[x + 1]] + 1) for x in range(len(b) - 1) if o[x] != o[x + 1]]
        got = sorted(res["bed"].get((c, i, j), []))
        if "crash" not in res:
            if got != sorted(exp_bed):
                fail(where + f"--switch-error-bed rows {got} != positions where the correspondence changes {sorted(exp_bed)}", "cli-bed")
            if len(got) != int(row["all_switches"]):
                fail(where + f"{len(got)} BED rows but all_switches = {row['all_switches']}", "cli-bed-count")
        # longest-block agreement
        if chosen and lb and [D["common"][v] for v in chosen[0]] == [q for q, _ in lb]:
            _, ph0, ph1, _ = chosen
            agr = [y for _, y in lb]
            eq = [int(x == y) for x, y in zip(ph0[0], ph1[0])]
            zeros = agr.count(0)
            if zeros != int(row["largestblock_hamming"]):
                fail(where + f"--longest-block-tsv marks {zeros} of {len(agr)} positions as disagreeing, largestblock_hamming = {row['largestblock_hamming']}", K_F3)
            elif agr != eq and agr != [1 - x for x in eq]:
                fail(where + "agreement vector is neither the position-wise agreement nor its inverse", "cli-longest-vector")
        elif lb and not cands:
            fail(where + "--longest-block-tsv has rows although there is no intersection block", "cli-longest-positions")
    return nontrivial


def table_json(calls):
    return [[c["pos"], c["gt"], c["phased"], c["ps"]] for c in calls]


def check_cli(ctx, scen, d, n_relabel, replay_relabelled=None):
    ctx.evaluated()
    case = dict(scen.as_case(), kind="cli")
    p, k = scen.ploidy, scen.n_files
    ctx.dist("cli_ploidy", p); ctx.dist("cli_files", k)
    res = run_cli(ctx, scen, d, "base")
    fails = []

    def fail(what, key, c=None):
        fails.append(key)
        ctx.fail(what, c or case, key=key)

    if "crash" in res and "No chromosome is contained in all VCFs" in str(res["crash"]):
        # a legitimate refusal when the files share no chromosome with records (e.g. one generated file is empty)
        files_ = case.get("files") or []
        with_records = [{c for c, recs in f.items() if recs} for f in files_]
        if files_ and not set.intersection(*with_records):
            ctx.observe("compare refused input files without a common chromosome (expected)")
            return
    if "crash" in res:
        if res.get("multiway_assert"):
            fail("whatshap compare dies in compare_multiway: `assert {c for c in s} == set('0')` — no pair of variants on which all data sets agree", K_C)
        elif res.get("poly_triple_assert") and p > 2 and k > 2:
            fail("whatshap compare with more than two VCFs and --ploidy > 2 dies with `assert ploidy == 2` after the pairwise "
                 "comparisons of the first chromosome (the multiway comparison is started unconditionally)", K_D)
        else:
            fail("whatshap compare exits with an error: " + res["crash"], "cli-crash")
    nontrivial = False
    model_reqs = []
    for c in scen.chroms:
        if not all(scen.files[f].get(c) for f in range(k)):
            # a chromosome without a record in some file is not common to all VCFs: it is rightly not compared
            if any(kk[0] == c for kk in res["rows"]):
                fail(f"--tsv-pairwise has rows for {c} although not every file has records on it", "cli-unexpected-row")
            continue
        for i in range(k):
            for j in range(i + 1, k):
                row = res["rows"].get((c, i, j))
                t0, t1 = scen.files[i].get(c, []), scen.files[j].get(c, [])
                if row is None:
                    if "crash" not in res:
                        fail(f"no --tsv-pairwise row for {c} f{i} f{j}", "cli-missing-row")
                    continue
                where = f"{c} f{i}<->f{j}: "
                if check_pair_row(ctx, fail, where, row, res, (c, i, j), t0, t1, p):
                    nontrivial = True
                model_reqs.append(((c, i, j), {"op": "c11.pair", "ploidy": p, "t0": table_json(t0), "t1": table_json(t1),
                                              "fixA": True, "fixB": True, "fix3": True}))
        if p == 2 and k > 2 and "crash" not in res:
            total, hist = G.multiway_definition([scen.files[f].get(c, []) for f in range(k)])
            got = dict(res["multiway"].get(c, []))
            if got != dict(hist):
                fail(f"{c}: --tsv-multiway {sorted((sorted(a), b) for a, b in got.items())} != definition {sorted((sorted(a), b) for a, b in hist.items())}", "cli-multiway")
    if nontrivial:
        ctx.nontrivial("cli" + json.dumps(case, sort_keys=True))
    ctx.sample({"cli_case": case, "rows": {str(kk): {x: v[x] for x in NUMERIC} for kk, v in list(res["rows"].items())[:2]}}, limit=2)

    # ---- correspondence with the Lean model of `compare`
    answers = ctx.model.ask_many([r for _, r in model_reqs])
    faithful_needed = []
    for (key, req), ans in zip(model_reqs, answers):
        row = res["rows"][key]
        if not pair_model_equal(row, res, key, ans, p, exact_split=True):     # repaired code: the polyploid split is unique
            faithful_needed.append((key, req))
    if faithful_needed:
        reqs = [dict(r, fixA=False, fixB=False, fix3=False) for _, r in faithful_needed]
        for (key, _), req, ans in zip(faithful_needed, reqs, ctx.model.ask_many(reqs)):
            # the implementation must behave like the repaired model or like the model of the code as it is (the
            # defects themselves are caught by the property oracle above, independently of either model)
            if not pair_model_equal(res["rows"][key], res, key, ans, p):
                ctx.disagree("c11.pair", req, {x: res["rows"][key][x] for x in NUMERIC}, ans)
            else:
                ctx.observe("implementation matches the as-coded model, not the repaired one (F3/FC11a behaviour present)")
    # ---- the Lean DEFINITION of the pairwise report (`Spec.pairSpec`, op `c11.pairspec`) vs the real rows and vs the model (diploid)
    if p == 2:
        specs = ctx.model.ask_many([{"op": "c11.pairspec", "t0": r["t0"], "t1": r["t1"]} for _, r in model_reqs])
        for (key, req), ans, S in zip(model_reqs, answers, specs):
            row = res["rows"][key]
            where = f"{key[0]} f{key[1]}<->f{key[2]}: "
            got = dict(intersection_blocks=int(row["intersection_blocks"]), covered_variants=int(row["covered_variants"]),
                       assessed_pairs=int(row["all_assessed_pairs"]), switches=frac(float(row["all_switches"])),
                       sf=list(parse_sf(row["all_switchflips"])), hamming=frac(float(row["blockwise_hamming"])),
                       diff=int(row["blockwise_diff_genotypes"]), largest_pairs=int(row["largestblock_assessed_pairs"]))
            want = {x: S[x] for x in ("intersection_blocks", "covered_variants", "assessed_pairs", "switches", "sf", "hamming", "diff")}
            want["largest_pairs"] = max(S["largest_len"] - 1, 0)
            for col in want:
                if got[col] != want[col]:
                    fail(where + f"{col}: whatshap compare reports {got[col]}, the definition (Lean Spec.pairSpec) gives {want[col]}", "runspec-" + col)
            if "crash" not in res and sorted(res["bed"].get(key, [])) != sorted(tuple(b) for b in S["bed"]):
                fail(where + f"--switch-error-bed rows != rows by definition {sorted(S['bed'])} (Lean Spec.pairSpec)", "runspec-bed")
            if ans != "error":
                m_ = [(b[0], b[1]["switches"], b[1]["sf"], b[1]["hamming"], b[1]["diff"]) for b in ans["per_block"]]
                s_ = [(b["positions"], b["switches"], b["sf"], b["hamming"], b["diff"]) for b in S["blocks"]]
                if m_ != s_ or ans["bed"] != S["bed"] or ans["largest_len"] != S["largest_len"]:
                    ctx.disagree("c11.pairspec", req, {"blocks": m_, "bed": ans["bed"]}, {"blocks": s_, "bed": S["bed"]})
    if p == 2 and k > 2 and not ("crash" in res and not res.get("multiway_assert")):
        died = False
        for c in sorted(scen.chroms):      # run_compare processes the chromosomes in sorted order
            req = {"op": "c11.multiway", "tables": [table_json(scen.files[f].get(c, [])) for f in range(k)]}
            as_coded, repaired = ctx.model.ask_many([dict(req, fixC=False), dict(req, fixC=True)])
            if as_coded == "error" and res.get("multiway_assert"):
                died = True
                break   # the run died here: later chromosomes were not processed
            got = res["multiway"].get(c, [])
            exp = [(frozenset(i for i, x in enumerate(key_) if x == 1), cnt) for key_, cnt in repaired["hist"]]
            if got != exp:
                ctx.disagree("c11.multiway", req, [(sorted(a), b) for a, b in got], repaired)
        if res.get("multiway_assert") and not died:
            ctx.disagree("c11.multiway", case, "AssertionError in compare_multiway", "model: no assertion failure on any chromosome")

    # ---- relabelling invariance on the real CLI
    if "crash" in res:
        return fails
    rel = [Scenario_from(replay_relabelled)] if replay_relabelled else [scen.relabelled(ctx.rng) for _ in range(n_relabel)]
    for r_i, sc2 in enumerate(rel):
        ctx.evaluated()
        res2 = run_cli(ctx, sc2, d, f"rel{r_i}")
        c2 = {"kind": "cli-relabel", "base": scen.as_case(), "relabelled": sc2.as_case()}
        if "crash" in res2:
            fail("relabelled input: whatshap compare exits with an error: " + res2["crash"], "cli-relabel-crash", c2)
            continue
        diffs = []
        for key, row in res["rows"].items():
            row2 = res2["rows"].get(key, {})
            for col in NUMERIC:
                if row.get(col) != row2.get(col):
                    a, b = row.get(col), row2.get(col)
                    if "switchflips" not in col and b is not None and abs(float(a) - float(b)) < 1e-9:
                        continue
                    diffs.append((key, col, a, b))
        if diffs:
            only_split = p > 2 and all("switchflips" in col for _, col, _, _ in diffs) and all(
                abs(sum(map(float, a.split("/"))) - sum(map(float, b.split("/")))) < 1e-9 for _, _, a, b in diffs)
            fail(f"listing haplotypes in another order changes --tsv-pairwise: {diffs[:4]}", K_B if only_split else "cli-relabel", c2)
        if p == 2:
            if {kk: sorted(v) for kk, v in res["bed"].items()} != {kk: sorted(v) for kk, v in res2["bed"].items()}:
                fail("listing haplotypes in another order changes --switch-error-bed", "cli-relabel-bed", c2)
            if res["multiway"] != res2["multiway"]:
                fail("listing haplotypes in another order changes --tsv-multiway", "cli-relabel-multiway", c2)
            for key, lb in res["longest"].items():
                lb2 = res2["longest"].get(key, [])
                if [x for x, _ in lb] != [x for x, _ in lb2]:
                    fail("listing haplotypes in another order changes the positions in --longest-block-tsv", "cli-relabel-longest", c2)
                elif [y for _, y in lb].count(0) != [y for _, y in lb2].count(0):
                    fail("listing haplotypes in another order changes the number of disagreements in --longest-block-tsv "
                         f"({[y for _, y in lb].count(0)} -> {[y for _, y in lb2].count(0)})", K_F3, c2)
                elif lb != lb2:
                    ctx.observe("agreement vector inverted under relabelling at a tie d = n-d (same number of zeros)")
    return fails


def largest_matches(row, d, p):
    s, f = parse_sf(row["largestblock_switchflips"])
    return (frac(float(row["largestblock_switches"])) == d["switches"] and frac(float(row["largestblock_hamming"])) == d["hamming"]
            and int(row["largestblock_diff_genotypes"]) == d["diff"]
            and ((s + f == d["sf_cost"]) if p == 2 else ((s, f) in d["sf_pairs"])))


def Scenario_from(case):
    return G.Scenario.from_case(case)


def pair_model_equal(row, res, key, ans, p, exact_split=False):
    if ans == "error":
        return False
    def num(e, name):
        return Fraction(e[name], e["den"])

    def sf_ok(col, e):
        s, f = parse_sf(row[col])
        if p == 2:
            return (s, f) == (e["sf"][0], e["sf"][1])
        if exact_split:   # repaired code: the decomposition is unique (Props.C11.poly_fixed_split_unique_lexmin)
            return (s, f) == (Fraction(e["sf"][0], e["den"]), Fraction(e["sf"][1], e["den"]))
        return s + f == Fraction(e["sf"][0] + e["sf"][1], e["den"])   # as coded the split depends on hash order; the sum is determined
    t = ans["total"]
    ok = (int(row["intersection_blocks"]) == ans["intersection_blocks"] and int(row["covered_variants"]) == ans["covered_variants"]
          and int(row["all_assessed_pairs"]) == ans["assessed_pairs"]
          and int(row["largestblock_assessed_pairs"]) == max(ans["largest_len"] - 1, 0)
          and frac(float(row["all_switches"])) == num(t, "switches") and frac(float(row["blockwise_hamming"])) == num(t, "hamming")
          and int(row["blockwise_diff_genotypes"]) == t["diff"] and sf_ok("all_switchflips", t))
    lb = res["longest"].get(key, []) if p == 2 else []
    have_lb = p == 2 and (lb or "crash" not in res)
    # the longest block: any block of maximal length of the model (the model itself takes the first, as the code does)
    cands = [b for b in ans["per_block"] if len(b[0]) == ans["largest_len"]] or [[[], ans["largest"], []]]
    def block_ok(b):
        pos, l, agr = b
        good = (frac(float(row["largestblock_switches"])) == num(l, "switches") and frac(float(row["largestblock_hamming"])) == num(l, "hamming")
                and int(row["largestblock_diff_genotypes"]) == l["diff"] and sf_ok("largestblock_switchflips", l))
        if have_lb:
            good = good and [x for x, _ in lb] == pos and [y for _, y in lb] == agr
        return good
    ok = ok and any(block_ok(b) for b in cands)
    if p == 2 and "crash" not in res:
        ok = ok and sorted(res["bed"].get(key, [])) == sorted(tuple(x) for x in ans["bed"])
    return ok



# ------------------------------------------------------------------------------------------------
# the glue of `whatshap compare`: samples, reader options, variant identity, chromosomes, pairs, tables
# ------------------------------------------------------------------------------------------------

K_F45 = "F45-diploid-multiallelic-complement-keyerror"
K_F46 = "F46-diploid-multiallelic-first-haplotype"
K_F47 = "F47-multiway-sample-column-set-order"
ERR_PATTERNS = [
    ("multi-sample-ignore", "option --ignore-sample-name not available"),
    ("sample-not-found", "requested on command-line not found in all VCFs"),
    ("no-common-sample", "None of the samples is present in all VCFs"),
    ("ambiguous-sample", "More than one sample is present in all VCFs"),
    ("ploidy", "Provided ploidy is invalid"),
    ("no-common-chromosome", "No chromosome is contained in all VCFs"),
    ("not-sorted", "VCF not ordered"),
]


def run_glue_cli(ctx, gs, d, tag, hashseed=None):
    k, p, o = gs.n_files, gs.ploidy, gs.opts
    paths = []
    for f in range(k):
        path = os.path.join(d, f"{tag}_{f}.vcf")
        sim.write_vcf(path, gs.contigs, gs.files[f]["samples"], gs.vcf_records(f), fmt_defs=GL.PS_DEF)
        paths.append(path)
    out = {n: os.path.join(d, f"{tag}.{n}") for n in ("pair.tsv", "bed", "longest.tsv", "multi.tsv")}
    args = ["compare", "--ploidy", p, "--names", ",".join(f"f{i}" for i in range(k)), "--tsv-pairwise", out["pair.tsv"]]
    if o["only_snvs"]:
        args.append("--only-snvs")
    if o["ignore"]:
        args.append("--ignore-sample-name")
    if o["sample"]:
        args += ["--sample", o["sample"]]
    if p == 2:
        args += ["--switch-error-bed", out["bed"], "--longest-block-tsv", out["longest.tsv"]]
        if k > 2:
            args += ["--tsv-multiway", out["multi.tsv"]]
    env = {"PYTHONHASHSEED": str(hashseed)} if hashseed is not None else None
    rc, so, se, _ = sim.whatshap(args + paths, ctx.overlay, env_extra=env)
    res = {"rc": rc, "error": None}
    if rc != 0:
        res["error"] = next((name for name, pat in ERR_PATTERNS if pat in se), "exception")
        last = [l for l in se.strip().splitlines() if l.strip()][-1:] or [""]
        res["crash"] = last[0][:200]
        res["keyerror"] = "KeyError" in se and "complement" in se
    rows, order = {}, []
    if os.path.exists(out["pair.tsv"]):
        lines = [l.rstrip("\n").split("\t") for l in open(out["pair.tsv"])]
        if lines:
            hdr = [h.lstrip("#") for h in lines[0]]
            for l in lines[1:]:
                r = dict(zip(hdr, l))
                key = (r["chromosome"], int(r["dataset_name0"][1:]), int(r["dataset_name1"][1:]))
                rows[key] = r
                order.append(key)
    res["rows"], res["row_order"] = rows, order
    bed, bedseq = {}, []
    if p == 2 and os.path.exists(out["bed"]):
        for l in open(out["bed"]):
            c, s, e, ann = l.rstrip("\n").split("\t")
            a, b = ann.split("<-->")
            bed.setdefault((c, int(a[1:]), int(b[1:])), []).append((int(s), int(e)))
            bedseq.append([c, int(s), int(e), int(a[1:]), int(b[1:])])
    res["bed"], res["bedseq"] = bed, bedseq
    lb = {}
    if p == 2 and os.path.exists(out["longest.tsv"]):
        for l in open(out["longest.tsv"]):
            if l.startswith("#"):
                continue
            a, b, _, c, pos, agr = l.rstrip("\n").split("\t")
            lb.setdefault((c, int(a[1:]), int(b[1:])), []).append((int(pos), int(agr)))
    res["longest"] = lb
    mw = {}
    if p == 2 and k > 2 and os.path.exists(out["multi.tsv"]):
        for l in open(out["multi.tsv"]):
            if l.startswith("#"):
                continue
            sname, c, left, right, cnt = l.rstrip("\n").split("\t")
            rs = [int(x[1:]) for x in right.strip("{}").split(",") if x]
            mw.setdefault(c, []).append((sname, rs, int(cnt)))
    res["multiway"] = mw
    for f in list(out.values()) + paths:
        if os.path.exists(f):
            os.remove(f)
    return res


def check_glue(ctx, gs, d, n_relabel=1, replay_relabelled=None):
    """one `whatshap compare` run on a glue scenario: (a) the numbers of every written row equal the definitions recomputed
    from the variants both files really share (position, REF, ALT), for the sample the options select, with the
    reader's documented filters; the sample / het_variants0 / only_snvs columns; refusal when no sample can be selected;
    (b) everything (errors, rows, their order, BED order, multiway) equals the Lean model `c11.run`; (c) relabelling."""
    ctx.evaluated()
    case = dict(gs.as_case(), kind="glue")
    p, k, o = gs.ploidy, gs.n_files, gs.opts
    multi = gs.has_multi_gt()
    ctx.dist("glue_ploidy", p); ctx.dist("glue_files", k); ctx.dist("glue_multi_gt", multi)
    ctx.dist("glue_opts", f"sample={'y' if o['sample'] else 'n'} ignore={int(o['ignore'])} only_snvs={int(o['only_snvs'])}")
    res = run_glue_cli(ctx, gs, d, "glue")
    ctx.dist("glue_outcome", res["error"] or "ok")
    fails = []

    def fail(what, key, c=None):
        fails.append(key)
        ctx.fail(what, c or case, key=key)

    # ---- (a) property predicate
    names = gs.expected_samples()
    def contiguous(f):
        seq = [r["chrom"] for r in f["records"]]
        runs = [c for i_, c in enumerate(seq) if i_ == 0 or seq[i_ - 1] != c]
        return len(runs) == len(set(runs))
    if not all(contiguous(f) for f in gs.files):
        # the records of a chromosome are not contiguous: not a file the property speaks about (the reader keeps the LAST run of
        # a chromosome only — modelled, so the correspondence below still applies); the definition oracle is skipped
        ctx.observe("glue: a file with non-contiguous records of one chromosome — oracle skipped, correspondence only")
        names = None if names is None else "skip"
    if names is None:
        if res["rc"] == 0:
            fail("whatshap compare ran although the options select no sample present in all files", "glue-sample-refusal")
    elif names == "skip":
        names = None
    elif res["error"] == "exception":
        if res.get("keyerror") and p == 2 and multi:
            fail("whatshap compare dies with KeyError in complement(): a heterozygous multi-allelic call lists an allele >= 2 on the "
                 "first haplotype of the second data set (compare reads its input with mav=True)", K_F45)
        else:
            fail("whatshap compare exits with an exception: " + res.get("crash", ""), "glue-crash")
    if names is not None:
        nontrivial = False
        for key, row in res["rows"].items():
            c, i, j = key
            t0, t1 = gs.pair_tables(c, i, j, names)
            where = f"{c} f{i}<->f{j}: "
            mk = K_F46 if (p == 2 and any(a > 1 for t in (t0, t1) for x in t for a in x["gt"])) else None
            if mk is None:
                if check_pair_row(ctx, fail, where, row, res, key, t0, t1, p):
                    nontrivial = True
            else:
                # diploid calls with an allele >= 2: either every phased call is assessed (then the numbers must equal the
                # definitions: F46 when they do not), or such calls are not assessed at all (fixes/F46.patch)
                strict, lenient = [], []
                check_pair_row(ctx, lambda w, k_, c_=None: strict.append((w, k_, c_)), where, row, res, key, t0, t1, p, multi_key=mk)
                if strict:
                    u0, u1 = ([dict(x, phased=x["phased"] and all(a <= 1 for a in x["gt"])) for x in t] for t in (t0, t1))
                    check_pair_row(ctx, lambda w, k_, c_=None: lenient.append((w, k_, c_)), where, row, res, key, u0, u1, p)
                    if lenient:
                        for w, k_, c_ in strict:
                            fail(w, k_, c_)
                    else:
                        ctx.observe("diploid: phases of calls with an allele >= 2 are not assessed (F46 repair present)")
            exp_s = f"{names[i]}_{names[j]}" if o["ignore"] else names[i]
            if row["sample"] != exp_s:
                fail(where + f"sample column {row['sample']!r}, compared samples are {exp_s!r}", "glue-sample-column")
            if int(row["het_variants0"]) != gs.het0(c, names):
                fail(where + f"het_variants0 = {row['het_variants0']}, the first file has {gs.het0(c, names)} non-homozygous variants", "glue-het0")
            if int(row["only_snvs"]) != int(o["only_snvs"]):
                fail(where + "only_snvs column does not show the option", "glue-only-snvs-column")
        if res["rc"] == 0:
            common = sorted(c for c in gs.chroms if all(any(r["chrom"] == c for r in f["records"]) for f in gs.files))
            want = [(c, i, j) for c in common for i in range(k) for j in range(i + 1, k)]
            if res["row_order"] != want:
                fail(f"--tsv-pairwise rows {res['row_order']} != all pairs of the common chromosomes in sorted order {want}", "glue-rows")
        if nontrivial:
            ctx.nontrivial("glue" + json.dumps(case, sort_keys=True))

    # ---- (b) correspondence with the Lean model of run_compare
    req = gs.model_request()
    variants = [dict(fix45=False, fix46=False), dict(fix45=True, fix46=False), dict(fix45=True, fix46=True),
                dict(fix45=False, fix46=True)]
    answers = ctx.model.ask_many([dict(req, fix3=True, **v) for v in variants])
    ans = answers[0]

    def model_equal(ans):
        if "error" in ans:
            want = "exception" if ans["error"] == "no-sample" else ans["error"]     # a VCF without samples: IndexError
            return res["error"] == want and not res["rows"]
        chroms = ans["chroms"]
        died = bool(chroms and chroms[-1]["died"])
        if died != (res["error"] == "exception") or (res["error"] not in (None, "exception")):
            return False
        want_rows, bedseq = [], []
        for ch in chroms:
            for pr in ch["pairs"]:
                if pr["result"] is None:
                    continue
                key = (ch["chrom"], pr["i"], pr["j"])
                want_rows.append(key)
                row = res["rows"].get(key)
                if row is None or row["sample"] != pr["sample"] or int(row["het_variants0"]) != pr["het0"]:
                    return False
                res_ = {x: v for x, v in res.items() if x != "crash"}
                if ch["died"]:
                    res_["crash"] = 1     # BED / longest-block rows of this chromosome were not written
                if not pair_model_equal(row, res_, key, pr["result"], p, exact_split=True):
                    return False
            bedseq += [[ch["chrom"]] + b for b in ch["bed"]]
            if p == 2 and k > 2:
                got = res["multiway"].get(ch["chrom"], [])
                if ch["multiway"] is None:
                    if got:
                        return False
                else:
                    m = ch["multiway"]
                    exp = [([i for i, x in enumerate(key_) if x == 1], cnt) for key_, cnt in m["hist"]]
                    if [(rs, cnt) for _, rs, cnt in got] != exp:
                        return False
                    for sname, _, _ in got:
                        if o["ignore"]:
                            if sorted(sname.split("_")) != sorted(m["names"]):
                                return False
                        elif sname != (m["names"] or [""])[0]:
                            return False
        if res["row_order"] != want_rows:
            return False
        if p == 2 and res["bedseq"] != bedseq:
            return False
        return True

    if not model_equal(ans):
        hit = next((v for v, a in zip(variants[1:], answers[1:]) if model_equal(a)), None)
        if hit:
            ctx.observe(f"implementation matches the model with the proposed repairs {hit}")
        else:
            ctx.disagree("c11.run", req, {"error": res["error"], "rows": {str(kk): {x: v.get(x) for x in NUMERIC + ['sample', 'het_variants0']}
                                                                       for kk, v in res["rows"].items()},
                                          "bed": res["bedseq"], "multiway": res["multiway"]}, ans)
    # ---- (b') three-way: Lean definition of the report (`c11.runspec`) vs the CLI rows vs the Python oracle vs the Lean model
    if p == 2 and not multi:
        check_runspec(ctx, gs, res, names, req, answers[2], fail)
    # multiway sample column: file order of the distinct names is the only order that does not depend on the hash seed
    if p == 2 and k > 2 and o["ignore"] and res["rc"] == 0 and names is not None and len(set(names)) > 1:
        first = list(dict.fromkeys(names))
        seen = {s for rows_ in res["multiway"].values() for s, _, _ in rows_}
        for hs in (1, 2, 3):
            r2 = run_glue_cli(ctx, gs, d, f"hs{hs}", hashseed=hs)
            seen |= {s for rows_ in r2["multiway"].values() for s, _, _ in rows_}
        if len(seen) > 1:
            fail(f"--tsv-multiway sample column differs between runs with different PYTHONHASHSEED: {sorted(seen)} "
                 f"(\"_\".join(set(sample_names)))", K_F47)
        elif seen and seen != {"_".join(first)} and sorted(next(iter(seen)).split("_")) != sorted(first):
            fail(f"--tsv-multiway sample column {seen} does not name the compared samples {first}", "glue-multiway-sample")

    # ---- (c) relabelling
    if res["rc"] != 0 or names is None:
        return fails
    rel = [GL.GlueScenario.from_case(replay_relabelled)] if replay_relabelled else [gs.relabelled(ctx.rng) for _ in range(n_relabel)]
    for r_i, g2 in enumerate(rel):
        ctx.evaluated()
        res2 = run_glue_cli(ctx, g2, d, f"grel{r_i}")
        c2 = {"kind": "glue-relabel", "base": gs.as_case(), "relabelled": g2.as_case()}
        if res2["rc"] != 0:
            fail("relabelled input: whatshap compare exits with an error: " + res2.get("crash", ""),
                 K_F45 if (res2.get("keyerror") and multi and p == 2) else "glue-relabel-crash", c2)
            continue
        diffs = []
        for key, row in res["rows"].items():
            row2 = res2["rows"].get(key, {})
            for col in NUMERIC:
                a, b = row.get(col), row2.get(col)
                if a != b:
                    if "switchflips" not in col and b is not None and abs(float(a) - float(b)) < 1e-9:
                        continue
                    diffs.append((key, col, a, b))
        if diffs:
            fail(f"listing haplotypes in another order changes --tsv-pairwise: {diffs[:4]}", K_F46 if (multi and p == 2) else "glue-relabel", c2)
        if p == 2 and {kk: sorted(v) for kk, v in res["bed"].items()} != {kk: sorted(v) for kk, v in res2["bed"].items()}:
            fail("listing haplotypes in another order changes --switch-error-bed", K_F46 if multi else "glue-relabel-bed", c2)
    return fails

# ------------------------------------------------------------------------------------------------
# run
# ------------------------------------------------------------------------------------------------

def check_runspec(ctx, gs, res, names, req, model_ans, fail):
    """three-way comparison for a diploid glue scenario: the Lean DEFINITION of the pairwise report (`Spec/C11Run.lean`, op
    `c11.runspec`: common heterozygous variants, intersection blocks by naive group-by, per block switch errors = correspondence
    changes, switch/flip = run lengths, Hamming = min over correspondences, totals = sums, first longest block, BED rows,
    het_variants0) against (1) every row the REAL `whatshap compare` wrote (`ctx.fail`, keys `runspec-*`: the Lean spec is the
    property predicate here), (2) the Python oracle `G.pair_definitions` (`ctx.disagree c11.runspec-oracle`), (3) the Lean model
    `c11.run` with the repaired flags (`ctx.disagree c11.runspec`; proved for all inputs as far as `Props.C11.run_compare_meets_spec*`
    goes)."""
    spec = ctx.model.ask_many([dict(req, op="c11.runspec")])[0]
    if "error" in spec or "error" in model_ans:
        if ("error" in spec) != ("error" in model_ans) or spec.get("error") != model_ans.get("error"):
            ctx.disagree("c11.runspec", req, model_ans.get("error"), spec.get("error"))
        return
    ctx.dist("runspec_checked", True)
    mchroms = {ch["chrom"]: ch for ch in model_ans["chroms"]}
    for sc in spec["chroms"]:
        c = sc["chrom"]
        mch = mchroms.get(c)
        for pr in sc["pairs"]:
            i, j, S = pr["i"], pr["j"], pr["spec"]
            key = (c, i, j)
            where = f"{c} f{i}<->f{j}: "
            # (1) the real rows
            row = res["rows"].get(key)
            if row is not None:
                got = dict(intersection_blocks=int(row["intersection_blocks"]), covered_variants=int(row["covered_variants"]),
                           assessed_pairs=int(row["all_assessed_pairs"]), switches=frac(float(row["all_switches"])),
                           sf=list(parse_sf(row["all_switchflips"])), hamming=frac(float(row["blockwise_hamming"])),
                           diff=int(row["blockwise_diff_genotypes"]),
                           largest_pairs=int(row["largestblock_assessed_pairs"]), het0=int(row["het_variants0"]))
                want = dict(intersection_blocks=S["intersection_blocks"], covered_variants=S["covered_variants"],
                            assessed_pairs=S["assessed_pairs"], switches=S["switches"], sf=S["sf"], hamming=S["hamming"],
                            diff=S["diff"], largest_pairs=max(S["largest_len"] - 1, 0), het0=pr["het0"])
                for col in want:
                    if got[col] != want[col]:
                        fail(where + f"{col}: whatshap compare reports {got[col]}, the definition (Lean Spec.pairSpec) gives {want[col]}",
                             "runspec-" + col)
                cands = [b for b in S["blocks"] if len(b["positions"]) == S["largest_len"]]
                lgot = (frac(float(row["largestblock_switches"])), list(parse_sf(row["largestblock_switchflips"])),
                        frac(float(row["largestblock_hamming"])), int(row["largestblock_diff_genotypes"]))
                if cands and not any(lgot == (b["switches"], b["sf"], b["hamming"], b["diff"]) for b in cands):
                    fail(where + f"largest block numbers {lgot} are those of no intersection block of maximal length (Lean Spec)", "runspec-largest")
                if not cands and lgot != (0, [0, 0], 0, 0):
                    fail(where + f"largest block numbers {lgot} although there is no intersection block", "runspec-largest")
                if "crash" not in res and sorted(res["bed"].get(key, [])) != sorted(tuple(b) for b in S["bed"]):
                    fail(where + f"--switch-error-bed rows {sorted(res['bed'].get(key, []))} != rows by definition {sorted(S['bed'])}", "runspec-bed")
            # (2) the Python oracle
            if names is not None:
                t0, t1 = gs.pair_tables(c, i, j, names)
                D = G.pair_definitions(t0, t1, 2)
                o_ = dict(common_het=len(D["common"]), intersection_blocks=D["intersection_blocks"], covered_variants=D["covered"],
                          assessed_pairs=D["pairs"], switches=D["total"]["switches"], hamming=D["total"]["hamming"], diff=D["total"]["diff"],
                          sfsum=D["total"]["sf_cost"], largest_len=D["longest_len"],
                          blocks=[([D["common"][v] for v in b], d["switches"], d["hamming"], d["diff"], d["sf_cost"]) for b, _, _, d in D["per_block"]])
                s_ = dict(common_het=S["common_het"], intersection_blocks=S["intersection_blocks"], covered_variants=S["covered_variants"],
                          assessed_pairs=S["assessed_pairs"], switches=S["switches"], hamming=S["hamming"], diff=S["diff"],
                          sfsum=sum(S["sf"]), largest_len=S["largest_len"],
                          blocks=[(b["positions"], b["switches"], b["hamming"], b["diff"], sum(b["sf"])) for b in S["blocks"]])
                if o_ != s_:
                    ctx.disagree("c11.runspec-oracle", {"t0": table_json(t0), "t1": table_json(t1)},
                                 {k_: str(v) for k_, v in o_.items() if v != s_[k_]}, {k_: str(v) for k_, v in s_.items() if o_[k_] != v})
            # (3) the Lean model (repaired flags)
            mp = next((x for x in (mch["pairs"] if mch else []) if (x["i"], x["j"]) == (i, j)), None)
            if mp is None or mp["result"] is None:
                ctx.disagree("c11.runspec", req, "model has no result for " + str(key), S)
                continue
            R = mp["result"]
            m_ = dict(het0=mp["het0"], intersection_blocks=R["intersection_blocks"], covered_variants=R["covered_variants"],
                      assessed_pairs=R["assessed_pairs"], switches=R["total"]["switches"], sf=R["total"]["sf"], hamming=R["total"]["hamming"],
                      diff=R["total"]["diff"], largest_len=R["largest_len"],
                      largest=(R["largest"]["switches"], R["largest"]["sf"], R["largest"]["hamming"], R["largest"]["diff"]),
                      bed=R["bed"], blocks=[(b[0], b[1]["switches"], b[1]["sf"], b[1]["hamming"], b[1]["diff"]) for b in R["per_block"]])
            L = S["largest"]
            w_ = dict(het0=pr["het0"], intersection_blocks=S["intersection_blocks"], covered_variants=S["covered_variants"],
                      assessed_pairs=S["assessed_pairs"], switches=S["switches"], sf=S["sf"], hamming=S["hamming"], diff=S["diff"],
                      largest_len=S["largest_len"],
                      largest=(L["switches"], L["sf"], L["hamming"], L["diff"]) if L else (0, [0, 0], 0, 0),
                      bed=S["bed"], blocks=[(b["positions"], b["switches"], b["sf"], b["hamming"], b["diff"]) for b in S["blocks"]])
            if m_ != w_:
                ctx.disagree("c11.runspec", req, {k_: str(v) for k_, v in m_.items() if v != w_[k_]},
                             {k_: str(v) for k_, v in w_.items() if m_[k_] != v})
        if mch is not None and not mch["died"] and mch["bed"] != sc["bed"]:
            ctx.disagree("c11.runspec", req, {"bed": mch["bed"]}, {"bed": sc["bed"]})


def rand_hap(rng, n, alphabet=(0, 1)):
    return [rng.choice(alphabet) for _ in range(n)]


def comp(h):
    return [1 - x for x in h]


def run(ctx):
    rng = ctx.rng
    lib = Lib(ctx)
    d = ctx.workdir()
    try:
        _run(ctx, rng, lib, d)
        lib.flush()
    finally:
        shutil.rmtree(d, ignore_errors=True)


def replay_case(ctx, lib, d, c):
    kind = c.get("kind")
    if kind == "block":
        p = len(c["ph0"])
        binary_het = all(set(col) == {0, 1} for ph in (c["ph0"], c["ph1"]) for col in zip(*ph)) if c["ph0"] and c["ph0"][0] else False
        lib.block(c["ph0"], c["ph1"], relabels=10 ** 6 if p <= 3 else 60, oracle=binary_het, spec=math.factorial(p) ** len(c["ph0"][0]) <= 3000)
    elif kind == "raw":
        lib.raw(c["a"], c["b"])
    elif kind == "poly":
        lib.poly(c["ph0"], c["ph1"], c["sc"], c["fc"], brute=math.factorial(len(c["ph0"])) ** len(c["ph0"][0]) <= 3000)
    elif kind == "longblock":
        lib.long_block([[int(x) for x in h] for h in c["ph0"]], [[int(x) for x in h] for h in c["ph1"]])
    elif kind == "cli":
        check_cli(ctx, G.Scenario.from_case(c), d, 1)
    elif kind == "glue":
        check_glue(ctx, GL.GlueScenario.from_case(c), d, 1)
    elif kind == "glue-relabel":
        check_glue(ctx, GL.GlueScenario.from_case(c["base"]), d, 0, replay_relabelled=c["relabelled"])
    elif kind == "cli-relabel":
        check_cli(ctx, G.Scenario.from_case(c["base"]), d, 0, replay_relabelled=c["relabelled"])


def _run(ctx, rng, lib, d):
    if ctx.replay:
        replay_case(ctx, lib, d, json.load(open(ctx.replay))["case"])
        return
    for _, c in ctx.corpus():
        replay_case(ctx, lib, d, c)
    quick, scale = ctx.quick, ctx.scale
    if os.environ.get("VERIF_C11_ONLY") == "glue":      # development aid: only the glue stream
        glue_stream(ctx, rng, d, int(os.environ.get("VERIF_C11_N", "200")))
        return
    if os.environ.get("VERIF_C11_ONLY") in ("large", "long"):      # development aid: only the large-cost / long-block stream
        (large_cost_stream if os.environ["VERIF_C11_ONLY"] == "large" else long_block_stream)(ctx, rng, lib, int(os.environ.get("VERIF_C11_N", "200")))
        lib.flush()
        return

    # ---- raw string functions: exhaustive small, random larger, malformed
    maxn = 4 if quick else 6
    for n in range(0, maxn + 1):
        for a in itertools.product((0, 1), repeat=n):
            for b in itertools.product((0, 1), repeat=n):
                lib.raw(list(a), list(b))
    for _ in range((600 if quick else 6000) * scale):
        n = rng.randrange(0, 40)
        a = rand_hap(rng, n)
        r = rng.random()
        if r < 0.7:
            b = rand_hap(rng, n)
        elif r < 0.8:
            b = rand_hap(rng, max(0, n + rng.choice([-2, -1, 1, 2])))
        else:
            a, b = rand_hap(rng, n, (0, 1, 2)), rand_hap(rng, n, (0, 1, 2))
        lib.raw(a, b)

    # ---- diploid blocks (heterozygous, complementary): exhaustive small + random larger, every relabelling
    ex_n = 4 if quick else 7
    cnt = 0
    for n in range(1, ex_n + 1):
        for a in itertools.product((0, 1), repeat=n):
            for b in itertools.product((0, 1), repeat=n):
                a_, b_ = list(a), list(b)
                lib.block([a_, comp(a_)], [b_, comp(b_)], relabels=3, spec=(n <= 4))
                cnt += 1
    ctx.extra["exhaustive_diploid_blocks_len_le"] = ex_n
    ctx.extra["exhaustive_diploid_blocks"] = cnt
    for _ in range((1500 if quick else 12000) * scale):
        n = rng.randrange(2, 60)
        a = rand_hap(rng, n)
        t = G.perturb(rng, [a, comp(a)], rng.choice([0.05, 0.2, 0.5]), rng.choice([0.0, 0.1, 0.4]))
        lib.block([a, comp(a)], t, relabels=3)
    # diploid, not complementary / multi-allelic / malformed: correspondence only
    for _ in range((500 if quick else 4000) * scale):
        n = rng.randrange(0, 12)
        alpha = rng.choice([(0, 1), (0, 1, 2)])
        r = rng.random()
        if r < 0.7:
            lib.block([rand_hap(rng, n, alpha), rand_hap(rng, n, alpha)], [rand_hap(rng, n, alpha), rand_hap(rng, n, alpha)], oracle=False)
        elif r < 0.85:
            lib.block([rand_hap(rng, n, alpha), rand_hap(rng, n + 1, alpha)], [rand_hap(rng, n, alpha), rand_hap(rng, n, alpha)], oracle=False)
        else:
            q = rng.choice([0, 1, 2, 3])
            lib.block([rand_hap(rng, n) for _ in range(q)], [rand_hap(rng, n) for _ in range(rng.choice([q, q + 1]))], oracle=False)

    # ---- polyploid blocks
    n_poly = (1200 if quick else 10000) * scale
    for it in range(n_poly):
        p = rng.choice([3, 3, 4])
        n = rng.randrange(2, (9 if p == 3 else 7) if not quick else (8 if p == 3 else 6))
        truth = G.truth_haps(rng, p, n)
        mode = rng.random()
        if mode < 0.6:
            other = G.perturb(rng, truth, rng.choice([0.1, 0.3]), rng.choice([0.0, 0.15]), 0.0)
        elif mode < 0.85:
            other = G.perturb(rng, truth, 0.2, 0.1, rng.choice([0.1, 0.5, 0.9]))
        else:
            other = G.relabel(truth, rng.sample(range(p), p))
        small = math.factorial(p) ** n <= 3000
        lib.block(truth, other, relabels=(35 if p == 3 else (8 if quick else 40)), spec=small and it % 3 == 0)
    # long, error-dense polyploid blocks: the decomposition must stay "fewest switches+flips, then fewest flips" however many
    # flips the block holds (the cost pair handed to the calculator has to grow with the block).  The definition oracle
    # costs ~5 ms on such blocks, so a cheap screen runs first: the calculator itself with a cost pair far beyond any
    # block length; only blocks on which compare_block reports something else go to the oracle (none, if the code is right).
    n_long = (4000 if quick else 40000) * scale
    screened = 0
    for it in range(n_long):
        p = rng.choice([3, 3, 3, 4])
        n = rng.choice([14, 18, 24, 32, 48, 64])
        truth = G.truth_haps(rng, p, n)
        other = G.perturb(rng, truth, rng.choice([0.0, 0.1, 0.3, 0.5]), rng.choice([0.5, 0.9, 1.0]), 0.0)
        a, b = [hstr(h) for h in truth], [hstr(h) for h in other]
        ctx.evaluated()
        try:
            e = lib.C.compare_block(a, b)
            big = 1000 * p * n
            ref = lib.C.compute_switch_flips_poly(a, b, switch_cost=big, flip_cost=big + 1)
            same = (e.switch_flips.switches, e.switch_flips.flips) == (ref.switches, ref.flips)
        except Exception:
            same = False
        if not same:
            screened += 1
            lib.block(truth, other, relabels=0)
    ctx.dist("long_dense_poly_blocks_sent_to_oracle", screened)
    # exhaustive: triploid blocks of 2 positions, all het columns on both sides
    if not quick:
        cols = [c for c in itertools.product((0, 1), repeat=3) if 0 < sum(c) < 3]
        cnt = 0
        for c0 in itertools.product(cols, repeat=2):
            for c1 in itertools.product(cols, repeat=2):
                ph0 = [[c0[i][j] for i in range(2)] for j in range(3)]
                ph1 = [[c1[i][j] for i in range(2)] for j in range(3)]
                lib.block(ph0, ph1, relabels=35, spec=True)
                cnt += 1
        ctx.extra["exhaustive_triploid_blocks_len_2"] = cnt

    # ---- the calculator itself with other costs (random haplotypes, any genotypes)
    for it in range((800 if quick else 8000) * scale):
        p = rng.choice([2, 3, 3, 4])
        n = rng.randrange(1, 6 if p < 4 else 4) if it % 4 else rng.randrange(2, 9 if p < 4 else 7)
        ph0 = [rand_hap(rng, n) for _ in range(p)]
        ph1 = [rand_hap(rng, n) for _ in range(p)]
        sc, fc = rng.choice([(1, 1), (1, 1), (1, 2), (2, 1), (1, 3), (3, 2), (1, 2 * n * p + 1), (5, 1)])
        lib.poly(ph0, ph1, sc, fc, brute=math.factorial(p) ** n <= 2000 and it % 2 == 0)
    large_cost_stream(ctx, rng, lib, (900 if quick else 9000) * scale)
    long_block_stream(ctx, rng, lib, (2 if quick else 14) * scale)
    lib.flush()
    ctx.extra["exhaustive"] = True

    # ---- CLI scenarios
    n_cli = (45 if quick else 450) * scale
    for it in range(n_cli):
        p = rng.choice([2, 2, 2, 3, 4])
        k = rng.choice([2, 2, 3]) if p == 2 else rng.choice([2, 2, 3])
        style = rng.random()
        kw = {}
        if style < 0.12:
            kw = dict(identical=True)
        elif style < 0.3:
            kw = dict(p_unphased=0, p_hom=0, p_missing=0, cut=0.0, interleave=0)     # one block per file
        elif style < 0.45:
            kw = dict(p_switch=0.5, p_flip=0.3, cut=0.1)
        if p > 2:
            kw["p_geno"] = rng.choice([0.0, 0.0, 0.15, 0.5])
        nv = (2, 14) if p == 2 else ((2, 9) if p == 3 else (2, 7))
        if p == 2 and rng.random() < 0.25:
            nv = (2, 4)          # tiny: few pairs, every data set may disagree somewhere
        scen = G.Scenario(rng, p, k, n_chroms=rng.choice([1, 1, 2]), n_var=nv, **kw)
        check_cli(ctx, scen, d, n_relabel=2 if quick else 3)

    # ---- many intersection blocks, each with switches AND flips (round 10: the totals are sums over the blocks — an accumulation
    # bug in one column, e.g. flips taken as a maximum, needs >= 2 blocks with a non-zero value each)
    for it in range((5 if quick else 40) * scale):
        scen = G.Scenario(rng, 2, 2, n_chroms=1, n_var=(24, 40), p_switch=0.15, p_flip=0.35, cut=0.12, p_unphased=0.03, p_hom=0.03,
                          p_missing=0.02, interleave=0.1)
        ctx.dist("cli_many_blocks", True)
        check_cli(ctx, scen, d, n_relabel=1)

    glue_stream(ctx, rng, d, (40 if quick else 400) * scale)


def large_cost_stream(ctx, rng, lib, n_cases):
    """the calculator (and compare.compute_switch_flips_poly) with LARGE integer cost pairs on small blocks, where the exact
    optimum is known from brute force / the integer Viterbi oracle / the Lean model over naturals: costs 2^20 .. 2^50, mostly
    fc = sc + 1 (the shape compare_block uses: lexicographic (switches + flips, flips)), chosen so that the optimum
    sc * (switches + flips) lands just below / at / just above 2^24, 2^31, 2^32 and up to just below 2^53.  Exactness is
    demanded for every pair inside exact_domain (all scores < 2^53); a few pairs beyond it are run and only counted."""
    thresholds = [2 ** 24, 2 ** 24, 2 ** 31, 2 ** 32, 2 ** 53]
    beyond = [0, 0]
    for it in range(n_cases):
        p = rng.choice([2, 3, 3, 4, 4])
        n = rng.randrange(1, 6 if p < 4 else 4) if it % 3 else rng.randrange(3, 9 if p < 4 else 7)
        if it % 2 and n >= 2:
            ph0 = G.truth_haps(rng, p, n)       # what compare_block sees: het columns, a perturbed copy
            ph1 = G.perturb(rng, ph0, rng.choice([0.1, 0.3, 0.6]), rng.choice([0.2, 0.6, 1.0]), rng.choice([0.0, 0.0, 0.3]))
        else:
            ph0 = [rand_hap(rng, n) for _ in range(p)]
            ph1 = [rand_hap(rng, n) for _ in range(p)]
        errors, _ = G.objective(ph0, ph1, 1, 1)
        cap = (2 ** 53 - 1) // (p * (n + 1)) - 1          # max(sc, fc) <= cap  =>  exact_domain
        if it % 16 == 15:
            # outside the domain: nothing is demanded; the run documents where exactness ends
            sc = rng.randrange(2 ** 53, 2 ** 60)
            fc = sc + 1
            best, pairs = G.objective(ph0, ph1, sc, fc)
            try:
                sw, fl, _, _, _ = lib.Calc(p, sc, fc).compute_switch_flips_poly([hstr(h) for h in ph0], [hstr(h) for h in ph1])
                ok = (int(sw), int(fl)) in pairs
            except (OverflowError, ValueError):
                ok = False
            beyond[0 if ok else 1] += 1
            continue
        if errors == 0 and rng.random() < 0.8:
            continue
        if errors == 0 or it % 4 == 0:
            e = rng.randrange(20, 51)
            sc = 2 ** e + rng.choice([-1, 0, 0, 1, rng.randrange(2 ** e)])
        else:
            t = rng.choice(thresholds)
            q = t // errors
            sc = q + rng.choice([-2, -1, 0, 1, 2, rng.randrange(q // 8 + 1), -rng.randrange(q // 8 + 1)])
        sc = max(2, min(sc, cap - rng.randrange(4)))
        shape = rng.choice(["k,k+1"] * 6 + ["k,k", "k+1,k", "1,k", "k,1", "k,2k"])
        sc, fc = {"k,k+1": (sc, sc + 1), "k,k": (sc, sc), "k+1,k": (sc + 1, sc), "1,k": (1, sc), "k,1": (sc, 1),
                  "k,2k": (sc // 2, 2 * (sc // 2))}[shape]
        if not exact_domain(p, n, sc, fc):
            continue
        ctx.dist("large_cost_shape", shape)
        ctx.dist("large_cost_optimum_log2", (G.objective(ph0, ph1, sc, fc)[0]).bit_length() // 4 * 4)
        lib.poly(ph0, ph1, sc, fc, brute=math.factorial(p) ** n <= 2000 and it % 3 == 0, key="poly-large-cost-inexact", wrapper=True)
    ctx.dist("costs_beyond_2^53_still_optimal", beyond[0])
    ctx.dist("costs_beyond_2^53_not_optimal", beyond[1])


def dense_pair(rng, p, n, style):
    """two phasings of n het columns with errors at (almost) every position"""
    ph0 = G.truth_haps(rng, p, n)
    if style == 0:
        cols = []
        for i in range(n):
            c = [ph0[j][i] for j in range(p)]
            rng.shuffle(c)                   # same genotype, alleles assigned to haplotypes independently at every position
            cols.append(c)
        ph1 = [[cols[i][j] for i in range(n)] for j in range(p)]
    else:
        ph1 = G.perturb(rng, ph0, rng.choice([0.3, 0.5]), rng.choice([0.9, 1.0]), rng.choice([0.0, 0.05]))
    return ph0, ph1


def long_block_stream(ctx, rng, lib, n_blocks):
    """blocks long and error-rich enough that the scores compare_block's cost pair produces exceed 2^24 (tetraploid: about
    3000 positions with > 1400 raw switches + flips; triploid: about 5000)"""
    for it in range(n_blocks):
        p = 4 if it % 4 != 3 else 3
        n = rng.randrange(2800, 4200) if p == 4 else rng.randrange(4800, 6000)
        ph0, ph1 = dense_pair(rng, p, n, 0 if it % 3 != 2 else 1)
        lib.long_block(ph0, ph1)
        lib.flush()


def glue_stream(ctx, rng, d, n_glue):
    """the glue of run_compare: samples / reader options / variant identity / chromosomes / pairs (model `c11.run`)"""
    for it in range(n_glue):
        multi = it % 8 == 7
        p = rng.choice([2, 2, 2, 3]) if not multi else rng.choice([2, 2, 2, 2, 3])
        k = rng.choice([2, 2, 3])
        gs = GL.GlueScenario(rng, p, k, multi_gt=multi)
        check_glue(ctx, gs, d, n_relabel=1)

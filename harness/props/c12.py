"""C12 — stats counts add up and describe the phase sets present in the file.

Per generated VCF the REAL CLI `whatshap stats --tsv --block-list --gtf [--only-snvs] [--chromosome ..] [--sample ..]` is run.
  * oracle (Python, straight from the VCF text, independent of Lean): per processed chromosome the counts of variants,
    heterozygous variants / SNVs, phased, unphased, singletons, blocks, phased SNVs; phased + unphased + singletons =
    heterozygous; variant_per_block_sum = phased = sum of block-list sizes > 1; block list = one line per phase set with true
    first/last position and size; bp_per_block_sum <= length of the union of the block intervals; ALL row = sum of the
    chromosome rows for the additive columns.  Conventions shared with the reader (documented there): records without ALT
    and multi-ALT records are not variants, a repeated position counts once, SNV = one base against one base; a call is
    heterozygous iff all alleles are called and not all equal; a phased call without PS value belongs to phase set 0.
  * correspondence: every TSV field (medians/averages/fractions recomputed from the model's sorted lists), the block list
    and the GTF equal the Lean model of the repaired code; if not, the faithful model of HEAD decides whether the
    difference is the known defect F5 (missing genotype counted heterozygous) / F5b (PS value '.' -> block None).
"""
import concurrent.futures, json, math, os, re, shutil, statistics

from harness.gen import sim
from harness.gen import c12_vcf as G

RULE = ("case = one generated VCF of one ploidy (2-4), 1-3 chromosomes, 1-3 samples, PS or HP phasing, up to 24*scale records "
        "per chromosome (SNV/indel/MNP/multi-ALT/no-ALT, duplicated positions, rarely unsorted), calls het/hom/missing/partial, "
        "phased into 0-4 interleaved or contiguous phase sets per chromosome, phased calls without PS key or PS value, run with "
        "random --only-snvs / --chromosome / --sample; non-trivial iff stats succeeded and some processed chromosome has a "
        "block of >= 2 variants; distinct = distinct (file text, options)")
MANIFEST = dict(
    text="Lean 4 theorems about a model of stats.py (reader filters, call classification, block building, the "
         "pop/split/re-sort loop with explicit fuel, aggregation, block list): phased+unphased+singletons = heterozygous, "
         "block sizes sum to phased, block list exact (one row per phase set, true min/max/size), non-overlapping pieces are "
         "pairwise disjoint, the loop terminates within the stated measure, their length sum <= covered span, the ALL row is "
         "the sum of the chromosome rows for the additive columns, counts = independent counts (repaired code). Tied to the "
         "working tree by running the real CLI on generated VCFs, comparing --tsv/--block-list/--gtf with the model and "
         "evaluating the identities and an independent count with a Python oracle",
    design_ref="DESIGN.md §5 C12",
    note="trusted: Lean kernel, axioms ⊆ {propext, Classical.choice, Quot.sound}; hand-written model; htslib/pysam parsing; "
         "MixedPhasingError / PloidyError (consistency over all samples) are outside the model, inputs are of one ploidy and one "
         "phasing kind; medians, averages, fractions and NG50 are not additive and are only compared with the model",
    technique="Lean 4 model + counting/partition lemmas + invariant proof of the splitting loop + CLI differential run with oracle",
)
ASSUMPTIONS = [
    "one consistent ploidy and one phasing encoding (PS or HP) per file, HP fields match the ploidy (else the reader raises "
    "PloidyError / MixedPhasingError / IndexError before stats sees anything)",
    "chromosomes are contiguous in the file; contig lengths are declared in the header",
]
WORKERS = 6
INT_FIELDS = ["variants", "phased", "unphased", "singletons", "blocks", "variant_per_block_sum", "bp_per_block_sum",
              "heterozygous_variants", "heterozygous_snvs", "phased_snvs"]


def err_class(stderr):
    for line in stderr.strip().splitlines()[::-1]:
        m = re.match(r"^(?:\w+\.)*(\w+(?:Error|Exception))\b", line.strip())
        if m:
            return m.group(1)
    return "unknown"


def sample_index(case):
    return case["samples"].index(case["sample"]) if case["sample"] else 0


def wanted_chromosomes(case):
    given = [c for e in case["chromosomes"] for c in e.split(",") if c]
    in_file = []
    for r in case["records"]:
        if r["chrom"] not in in_file:
            in_file.append(r["chrom"])
    seen, processed = [], []
    for c in in_file:
        seen.append(c)
        if given and c not in given:
            continue
        processed.append(c)
        if given and set(given) <= set(seen):
            break
    return processed, seen


def parse_gt(s):
    toks = s.replace("|", "/").split("/")
    return [None if t == "." else int(t) for t in toks], ("|" in s and "/" not in s)


def model_recs(case, chrom):
    si = sample_index(case)
    out = []
    for r in case["records"]:
        if r["chrom"] != chrom:
            continue
        d = dict(zip(r["format"], r["calls"][si]))
        a, p = parse_gt(d["GT"])
        ps = d.get("PS")
        hp = d.get("HP")
        out.append({"pos": r["pos"] - 1, "ref": r["ref"], "alts": r["alts"], "gt": a, "phased": p and len(a) > 1,
                    "psKey": "PS" in d, "ps": None if ps in (None, ".") else int(ps),
                    "hp": None if hp in (None, ".") else int(hp.split(",")[0].split("-")[0])})
    return out


def model_request(case, processed, fix_missing, fix_ps):
    return {"op": "c12.stats", "fixMissing": fix_missing, "fixPs": fix_ps, "onlySnvs": case["only_snvs"], "blockList": True,
            "chroms": [{"length": case["contigs"][c], "recs": model_recs(case, c)} for c in processed]}


# ------------------------------------------------------------------------------------------------
# independent oracle
# ------------------------------------------------------------------------------------------------

def spec_chrom(case, chrom):
    """independent count over the records of one chromosome. None if the chromosome is not sorted."""
    si = sample_index(case)
    variants = het = het_snvs = unphased = 0
    sets = {}          # id -> list of (pos0, is_snv)
    prev = None
    for r in case["records"]:
        if r["chrom"] != chrom or len(r["alts"]) != 1:
            continue
        is_snv = len(r["ref"]) == 1 and len(r["alts"][0]) == 1
        if case["only_snvs"] and not is_snv:
            continue
        pos = r["pos"] - 1
        if prev is not None and pos < prev:
            return None
        if prev == pos:
            continue
        prev = pos
        variants += 1
        d = dict(zip(r["format"], r["calls"][si]))
        alleles = d["GT"].replace("|", "/").split("/")
        if "." in alleles or len(set(alleles)) < 2:
            continue
        het += 1
        het_snvs += is_snv
        hp = d.get("HP")
        if hp not in (None, "."):
            sid = int(hp.split(",")[0].split("-")[0])
        elif "|" in d["GT"]:
            sid = int(d["PS"]) if d.get("PS") not in (None, ".") else 0
        else:
            unphased += 1
            continue
        sets.setdefault(sid, []).append((pos, is_snv))
    big = {k: v for k, v in sets.items() if len(v) > 1}
    intervals = sorted((min(p for p, _ in v), max(p for p, _ in v)) for v in big.values())
    union, cur = 0, None
    for a, b in intervals:
        if cur is None or a > cur[1]:
            if cur:
                union += cur[1] - cur[0]
            cur = [a, b]
        else:
            cur[1] = max(cur[1], b)
    if cur:
        union += cur[1] - cur[0]
    return {"variants": variants, "heterozygous_variants": het, "heterozygous_snvs": het_snvs, "unphased": unphased,
            "phased": sum(len(v) for v in big.values()), "singletons": sum(1 for v in sets.values() if len(v) == 1),
            "blocks": len(big), "phased_snvs": sum(s for v in big.values() for _, s in v),
            "block_list": sorted((k, min(p for p, _ in v) + 1, max(p for p, _ in v) + 1, len(v)) for k, v in sets.items()),
            "union_span": union}


def parse_tsv(path):
    if not os.path.exists(path):
        return None
    lines = open(path).read().split("\n")
    names = lines[0].split("\t")
    return [dict(zip(names, l.split("\t"))) for l in lines[1:] if l]


def parse_block_list(path):
    if not os.path.exists(path):
        return None
    out = {}
    for l in open(path).read().split("\n")[1:]:
        if l:
            s, c, ps, a, b, n = l.split("\t")
            out.setdefault(c, []).append((None if ps == "None" else int(ps), int(a), int(b), int(n)))
    return out


def parse_gtf(path):
    if not os.path.exists(path):
        return None
    out = {}
    for l in open(path).read().split("\n"):
        if l:
            f = l.split("\t")
            out.setdefault(f[0], []).append([int(f[3]), int(f[4]), int(re.search(r'gene_id "(\w+)"', f[8]).group(1))])
    return out


def fnum(x):
    return float("nan") if x == "nan" else float(x)


def same(a, b):
    return (math.isnan(a) and math.isnan(b)) or abs(a - b) <= 1e-9 * max(1, abs(a), abs(b))


def expected_row(m):
    """all TSV fields from the model's row"""
    sizes, lengths = m["sizes"], m["lengths"]
    nan = float("nan")
    e = {"variants": m["variants"], "phased": m["phased"], "unphased": m["unphased"], "singletons": m["singletons"],
         "blocks": m["blocks"], "heterozygous_variants": m["het"], "heterozygous_snvs": m["hetSnvs"],
         "phased_snvs": m["phasedSnvs"]}
    if sizes:
        e.update(variant_per_block_median=statistics.median(sizes), variant_per_block_avg=sum(sizes) / len(sizes),
                 variant_per_block_min=sizes[0], variant_per_block_max=sizes[-1], variant_per_block_sum=sum(sizes),
                 bp_per_block_median=statistics.median(lengths), bp_per_block_avg=sum(lengths) / len(lengths),
                 bp_per_block_min=lengths[0], bp_per_block_max=lengths[-1], bp_per_block_sum=m["bpSum"],
                 phased_fraction=m["phased"] / m["het"] if m["het"] else nan,
                 phased_snvs_fraction=m["phasedSnvs"] / m["hetSnvs"] if m["hetSnvs"] else nan,
                 block_n50=nan if m["n50"] is None else m["n50"])
    else:
        e.update(variant_per_block_median=nan, variant_per_block_avg=nan, variant_per_block_min=0, variant_per_block_max=0,
                 variant_per_block_sum=0, bp_per_block_median=nan, bp_per_block_avg=nan, bp_per_block_min=0,
                 bp_per_block_max=0, bp_per_block_sum=0, phased_fraction=0.0, phased_snvs_fraction=0.0, block_n50=nan)
    return e


def observables(res, processed):
    """what the implementation reported, canonicalised: (rows per chromosome + ALL, block list, gtf)"""
    rows = {r["chromosome"]: r for r in res["tsv"]}
    return rows, res["bl"], res["gtf"]


def diff_model(model, res, processed):
    """first difference between the model's answer and the implementation's files, or None"""
    rows, bl, gtf = observables(res, processed)
    if "err" in model:
        return "model: " + model["err"]
    for c, mc in zip(processed, model["chroms"]):
        if c not in rows:
            return f"no TSV row for {c}"
        exp = expected_row(mc["row"])
        for k, v in exp.items():
            if not same(fnum(rows[c][k]), float(v)):
                return f"{c}.{k}: tsv {rows[c][k]} model {v}"
        mbl = [tuple(x) for x in (mc["blockList"] or [])]
        if mbl != (bl.get(c, [])):
            return f"{c} block list: file {bl.get(c, [])} model {mbl}"
        if mc["gtf"] != gtf.get(c, []):
            return f"{c} gtf: file {gtf.get(c, [])} model {mc['gtf']}"
    if "ALL" in rows:
        exp = expected_row(model["all"])
        for k, v in exp.items():
            if not same(fnum(rows["ALL"][k]), float(v)):
                return f"ALL.{k}: tsv {rows['ALL'][k]} model {v}"
    return None


def run(ctx):
    wd = ctx.workdir()
    try:
        _run(ctx, wd)
    finally:
        shutil.rmtree(wd, ignore_errors=True)


def _run(ctx, wd):
    rng = ctx.rng
    if ctx.replay:
        cases = [json.load(open(ctx.replay))["case"]]
    else:
        cases = [c for _, c in ctx.corpus()]
        n = (56 if ctx.quick else 500) * ctx.scale
        for i in range(n):
            cases.append(G.gen_case(rng, scale=1 if ctx.quick else rng.choice([1, 2, 4]), exotic=(i % 2 == 1)))

    def execute(idx_case):
        idx, case = idx_case
        d = os.path.join(wd, f"c{idx}")
        os.makedirs(d, exist_ok=True)
        vcf = os.path.join(d, "in.vcf")
        open(vcf, "w").write(G.vcf_text(case))
        tsv, bl, gtf = (os.path.join(d, n) for n in ("out.tsv", "out.blocks", "out.gtf"))
        args = ["stats", "--tsv", tsv, "--block-list", bl, "--gtf", gtf]
        if case["only_snvs"]:
            args.append("--only-snvs")
        for c in case["chromosomes"]:
            args += ["--chromosome", c]
        if case["sample"]:
            args += ["--sample", case["sample"]]
        rc, out, err, _ = sim.whatshap(args + [vcf], ctx.overlay)
        res = {"rc": rc, "err": err, "tsv": parse_tsv(tsv), "bl": parse_block_list(bl), "gtf": parse_gtf(gtf)}
        shutil.rmtree(d, ignore_errors=True)
        return res

    with concurrent.futures.ThreadPoolExecutor(WORKERS) as pool:
        results = list(pool.map(execute, enumerate(cases)))

    for case, res in zip(cases, results):
        ctx.evaluated()
        n0 = len(ctx.fails)
        judge(ctx, case, res)
        for _, _, key in ctx.fails[n0:]:
            ctx.dist("finding", key)


def judge(ctx, case, res):
    processed, seen = wanted_chromosomes(case)
    variants = {}
    for name, fm, fp in (("fix", True, True), ("cur", False, False), ("onlyF5", True, False), ("onlyF5b", False, True)):
        variants[name] = ctx.model.ask_many([model_request(case, processed, fm, fp)])[0]
    fix, cur = variants["fix"], variants["cur"]
    if "error" in fix:
        ctx.disagree("c12.stats", case, "input not accepted by the driver", fix)
        return
    ctx.dist("kind", case["kind"]); ctx.dist("ploidy", case["ploidy"]); ctx.dist("chromosomes_processed", len(processed))
    ctx.dist("options", "+".join(k for k in ("only_snvs", "chromosomes", "sample") if case[k]) or "plain")
    ctx.dist("records", min(len(case["records"]), 60) // 10 * 10)
    specs = {c: spec_chrom(case, c) for c in processed}
    # ---- rejected input (unsorted): the reader parses every chromosome it passes, also those --chromosome skips
    probe = fix if seen == processed else ctx.model.ask_many([model_request(case, seen, True, True)])[0]
    if probe.get("err") == "VcfNotSortedError":
        ctx.dist("outcome", "rejected-unsorted")
        if res["rc"] == 0 or err_class(res["err"]) != "VcfNotSortedError":
            ctx.disagree("c12.stats", case, {"rc": res["rc"], "raised": err_class(res["err"])}, fix)
        return
    # which known defect could explain a difference between HEAD and the repaired model on this input
    f5 = json.dumps(cur, sort_keys=True) != json.dumps(variants["onlyF5"], sort_keys=True)
    f5b = json.dumps(cur, sort_keys=True) != json.dumps(variants["onlyF5b"], sort_keys=True)
    label = "+".join(n for n, on in (("F5-missing-genotype-counted-heterozygous", f5),
                                     ("F5b-phased-call-without-PS-value-is-block-None", f5b)) if on)
    if res["rc"] != 0:
        ec = err_class(res["err"])
        ctx.dist("outcome", "crash-" + ec)
        if cur.get("err") == ec and f5b:
            ctx.fail(f"F5b: `whatshap stats --block-list` fails with {ec}: a phased heterozygous call whose PS value is '.' gets "
                     "block id None, which cannot be sorted with the integer ids", case,
                     key="F5b-phased-call-without-PS-value-is-block-None")
        else:
            ctx.fail(f"`whatshap stats` fails with {ec}: {res['err'].strip().splitlines()[-1][:160]}", case, key=f"stats-raises-{ec}")
            ctx.disagree("c12.stats", case, {"raised": ec}, "ok")
        return
    ctx.dist("outcome", "ok")
    if res["tsv"] is None or res["bl"] is None or res["gtf"] is None:
        ctx.fail("an output file was not written", case, key="output-missing")
        return
    rows = {r["chromosome"]: r for r in res["tsv"]}
    # ---- correspondence
    d_fix = diff_model(fix, res, processed)
    d_cur = diff_model(cur, res, processed) if d_fix else None
    is_head_defect = d_fix is not None and d_cur is None and label
    if d_fix is not None and not is_head_defect:
        ctx.disagree("c12.stats", case, {"first_difference_to_repaired_model": d_fix, "to_model_of_HEAD": d_cur}, "see implementation")

    def fail(what, key):
        if is_head_defect:
            ctx.fail(f"{label}: {what}", case, key=label)
        else:
            ctx.fail(what, case, key=key)

    # ---- oracle
    nontrivial = False
    for c in processed:
        if c not in rows:
            fail(f"no row for processed chromosome {c}", "row-missing")
            continue
        r, s = rows[c], specs[c]
        v = {k: int(r[k]) for k in INT_FIELDS}
        nontrivial |= v["blocks"] > 0
        if v["phased"] + v["unphased"] + v["singletons"] != v["heterozygous_variants"]:
            fail(f"{c}: phased {v['phased']} + unphased {v['unphased']} + singletons {v['singletons']} != heterozygous "
                 f"{v['heterozygous_variants']}", "sum-identity")
        if v["variant_per_block_sum"] != v["phased"]:
            fail(f"{c}: sum of block sizes {v['variant_per_block_sum']} != phased {v['phased']}", "block-sizes-sum")
        for k in ("variants", "heterozygous_variants", "heterozygous_snvs", "phased", "unphased", "singletons", "blocks", "phased_snvs"):
            if v[k] != s[k]:
                fail(f"{c}: {k} = {v[k]}, independent count over the file = {s[k]}", "count-" + k)
        bl = sorted(res["bl"].get(c, []), key=lambda t: (t[0] is None, t[0] or 0))
        if bl != s["block_list"]:
            fail(f"{c}: block list {bl[:6]} != phase sets of the file {s['block_list'][:6]}", "block-list")
        if sum(n for _, _, _, n in res["bl"].get(c, []) if n > 1) != v["phased"]:
            fail(f"{c}: block-list sizes > 1 do not sum to phased", "block-list-sum")
        naive = sum(b - a for _, a, b, n in res["bl"].get(c, []) if n > 1)
        if v["blocks"]:
            ctx.dist("blocks_per_chromosome", min(v["blocks"], 5))
            ctx.dist("pieces_shorter_than_blocks", naive > v["bp_per_block_sum"])
        if v["bp_per_block_sum"] > s["union_span"]:
            fail(f"{c}: sum of block lengths {v['bp_per_block_sum']} exceeds the covered span {s['union_span']}", "length-sum-exceeds-span")
    if len(processed) >= 2 and "ALL" not in rows:
        fail("no ALL row although several chromosomes were processed", "all-row-missing")
    if "ALL" in rows:
        for k in INT_FIELDS:
            tot = sum(int(rows[c][k]) for c in processed if c in rows)
            if int(rows["ALL"][k]) != tot:
                fail(f"ALL.{k} = {rows['ALL'][k]} != sum of the chromosome rows {tot}", "all-row-not-sum")
    if nontrivial:
        ctx.nontrivial(json.dumps(case, sort_keys=True))
    ctx.validated()
    if len(ctx.samples) < 3 and nontrivial and len(case["records"]) <= 8:
        ctx.sample({"records": [[r["chrom"], r["pos"], r["ref"], r["alts"], r["format"], r["calls"]] for r in case["records"]],
                    "tsv": {c: {k: rows[c][k] for k in INT_FIELDS} for c in rows}, "block_list": res["bl"]})

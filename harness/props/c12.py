"""C12 — stats counts add up and describe the phase sets present in the file.

Per generated VCF the REAL CLI `whatshap stats --tsv --block-list --gtf [--only-snvs] [--chromosome ..] [--sample ..]` is run.
  * oracle (Python, straight from the VCF text, independent of Lean): per processed chromosome the counts of variants,
    heterozygous variants / SNVs, phased, unphased, singletons, blocks, phased SNVs; phased + unphased + singletons =
    heterozygous; variant_per_block_sum = phased = sum of block-list sizes > 1; block list = one line per phase set with true
    first/last position and size; bp_per_block_sum <= length of the union of the block intervals; ALL row = sum of the
    chromosome rows for the additive columns.  Conventions shared with the reader (documented there): records without ALT
    and multi-ALT records are not variants, a repeated position counts once, SNV = one base against one base; a call is
    heterozygous iff all alleles are called and not all equal; a phased call without PS value belongs to phase set 0.
  * correspondence: every TSV field (medians/averages/fractions recomputed from the model's sorted lists), the block list
    and the GTF equal the Lean model of the repaired code; if not, the faithful model of HEAD decides whether the
    difference is the known defect F5 (missing genotype counted heterozygous) / F5b (PS value '.' -> block None).
  * the whole of `run_stats` is inside the model (`c12.run`): `unpack_chromosomes`, plain iteration vs indexed fetch in the
    given order (40 % of the sorted files are bgzipped + tabix- or CSI-indexed, others bgzipped without index), records at the
    first / second / last base of a contig and one past its declared length (round 7), `--chromosome` filter, early exit, seen set, presence
    of the ALL row, NG50 from header lengths or `--chr-lengths` (missing length -> nan).  Which chromosomes must be reported
    is also computed independently (the distinct wanted chromosomes of the file, once each).
  * stdout report: the integer lines of every section equal the TSV row of the same chromosome.
  * in-process: `n50`, `unpack_chromosomes`, `parse_chr_lengths`+`compute_ng50` on random inputs vs the model and vs the
    defining property of N50 (the `n50_spec` theorem), evaluated in Python.
"""
import concurrent.futures, json, math, os, re, shutil, statistics

import pysam

from harness.gen import sim
from harness.gen import c12_vcf as G

RULE = ("case = one generated VCF of one ploidy (1-6), 1-4 chromosomes, 1-3 samples, PS or HP phasing (per chromosome), up to "
        "24*scale records per chromosome (SNV/indel/MNP/multi-ALT/no-ALT/'*'/<DEL>/ALT=REF, duplicated positions, rarely "
        "unsorted), calls het/hom/missing/partial, phased into 0-4 interleaved or contiguous phase sets per chromosome, phased "
        "calls without PS key or PS value, header contigs with or without length, optional --chr-lengths file, plain or "
        "bgzip-compressed without index or compressed with a tabix or CSI index; half of the files with records at the edges of "
        "a contig (POS 1, POS 2, the last two bases, the first position past the declared length; contigs of 1-6 bases), run with random --only-snvs / --chromosome (comma lists, repeated, unknown, empty names) / "
        "--sample; plus in-process calls of n50 / compute_ng50 / unpack_chromosomes on small random arguments; non-trivial iff "
        "stats succeeded and some processed chromosome has a block of >= 2 variants; distinct = distinct (file text, options)")
MANIFEST = dict(
    text="Lean 4 theorems about a model of stats.py from the data lines to every output row (reader filters, call "
         "classification, block building, the pop/split/re-sort loop with explicit fuel, the chromosome loop of run_stats "
         "with --chromosome filter / early exit / indexed fetch, aggregation, block list, GTF, NG50): the reader delivers the "
         "first eligible record of every position, every row counts exactly those records, the early exit loses no wanted "
         "chromosome, GTF features = maximal runs, block_n50 = N50 of the reported lengths, phased+unphased+singletons = heterozygous, "
         "block sizes sum to phased, block list exact (one row per phase set, true min/max/size), non-overlapping pieces are "
         "pairwise disjoint, the loop terminates within the stated measure, their length sum <= covered span, the ALL row is "
         "the sum of the chromosome rows for the additive columns, counts = independent counts (repaired code). Tied to the "
         "working tree by running the real CLI on generated VCFs, comparing --tsv/--block-list/--gtf with the model and "
         "evaluating the identities and an independent count with a Python oracle",
    design_ref="DESIGN.md §5 C12",
    note="trusted: Lean kernel, axioms ⊆ {propext, Classical.choice, Quot.sound}; hand-written model; htslib/pysam parsing; "
         "MixedPhasingError / PloidyError / malformed HP over all samples are modelled by Model/C12File.lean on top of C09's "
         "whole-file reader and compared through c12.file on multi-sample files (the main stream has one ploidy and one phasing "
         "kind per chromosome); medians, averages and fractions are not modelled in Lean (recomputed from the model's sorted "
         "lists and, independently, from the file); the float comparison in n50 is modelled over the integers",
    technique="Lean 4 model + counting/partition lemmas + invariant proof of the splitting loop + CLI differential run with oracle",
)
ASSUMPTIONS = [
    "one consistent ploidy and one phasing encoding (PS or HP) per file, HP fields match the ploidy (else the reader raises "
    "PloidyError / MixedPhasingError / IndexError before stats sees anything)",
    "chromosomes are contiguous in the file; every contig with records is declared in the header (lengths optional)",
    "ALT differs from REF (a record with ALT = REF passes the reader's --only-snvs length test but is no SNV for is_snv(); "
    "such chromosomes are only compared with the model under --only-snvs)",
]
WORKERS = 6
INT_FIELDS = ["variants", "phased", "unphased", "singletons", "blocks", "variant_per_block_sum", "bp_per_block_sum",
              "heterozygous_variants", "heterozygous_snvs", "phased_snvs"]


def err_class(stderr):
    for line in stderr.strip().splitlines()[::-1]:
        m = re.match(r"^(?:\w+\.)*(\w+(?:Error|Exception)|VcfInvalidChromosome)\b", line.strip())
        if m:
            return m.group(1)
    return "unknown"


def sample_index(case):
    return case["samples"].index(case["sample"]) if case["sample"] else 0


def file_chromosomes(case):
    in_file = []
    for r in case["records"]:
        if r["chrom"] not in in_file:
            in_file.append(r["chrom"])
    return in_file


def given_chromosomes(case):
    return [c for e in case["chromosomes"] for c in e.split(",") if c]


def expected_chromosomes(case):
    """independent: the chromosomes that must be reported — the distinct chromosomes of the file (for an indexed file: of
    the header) that were asked for, each once; None if an indexed fetch of an unknown contig must be rejected"""
    given, in_file = given_chromosomes(case), file_chromosomes(case)
    if not given:
        return in_file
    if case.get("indexed"):
        if any(c not in case["contigs"] for c in given):
            return None
        out = []
        for c in given:
            if c not in out:
                out.append(c)
        return out
    return [c for c in in_file if c in given]


def chr_lengths_of(case):
    """the chr_lengths dict in insertion order as [[name, len]]: --chr-lengths file if given, else the header"""
    if case.get("chr_lengths") is not None:
        return [[n, l] for n, l in case["chr_lengths"]]
    return [[n, l] for n, l in case["contigs"].items() if l is not None]


def parse_gt(s):
    toks = s.replace("|", "/").split("/")
    return [None if t == "." else int(t) for t in toks], ("|" in s and "/" not in s)


def model_recs(case, chrom):
    si = sample_index(case)
    out = []
    for r in case["records"]:
        if r["chrom"] != chrom:
            continue
        d = dict(zip(r["format"], r["calls"][si]))
        a, p = parse_gt(d["GT"])
        ps = d.get("PS")
        hp = d.get("HP")
        out.append({"pos": r["pos"] - 1, "ref": r["ref"], "alts": r["alts"], "gt": a, "phased": p and len(a) > 1,
                    "psKey": "PS" in d, "ps": None if ps in (None, ".") else int(ps),
                    "hp": None if hp in (None, ".") else int(hp.split(",")[0].split("-")[0])})
    return out


def model_request(case, fix_missing=True, fix_ps=True, dedup_given=False):
    return {"op": "c12.run", "fixMissing": fix_missing, "fixPs": fix_ps, "dedupGiven": dedup_given,
            "onlySnvs": case["only_snvs"], "blockList": True, "indexed": bool(case.get("indexed")),
            "contigs": list(case["contigs"]), "lens": chr_lengths_of(case), "given": list(case["chromosomes"]),
            "file": [{"name": c, "recs": model_recs(case, c)} for c in file_chromosomes(case)]}


# ------------------------------------------------------------------------------------------------
# independent oracle
# ------------------------------------------------------------------------------------------------

def spec_chrom(case, chrom):
    """independent count over the records of one chromosome. None if the chromosome is not sorted."""
    si = sample_index(case)
    variants = het = het_snvs = unphased = 0
    sets = {}          # id -> list of (pos0, is_snv)
    runs = []          # maximal runs of consecutive phased heterozygous calls of one phase set: [first pos1, last pos1, id]
    prev = None
    for r in case["records"]:
        if r["chrom"] != chrom or len(r["alts"]) != 1:
            continue
        is_snv = len(r["ref"]) == 1 and len(r["alts"][0]) == 1 and r["ref"] != r["alts"][0]
        if case["only_snvs"] and not is_snv:
            continue
        pos = r["pos"] - 1
        if prev is not None and pos < prev:
            return None
        if prev == pos:
            continue
        prev = pos
        variants += 1
        d = dict(zip(r["format"], r["calls"][si]))
        alleles = d["GT"].replace("|", "/").split("/")
        if "." in alleles or len(set(alleles)) < 2:
            continue
        het += 1
        het_snvs += is_snv
        hp = d.get("HP")
        if hp not in (None, "."):
            sid = int(hp.split(",")[0].split("-")[0])
        elif "|" in d["GT"]:
            sid = int(d["PS"]) if d.get("PS") not in (None, ".") else 0
        else:
            unphased += 1
            continue
        sets.setdefault(sid, []).append((pos, is_snv))
        if runs and runs[-1][2] == sid:
            runs[-1][1] = pos + 1
        else:
            runs.append([pos + 1, pos + 1, sid])
    big = {k: v for k, v in sets.items() if len(v) > 1}
    intervals = sorted((min(p for p, _ in v), max(p for p, _ in v)) for v in big.values())
    union, cur = 0, None
    for a, b in intervals:
        if cur is None or a > cur[1]:
            if cur:
                union += cur[1] - cur[0]
            cur = [a, b]
        else:
            cur[1] = max(cur[1], b)
    if cur:
        union += cur[1] - cur[0]
    return {"variants": variants, "heterozygous_variants": het, "heterozygous_snvs": het_snvs, "unphased": unphased,
            "phased": sum(len(v) for v in big.values()), "singletons": sum(1 for v in sets.values() if len(v) == 1),
            "blocks": len(big), "phased_snvs": sum(s for v in big.values() for _, s in v),
            "block_list": sorted((k, min(p for p, _ in v) + 1, max(p for p, _ in v) + 1, len(v)) for k, v in sets.items()),
            "union_span": union, "gtf": runs, "sizes": sorted(len(v) for v in big.values()),
            "lengths": spec_piece_lengths([sorted(p for p, _ in v) for v in big.values()])}


def spec_piece_lengths(sets):
    """independent: the lengths of the non-overlapping pieces of the phase sets (sorted position lists, >= 2 positions each)
    of ONE chromosome.  Going from left to right: a set that reaches into the next one (by leftmost position) is cut down to
    its positions before the start of that set (a piece if >= 2 positions remain) and its positions after the end of that set
    (which stay in play as a set of their own if >= 2 remain)."""
    todo = sorted(sets)
    out = []
    while todo:
        cur, todo = todo[0], todo[1:]
        if todo and cur[-1] > todo[0][0]:
            nxt = todo[0]
            before = [p for p in cur if p < nxt[0]]
            after = [p for p in cur if p > nxt[-1]]
            if len(after) > 1:
                todo = sorted(todo + [after])
            cur = before
        if len(cur) > 1:
            out.append(cur[-1] - cur[0])
    return sorted(out)


def spec_median(l):
    n = len(l)
    return l[n // 2] if n % 2 else (l[n // 2 - 1] + l[n // 2]) / 2


def spec_columns(counts, sizes, lengths):
    """independent: every numeric column of a row (except block_n50) from the integer counts, the sorted sizes of the phase
    sets with >= 2 variants and the sorted lengths of their non-overlapping pieces"""
    nan = float("nan")
    e = {k: counts[k] for k in ("variants", "unphased", "singletons", "heterozygous_variants", "heterozygous_snvs")}
    if sizes:
        e.update(phased=sum(sizes), blocks=len(sizes), phased_snvs=counts["phased_snvs"],
                 variant_per_block_median=spec_median(sizes), variant_per_block_avg=sum(sizes) / len(sizes),
                 variant_per_block_min=min(sizes), variant_per_block_max=max(sizes), variant_per_block_sum=sum(sizes),
                 phased_fraction=sum(sizes) / counts["heterozygous_variants"] if counts["heterozygous_variants"] else nan,
                 phased_snvs_fraction=counts["phased_snvs"] / counts["heterozygous_snvs"] if counts["heterozygous_snvs"] else nan)
        if lengths:
            e.update(bp_per_block_median=spec_median(lengths), bp_per_block_avg=sum(lengths) / len(lengths),
                     bp_per_block_min=min(lengths), bp_per_block_max=max(lengths), bp_per_block_sum=sum(lengths))
    else:
        e.update(phased=0, blocks=0, phased_snvs=0, variant_per_block_median=nan, variant_per_block_avg=nan,
                 variant_per_block_min=0, variant_per_block_max=0, variant_per_block_sum=0, bp_per_block_median=nan,
                 bp_per_block_avg=nan, bp_per_block_min=0, bp_per_block_max=0, bp_per_block_sum=0, phased_fraction=0.0,
                 phased_snvs_fraction=0.0)
    return e


def column_key(k, all_row):
    group = "lengths" if k.startswith("bp_per_block") else "sizes" if k.startswith("variant_per_block") else \
        "fractions" if k.endswith("fraction") else "counts"
    return ("all-row-" if all_row else "row-") + group


def parse_tsv(path):
    if not os.path.exists(path):
        return None
    lines = open(path).read().split("\n")
    names = lines[0].split("\t")
    return [dict(zip(names, l.split("\t"))) for l in lines[1:] if l]


def parse_block_list(path):
    if not os.path.exists(path):
        return None
    out = {}
    for l in open(path).read().split("\n")[1:]:
        if l:
            s, c, ps, a, b, n = l.split("\t")
            out.setdefault(c, []).append((None if ps == "None" else int(ps), int(a), int(b), int(n)))
    return out


def parse_gtf(path):
    if not os.path.exists(path):
        return None
    out = {}
    for l in open(path).read().split("\n"):
        if l:
            f = l.split("\t")
            out.setdefault(f[0], []).append([int(f[3]), int(f[4]), int(re.search(r'gene_id "(\w+)"', f[8]).group(1))])
    return out


def fnum(x):
    return float("nan") if x == "nan" else float(x)


def same(a, b):
    return (math.isnan(a) and math.isnan(b)) or abs(a - b) <= 1e-9 * max(1, abs(a), abs(b))


def expected_row(m):
    """all TSV fields from the model's row"""
    sizes, lengths = m["sizes"], m["lengths"]
    nan = float("nan")
    e = {"variants": m["variants"], "phased": m["phased"], "unphased": m["unphased"], "singletons": m["singletons"],
         "blocks": m["blocks"], "heterozygous_variants": m["het"], "heterozygous_snvs": m["hetSnvs"],
         "phased_snvs": m["phasedSnvs"]}
    if sizes:
        e.update(variant_per_block_median=statistics.median(sizes), variant_per_block_avg=sum(sizes) / len(sizes),
                 variant_per_block_min=sizes[0], variant_per_block_max=sizes[-1], variant_per_block_sum=sum(sizes),
                 bp_per_block_median=statistics.median(lengths), bp_per_block_avg=sum(lengths) / len(lengths),
                 bp_per_block_min=lengths[0], bp_per_block_max=lengths[-1], bp_per_block_sum=m["bpSum"],
                 phased_fraction=m["phased"] / m["het"] if m["het"] else nan,
                 phased_snvs_fraction=m["phasedSnvs"] / m["hetSnvs"] if m["hetSnvs"] else nan,
                 block_n50=nan if m["n50"] is None else m["n50"])
    else:
        e.update(variant_per_block_median=nan, variant_per_block_avg=nan, variant_per_block_min=0, variant_per_block_max=0,
                 variant_per_block_sum=0, bp_per_block_median=nan, bp_per_block_avg=nan, bp_per_block_min=0,
                 bp_per_block_max=0, bp_per_block_sum=0, phased_fraction=0.0, phased_snvs_fraction=0.0, block_n50=nan)
    return e


def diff_model(model, res):
    """first difference between the model's answer and the implementation's files, or None"""
    if "err" in model:
        return "model: " + model["err"]
    rows = [r for r in res["tsv"] if r["chromosome"] != "ALL"]
    alls = [r for r in res["tsv"] if r["chromosome"] == "ALL"]
    names = [r["chromosome"] for r in rows]
    if names != [mc["name"] for mc in model["chroms"]]:
        return f"chromosome rows {names}, model {[mc['name'] for mc in model['chroms']]}"
    for r, mc in zip(rows, model["chroms"]):
        c = mc["name"]
        exp = expected_row(mc["row"])
        for k, v in exp.items():
            if not same(fnum(r[k]), float(v)):
                return f"{c}.{k}: tsv {r[k]} model {v}"
    # block list and GTF: the rows of one chromosome are written in one go; a chromosome processed twice is written twice
    for what, got in (("blockList", res["bl"]), ("gtf", res["gtf"])):
        exp = {}
        for mc in model["chroms"]:
            exp.setdefault(mc["name"], []).extend([list(x) for x in (mc[what] or [])])
        exp = {c: v for c, v in exp.items() if v}
        got = {c: [list(x) for x in v] for c, v in got.items()}
        if got != exp:
            return f"{what}: file {got} model {exp}"
    if (model["all"] is not None) != (len(alls) == 1) or len(alls) > 1:
        return f"ALL rows in the tsv: {len(alls)}, model: {'one' if model['all'] is not None else 'none'} (seen {model['seen']})"
    if alls:
        exp = expected_row(model["all"])
        for k, v in exp.items():
            if not same(fnum(alls[0][k]), float(v)):
                return f"ALL.{k}: tsv {alls[0][k]} model {v}"
    return None


STDOUT_FIELDS = {"Variants in VCF": "variants", "Heterozygous": "heterozygous_variants", "Phased": "phased",
                 "Unphased": "unphased", "Singletons": "singletons", "Blocks": "blocks", "Sum of sizes": "variant_per_block_sum",
                 "Largest block": "variant_per_block_max", "Smallest block": "variant_per_block_min",
                 "Sum of lengths": "bp_per_block_sum", "Longest block": "bp_per_block_max", "Shortest block": "bp_per_block_min",
                 "Block NG50": "block_n50"}


def parse_stdout(text):
    """[(section name, {label: first number as printed})] of the human-readable report"""
    out = []
    for line in text.split("\n"):
        m = re.match(r"^-+ (?:Chromosome (\S+)|(ALL) chromosomes \(aggregated\)) -+$", line)
        if m:
            out.append((m.group(1) or "ALL", {}))
            continue
        m = re.match(r"^\s*([A-Za-z][A-Za-z0-9 ]*?):\s+(\S+)", line)
        if m and out and m.group(1) in STDOUT_FIELDS:
            out[-1][1][m.group(1)] = m.group(2)
    return out


def run(ctx):
    wd = ctx.workdir()
    try:
        if ctx.replay and json.load(open(ctx.replay))["case"].get("file_stats"):
            return file_cases(ctx, wd, [json.load(open(ctx.replay))["case"]])
        _run(ctx, wd)
        if not ctx.replay:
            file_cases(ctx, wd)
            functions(ctx)
    finally:
        shutil.rmtree(wd, ignore_errors=True)


def _run(ctx, wd):
    rng = ctx.rng
    if ctx.replay:
        cases = [json.load(open(ctx.replay))["case"]]
        if cases[0].get("function"):
            return functions(ctx, cases)
    else:
        cases = [c for _, c in ctx.corpus() if not c.get("function")]
        n = (56 if ctx.quick else 500) * ctx.scale
        for i in range(n):
            cases.append(G.gen_case(rng, scale=1 if ctx.quick else rng.choice([1, 2, 4]), exotic=(i % 2 == 1), boundary=(i % 4 >= 2)))
            ctx.dist("twin_chromosomes", ",".join(sorted({m for _, m in cases[-1]["twins"].values()})) or "none")

    # input files (pysam.tabix_index is not known to be thread-safe: sequentially)
    paths = []
    for idx, case in enumerate(cases):
        d = os.path.join(wd, f"c{idx}")
        os.makedirs(d, exist_ok=True)
        vcf = os.path.join(d, "in.vcf")
        open(vcf, "w").write(G.vcf_text(case))
        storage = case.get("storage") or ("tbi" if case.get("indexed") else "plain")
        if storage in ("tbi", "csi"):
            vcf = pysam.tabix_index(vcf, preset="vcf", force=True, csi=(storage == "csi"))
        elif storage == "bgzip":        # compressed, no index: the file is iterated even with --chromosome
            pysam.tabix_compress(vcf, vcf + ".gz", force=True)
            os.remove(vcf)
            vcf = vcf + ".gz"
        if case.get("chr_lengths") is not None:
            with open(os.path.join(d, "lengths.tsv"), "w") as f:
                for n_, l_ in case["chr_lengths"]:
                    f.write(f"{n_}\t{l_}\n")
        paths.append((d, vcf))

    def execute(idx_case):
        idx, case = idx_case
        d, vcf = paths[idx]
        tsv, bl, gtf = (os.path.join(d, n) for n in ("out.tsv", "out.blocks", "out.gtf"))
        args = ["stats", "--tsv", tsv, "--block-list", bl, "--gtf", gtf]
        if case["only_snvs"]:
            args.append("--only-snvs")
        for c in case["chromosomes"]:
            args += ["--chromosome", c]
        if case["sample"]:
            args += ["--sample", case["sample"]]
        if case.get("chr_lengths") is not None:
            args += ["--chr-lengths", os.path.join(d, "lengths.tsv")]
        rc, out, err, _ = sim.whatshap(args + [vcf], ctx.overlay)
        res = {"rc": rc, "err": err, "out": out, "tsv": parse_tsv(tsv), "bl": parse_block_list(bl), "gtf": parse_gtf(gtf)}
        shutil.rmtree(d, ignore_errors=True)
        return res

    with concurrent.futures.ThreadPoolExecutor(WORKERS) as pool:
        results = list(pool.map(execute, enumerate(cases)))

    for case, res in zip(cases, results):
        ctx.evaluated()
        n0 = len(ctx.fails)
        judge(ctx, case, res)
        for _, _, key in ctx.fails[n0:]:
            ctx.dist("finding", key)


F75 = "F75-chromosome-given-twice-is-counted-twice-with-an-index"


def judge(ctx, case, res):
    head, fix = ctx.model.ask_many([model_request(case), model_request(case, dedup_given=True)])
    if "error" in head or "error" in fix:
        ctx.disagree("c12.run", case, "input not accepted by the driver", head)
        return
    given = given_chromosomes(case)
    ctx.dist("kind", case["kind"]); ctx.dist("ploidy", case["ploidy"])
    ctx.dist("options", "+".join(k for k in ("only_snvs", "chromosomes", "sample", "indexed", "chr_lengths") if case.get(k)) or "plain")
    ctx.dist("records", min(len(case["records"]), 60) // 10 * 10)
    ctx.dist("storage", case.get("storage") or ("tbi" if case.get("indexed") else "plain"))
    for c in file_chromosomes(case):
        ln = case["contigs"].get(c)
        pos = {r["pos"] for r in case["records"] if r["chrom"] == c}
        edges = [n for n, p in (("POS1", 1), ("POS2", 2), ("last-1", (ln or 0) - 1), ("last", ln), ("past-end", (ln or 0) + 1))
                 if (ln is not None or p in (1, 2)) and p in pos]
        if edges:
            wanted = (not given) or c in given
            ctx.dist("contig_edge_records", ("fetched" if case.get("indexed") and given else "iterated") + ("" if wanted else "-not-wanted"))
            for e in edges:
                ctx.dist("contig_edge", e)
    ctx.dist("header_lengths", "all" if all(l is not None for l in case["contigs"].values()) else "some-missing")
    if given:
        ctx.dist("given", ("indexed" if case.get("indexed") else "plain") + ("+dup" if len(set(given)) < len(given) else "")
                 + ("+unknown" if any(c not in case["contigs"] for c in given) else ""))
    # ---- rejected input: unsorted chromosome reached by the reader, unknown contig fetched through the index
    if head.get("err") in ("VcfNotSortedError", "VcfInvalidChromosome"):
        ctx.dist("outcome", "rejected-" + head["err"])
        if res["rc"] == 0 or err_class(res["err"]) != head["err"]:
            ctx.disagree("c12.run", case, {"rc": res["rc"], "raised": err_class(res["err"])}, head)
        elif head["err"] == "VcfInvalidChromosome" and expected_chromosomes(case) is not None:
            ctx.disagree("c12.run", case, "VcfInvalidChromosome although every given chromosome is in the header", head)
        return
    if res["rc"] != 0:
        ec = err_class(res["err"])
        ctx.dist("outcome", "crash-" + ec)
        ctx.fail(f"`whatshap stats` fails with {ec}: {res['err'].strip().splitlines()[-1][:160]}", case, key=f"stats-raises-{ec}")
        ctx.disagree("c12.run", case, {"raised": ec}, "ok")
        return
    ctx.dist("outcome", "ok")
    if res["tsv"] is None or res["bl"] is None or res["gtf"] is None:
        ctx.fail("an output file was not written", case, key="output-missing")
        return
    # ---- correspondence
    d_head = diff_model(head, res)
    d_fix = diff_model(fix, res) if d_head is not None or head != fix else None
    label = None
    if head != fix and d_head is None:
        label = F75
    elif d_head is not None and d_fix is not None:
        # an older defect? (F5 / F5b, fixed in /repo): ask the models without those repairs
        old = ctx.model.ask_many([model_request(case, False, False), model_request(case, True, False), model_request(case, False, True)])
        if diff_model(old[0], res) is None:
            f5 = old[0] != old[1]
            f5b = old[0] != old[2]
            label = "+".join(n for n, on in (("F5-missing-genotype-counted-heterozygous", f5),
                                             ("F5b-phased-call-without-PS-value-is-block-None", f5b)) if on) or None
        if label is None:
            ctx.disagree("c12.run", case, {"first_difference_to_model_of_HEAD": d_head, "to_model_with_F75_patch": d_fix}, "see implementation")
    processed = [mc["name"] for mc in head["chroms"]]
    ctx.dist("chromosomes_processed", len(processed))
    ctx.dist("all_row", "yes" if head["all"] is not None else "no")

    def fail(what, key):
        if label and label != F75:
            ctx.fail(f"{label}: {what}", case, key=label)
        else:
            ctx.fail(what, case, key=key)

    # ---- oracle
    rows_list = [r for r in res["tsv"] if r["chromosome"] != "ALL"]
    all_rows = [r for r in res["tsv"] if r["chromosome"] == "ALL"]
    reported = [r["chromosome"] for r in rows_list]
    expected = expected_chromosomes(case)
    if len(set(reported)) < len(reported):
        ctx.fail(f"chromosome rows {reported}: a chromosome named twice with --chromosome is fetched, reported and added to the "
                 f"ALL row twice when the VCF is indexed (ALL.variants = {all_rows[0]['variants'] if all_rows else '-'})", case, key=F75)
    elif reported != expected:
        fail(f"chromosome rows {reported}, the file's wanted chromosomes are {expected}", "chromosome-rows")
    # a record whose ALT equals REF is not a variant (VCF: ALT = non-reference alleles); the reader's --only-snvs filter keeps
    # it (one base against one base) while is_snv() says no: for such chromosomes only the model is compared under --only-snvs
    malformed = {r["chrom"] for r in case["records"] if r["alts"] == [r["ref"]]}

    def degenerate(c):
        return c in malformed and case["only_snvs"]
    specs = {c: spec_chrom(case, c) for c in set(reported)}
    nontrivial = False
    for r in rows_list:
        c, s = r["chromosome"], specs[r["chromosome"]]
        v = {k: int(r[k]) for k in INT_FIELDS}
        nontrivial |= v["blocks"] > 0
        if v["phased"] + v["unphased"] + v["singletons"] != v["heterozygous_variants"]:
            fail(f"{c}: phased {v['phased']} + unphased {v['unphased']} + singletons {v['singletons']} != heterozygous "
                 f"{v['heterozygous_variants']}", "sum-identity")
        if v["variant_per_block_sum"] != v["phased"]:
            fail(f"{c}: sum of block sizes {v['variant_per_block_sum']} != phased {v['phased']}", "block-sizes-sum")
        for k in ("variants", "heterozygous_variants", "heterozygous_snvs", "phased", "unphased", "singletons", "blocks", "phased_snvs"):
            if v[k] != s[k] and not degenerate(c):
                fail(f"{c}: {k} = {v[k]}, independent count over the file = {s[k]}", "count-" + k)
        copies = reported.count(c)
        bl_c = res["bl"].get(c, [])
        bl = sorted(bl_c, key=lambda t: (t[0] is None, t[0] or 0))
        if bl != sorted(s["block_list"] * copies) and not degenerate(c):
            fail(f"{c}: block list {bl[:6]} != phase sets of the file {s['block_list'][:6]}", "block-list")
        if [list(x) for x in res["gtf"].get(c, [])] != s["gtf"] * copies and not degenerate(c):
            fail(f"{c}: GTF features {res['gtf'].get(c, [])[:6]} != maximal runs of the file's phased calls {s['gtf'][:6]}", "gtf-rows")
        if sum(n for _, _, _, n in bl_c if n > 1) != v["phased"] * copies:
            fail(f"{c}: block-list sizes > 1 do not sum to phased", "block-list-sum")
        naive = sum(b - a for _, a, b, n in bl_c if n > 1) // copies
        if v["blocks"]:
            ctx.dist("blocks_per_chromosome", min(v["blocks"], 5))
            ctx.dist("pieces_shorter_than_blocks", naive > v["bp_per_block_sum"])
            ctx.dist("block_n50", "nan" if r["block_n50"] == "nan" else ("0" if float(r["block_n50"]) == 0 else "positive"))
        if v["bp_per_block_sum"] > s["union_span"] and not degenerate(c):
            fail(f"{c}: sum of block lengths {v['bp_per_block_sum']} exceeds the covered span {s['union_span']}", "length-sum-exceeds-span")
        if not degenerate(c):
            for k, want in spec_columns(s, s["sizes"], s["lengths"]).items():
                if column_key(k, False) != "row-counts" and not same(fnum(r[k]), float(want)):
                    fail(f"{c}: {k} = {r[k]}, computed independently from the phase sets of the file: {want}", column_key(k, False))
    if len(set(reported)) >= 2 and not all_rows:
        fail("no ALL row although several chromosomes were processed", "all-row-missing")
    if all_rows:
        for k in INT_FIELDS:
            tot = sum(int(r[k]) for r in rows_list)
            if int(all_rows[0][k]) != tot:
                fail(f"ALL.{k} = {all_rows[0][k]} != sum of the chromosome rows {tot}", "all-row-not-sum")
    # the ALL row = the same computation over the whole file: every numeric column (block_n50 is compared with the model), from
    # the counts, the phase-set sizes and the piece lengths of all reported chromosomes together
    if all_rows and reported == expected and len(set(reported)) == len(reported) and not any(degenerate(c) for c in reported):
        tot = {k: sum(specs[c][k] for c in reported) for k in ("variants", "unphased", "singletons", "heterozygous_variants",
                                                               "heterozygous_snvs", "phased_snvs")}
        exp = spec_columns(tot, sorted(x for c in reported for x in specs[c]["sizes"]),
                           sorted(x for c in reported for x in specs[c]["lengths"]))
        for k, want in exp.items():
            if not same(fnum(all_rows[0][k]), float(want)):
                fail(f"ALL.{k} = {all_rows[0][k]}, computed independently over the reported chromosomes {reported} of the file: "
                     f"{want}", column_key(k, True))
        spans = [set((a, b) for _, a, b, n in specs[c]["block_list"] if n > 1) for c in reported]
        ctx.dist("coordinate_identical_blocks_on_two_chromosomes",
                 any(spans[i] & spans[j] for i in range(len(spans)) for j in range(i)))
    # ---- the human-readable report says the same as the TSV
    sections = parse_stdout(res["out"])
    if [n for n, _ in sections] != [r["chromosome"] for r in res["tsv"]]:
        fail(f"stdout sections {[n for n, _ in sections]} != tsv rows {[r['chromosome'] for r in res['tsv']]}", "stdout-sections")
    else:
        for (name, vals), r in zip(sections, res["tsv"]):
            for lab, k in STDOUT_FIELDS.items():
                want = "nan" if r[k] == "nan" else str(int(round(float(r[k]))))
                if vals.get(lab) != want:
                    fail(f"stdout {name} '{lab}' = {vals.get(lab)} but tsv {k} = {r[k]}", "stdout-differs-from-tsv")
    if nontrivial:
        ctx.nontrivial(json.dumps(case, sort_keys=True))
    ctx.validated()
    if len(ctx.samples) < 3 and nontrivial and len(case["records"]) <= 8:
        ctx.sample({"records": [[r["chrom"], r["pos"], r["ref"], r["alts"], r["format"], r["calls"]] for r in case["records"]],
                    "tsv": {r["chromosome"]: {k: r[k] for k in INT_FIELDS} for r in res["tsv"]}, "block_list": res["bl"]})


# ------------------------------------------------------------------------------------------------
# multi-sample files through the whole-file reader (`c12.file` = run_stats on top of C09File.readFile)
# ------------------------------------------------------------------------------------------------

def file_cases(ctx, wd, cases=None):
    """`whatshap stats` (CLI) on the phase files of the C09 file generator (1-3 samples with an encoding each, encodings per
    contig / per sample, ploidy changes, malformed HP, split contigs, unsorted pairs) against `c12.file`: sample selection
    (default, --sample, a sample the file lacks), the reader's errors as the outcome of the run (whichever sample causes them),
    --chromosome / --only-snvs, every TSV field, block list, GTF"""
    from harness.gen.c09_file import gen_file_case, build_file
    from harness.gen import c09_fileops as F
    from harness.gen import c04_records as R
    rng = ctx.rng
    if cases is None:
        cases = [c for _, c in ctx.corpus() if c.get("file_stats")]
        for _ in range((40 if ctx.quick else 400) * ctx.scale):
            c = gen_file_case(rng, ctx.quick)
            c["file_stats"] = {"which": rng.randrange(2), "sample": rng.choice([None, None, "first", "last", "S9", ""]),
                               "chromosomes": rng.choice([[], [], [], ["chr1"], ["chr2"], ["chr2,chr1"], ["chr3", "chr1"]])}
            cases.append(c)
    jobs = []
    for n, case in enumerate(cases):
        d = os.path.join(wd, f"f{n}")
        shutil.rmtree(d, ignore_errors=True)
        b = build_file(case, d)
        o = case["file_stats"]
        P = b["P"][o["which"] % len(b["P"])]
        _, samples, recs = R.load_vcf(P)
        sample = {None: None, "first": samples[0] if samples else None, "last": samples[-1] if samples else None}.get(o["sample"], o["sample"])
        verb = pysam.set_verbosity(0)          # htslib warns about PQ declared as Float: expected here
        try:
            with pysam.VariantFile(P) as vf:
                contigs = [(c.name, c.length) for c in vf.header.contigs.values()]
        finally:
            pysam.set_verbosity(verb)
        req = {"op": "c12.file", "fixMissing": True, "fixPs": True, "dedupGiven": True, "onlySnvs": case["only_snvs"],
               "blockList": True, "indexed": False, "contigs": [c for c, _ in contigs],
               "lens": [[c, l] for c, l in contigs if l is not None], "given": list(o["chromosomes"]), "samples": samples,
               "sample": sample, "groups": F.groups_of(recs, samples)}
        jobs.append((case, d, P, sample, req))

    def execute(job):
        case, d, P, sample, _ = job
        tsv, bl, gtf = (os.path.join(d, n) for n in ("out.tsv", "out.blocks", "out.gtf"))
        args = ["stats", "--tsv", tsv, "--block-list", bl, "--gtf", gtf] + (["--only-snvs"] if case["only_snvs"] else [])
        for c in case["file_stats"]["chromosomes"]:
            args += ["--chromosome", c]
        if sample is not None:
            args += ["--sample", sample]
        rc, out, err, _ = sim.whatshap(args + [P], ctx.overlay)
        res = {"rc": rc, "err": err, "out": out, "tsv": parse_tsv(tsv), "bl": parse_block_list(bl), "gtf": parse_gtf(gtf)}
        shutil.rmtree(d, ignore_errors=True)
        return res

    with concurrent.futures.ThreadPoolExecutor(WORKERS) as pool:
        results = list(pool.map(execute, jobs))
    answers = ctx.model.ask_many([j[4] for j in jobs])
    for (case, _, _, sample, req), res, ans in zip(jobs, results, answers):
        ctx.evaluated()
        if "error" in ans:
            ctx.disagree("c12.file", case, "input not accepted by the driver", ans)
            continue
        ctx.dist("file_stats_samples", len(req["samples"]))
        ctx.dist("file_stats_sample_option", "default" if not sample else ("given" if sample in req["samples"] else "unknown"))
        if "err" in ans:
            want = ans["err"]
            ctx.dist("file_stats_outcome", want)
            if want in ("sample-not-found", "no-sample"):
                got = want if (res["rc"] == 0 and res["tsv"] is None and ("not found" in res["err"] or "not contain any sample" in res["err"])) else {"rc": res["rc"], "tsv": res["tsv"]}
            elif res["rc"] == 0:
                got = "ok"
            elif "_extract_HP_phase" in res["err"]:
                got = "hpFormat"
            else:
                got = err_class(res["err"])
            if got != want:
                ctx.disagree("c12.file (outcome)", case, got, want)
            continue
        ctx.dist("file_stats_outcome", "ok")
        if res["rc"] != 0:
            ctx.disagree("c12.file (outcome)", case, "hpFormat" if "_extract_HP_phase" in res["err"] else err_class(res["err"]), "ok")
            continue
        if res["tsv"] is None or res["bl"] is None or res["gtf"] is None:
            ctx.fail("an output file was not written", case, key="output-missing")
            continue
        d = diff_model(ans, res)
        if d is not None:
            ctx.disagree("c12.file", case, d, "see implementation")
        big = False
        for r in res["tsv"]:
            v = {k: int(r[k]) for k in INT_FIELDS}
            big |= v["blocks"] > 0
            if v["phased"] + v["unphased"] + v["singletons"] != v["heterozygous_variants"]:
                ctx.fail(f"{r['chromosome']}: phased + unphased + singletons != heterozygous", case, key="sum-identity")
            if v["variant_per_block_sum"] != v["phased"]:
                ctx.fail(f"{r['chromosome']}: sum of block sizes != phased", case, key="block-sizes-sum")
        alls = [r for r in res["tsv"] if r["chromosome"] == "ALL"]
        if alls:
            for k in INT_FIELDS:
                tot = sum(int(r[k]) for r in res["tsv"] if r["chromosome"] != "ALL")
                if int(alls[0][k]) != tot:
                    ctx.fail(f"ALL.{k} = {alls[0][k]} != sum of the chromosome rows {tot}", case, key="all-row-not-sum")
        if big:
            ctx.nontrivial(json.dumps(case, sort_keys=True))
        ctx.validated()


# ------------------------------------------------------------------------------------------------
# functions called in-process
# ------------------------------------------------------------------------------------------------

def n50_defining_property(lengths, target, r):
    """the statement of Props.C12.n50_spec, evaluated independently"""
    if not lengths or 2 * sum(lengths) < target:
        return r == 0
    ge = sum(l for l in lengths if l >= r)
    gt = sum(l for l in lengths if l > r)
    return r in lengths and 2 * ge >= target and (2 * gt < target or gt == 0)


def functions(ctx, cases=None):
    import logging
    from whatshap.cli import stats as S
    logging.getLogger("whatshap.cli.stats").setLevel(logging.ERROR)
    rng = ctx.rng
    if cases is None:
        cases = [c for _, c in ctx.corpus() if c.get("function")]
        for _ in range((300 if ctx.quick else 3000) * ctx.scale):
            kind = rng.choice(["n50", "n50", "unpack", "ng50"])
            if kind == "n50":
                n = rng.choice([0, 1, 2, 3, 5, 8])
                lengths = [rng.choice([0, 1, 2, 3, 5, 8, 13, 100]) for _ in range(n)]
                target = rng.choice([None, 0, 1, sum(lengths), 2 * sum(lengths), 2 * sum(lengths) + 1, rng.randrange(0, 40),
                                     2 * sum(lengths[:n // 2]), 2 * sum(sorted(lengths)[n // 2:])])
                cases.append({"function": "n50", "lengths": lengths, "target": target})
            elif kind == "unpack":
                args = [rng.choice(["", ",", "chr1", "chr1,chr2", "chr2,,chr1", ",chr3,", "a b,c", "chr1,chr1"])
                        for _ in range(rng.randrange(0, 4))]
                cases.append({"function": "unpack", "args": args})
            else:
                names = ["c1", "c2", "c3"]
                blocks = [[rng.choice(names), rng.randrange(0, 50)] for _ in range(rng.randrange(0, 6))]
                lens = [[rng.choice(names + ["zz"]), rng.randrange(0, 120)] for _ in range(rng.randrange(0, 5))]
                cases.append({"function": "ng50", "blocks": blocks, "lens": lens})
    for case in cases:
        ctx.evaluated()
        kind = case["function"]
        ctx.dist("function", kind)
        if kind == "n50":
            lengths, target = case["lengths"], case["target"]
            impl = S.n50(list(lengths), target)
            t = sum(lengths) if target is None else target
            model = ctx.model.ask_many([{"op": "c12.n50", "lengths": lengths, "target": t}])[0]
            if impl != model:
                ctx.disagree("c12.n50", case, impl, model)
            if not n50_defining_property(lengths, t, impl):
                ctx.fail(f"n50({lengths}, {target}) = {impl} is not the length at which the lengths, largest first, reach half of the target",
                         case, key="n50-not-the-half-way-length")
            ctx.dist("n50", "zero" if impl == 0 else ("largest" if impl == max(lengths) else "inner"))
        elif kind == "unpack":
            impl = S.unpack_chromosomes(list(case["args"]))
            model = ctx.model.ask_many([{"op": "c12.unpack", "args": case["args"]}])[0]
            if impl != model:
                ctx.disagree("c12.unpack", case, impl, model)
        else:
            class B:
                def __init__(self, c, sp):
                    self.chromosome, self._sp = c, sp

                def span(self):
                    return self._sp
            d = {}
            for n_, l_ in case["lens"]:
                d[n_] = l_
            impl = S.compute_ng50([B(c, sp) for c, sp in case["blocks"]], d)
            model = ctx.model.ask_many([{"op": "c12.ng50", "lens": case["lens"], "blocks": case["blocks"]}])[0]
            if (None if isinstance(impl, float) and math.isnan(impl) else impl) != model:
                ctx.disagree("c12.ng50", case, impl, model)
            ctx.dist("ng50", "nan" if model is None else "number")

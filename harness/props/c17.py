"""C17 — haplotag followed by haplotagphase reproduces the phasing that tagged the reads.

One case = one history on generated diploid data with ground truth (error-free reads, SNVs), every step the REAL CLI:
  V := `whatshap phase` (or a phased VCF written by the generator: true haplotypes, arbitrary phase set ids and block
       orientation) -> `whatshap haplotag` with V -> U := `whatshap unphase` V (or a partial unphasing, or V itself)
  -> `whatshap haplotagphase` U + tagged BAM + reference.
Property oracle (Python): every variant haplotagphase phases that was unphased in U has V's haplotype order and V's
phase set = the PS tag of the tagged reads covering it (variants covered by a tagged read that overlaps two phase sets of V
are excluded, as in the property); every call phased in U is unchanged in the output — U with already phased calls in every
encoding VcfReader accepts (`forms`: phased GT with PS / without PS in the record / PS `.` / PS 0, mixed per record and sample, or
HP next to an unphased GT; order agreeing or disagreeing with the reads' votes; own or foreign phase set), compared on haplotype
order, phase-set value and (same encoding in and out) the text of GT/PS/HP, read from the text of the files.
Correspondence: the output phase of every variant = Lean model (`c17.run`: computeVotes, bestCandidate, consensus,
writer) fed with (b) the reads ReadSetReader delivers from the tagged BAM and (a) the ground-truth alleles with the tags haplotag wrote.
"""
import json, os, shutil

RULE = ("one case = one history phase|custom -> haplotag -> unphase|partial|none -> haplotagphase through the real CLI; "
        "non-trivial if haplotagphase phases at least 3 variants that were unphased in its input, in at least one phase set; "
        "distinct = distinct case content")
MANIFEST = dict(
    text="Lean 4 theorems about a model of haplotagphase's vote/consensus logic (all votes of reads tagged from V land on the key "
         "that reconstructs V's order; consensus then writes V's order and the reads' phase set; already phased calls pass through "
         "after the repair F19), tied to the working tree by complete CLI histories on generated data with ground truth",
    design_ref="DESIGN.md §5 C17",
    note="proof of the vote logic on the model + differential histories; F19 (haplotagphase re-derives or drops the phase of calls "
         "that are already phased in its input) is reported until fixes/F19.patch is applied; F138/F139 (a phased GT without a PS value is "
         "re-phased from the votes [PS `.`] or comes back with PS 0 [no PS in the record]) until fixes/F138.patch; allele detection, VCF/BAM I/O trusted",
    technique="Lean 4 proof (per-position invariant of the vote loop) + differential CLI histories",
)
ASSUMPTIONS = [
    "diploid SNVs, biallelic and (half of the cases) multi-allelic with two ALT alleles (allele ids 0..2; haplotag and phase skip such records, haplotagphase reads them unless --no-mav), error-free reads, default thresholds (--gap-threshold 70, --cut-poly 10, no --only-indels)",
    "variants covered by a tagged read that overlaps two phase sets of V are excluded from the order/phase-set oracle, as the property does",
    "phase of the VCF that tags the reads given as GT + PS (what `whatshap phase` writes by default); already phased calls in the input of haplotagphase in every encoding VcfReader accepts: phased GT with PS value / without PS in the record / PS `.` / PS 0 (mixed per record and per sample), or HP next to an unphased GT (whole file; VcfReader rejects HP mixed with phased GTs)",
]


def parse_vcf(path, samples):
    """{(sample, chrom, pos): (phased, alleles tuple, ps)} with pysam, independent of whatshap"""
    from harness.gen import sim
    _, smp, recs = sim.read_vcf(path)
    out = {}
    for r in recs:
        for s, c in zip(smp, r["calls"]):
            gt = c.get("GT")
            if gt is None or gt[0] is None or None in gt[0]:
                continue
            ps = c.get("PS")
            key = (s, r["chrom"], r["pos"])
            if key in out:
                key = key + ("dup",)      # second record at the same position (what is left of a split multi-allelic site)
            out[key] = (bool(gt[1]), tuple(gt[0]), ps if isinstance(ps, int) else None)
    return out


def parse_vcf_text(path, samples):
    """the same view as parse_vcf, taken from the text of the file (no VCF library: a call is what is written), plus
    per call the text of its phase fields: ({key: (phased, alleles in haplotype order, phase set)}, {key: {GT, PS, HP}}).
    A call is phased by a phased GT (phase set = PS value, None if the record has no PS or the value is missing) or by
    an HP value next to an unphased GT (`7-2,7-1`: phase set 7, first GT allele on haplotype 2)."""
    from harness.gen import sim
    hdr, recs = sim.read_vcf_text(path)
    smp = hdr[-1].split("\t")[9:]
    sem, txt = {}, {}
    for fixed, fmt, cols in recs:
        keys = fmt.split(":")
        for s, col in zip(smp, cols):
            d = dict(zip(keys, col.split(":")))       # trailing fields may be dropped
            gt = d.get("GT", ".")
            if "." in gt.replace("|", "/").split("/"):
                continue
            key = (s, fixed[0], int(fixed[1]) - 1)
            if key in sem:
                key = key + ("dup",)
            phased = "|" in gt
            al = tuple(int(x) for x in gt.replace("|", "/").split("/"))
            ps = d.get("PS", ".")
            ps = int(ps) if ps.lstrip("-").isdigit() else None
            hp = d.get("HP", ".")
            if hp not in (".", "") and not phased:
                f = [tuple(int(x) for x in e.split("-")) for e in hp.split(",")]
                order = [h for _, h in f]
                al = tuple(al[order.index(h)] for h in sorted(order))
                phased, ps = True, f[0][0]
            sem[key] = (phased, al, ps)
            txt[key] = {"GT": gt, "PS": d.get("PS", "."), "HP": d.get("HP", "."), "pskey": "PS" in keys}
    return sem, txt


def load_tagged(path):
    import pysam
    out = []
    with pysam.AlignmentFile(path) as f:
        for a in f.fetch(until_eof=True):
            out.append({"name": a.query_name, "flag": a.flag, "chrom": a.reference_name, "start": a.reference_start, "end": a.reference_end,
                        "mapq": a.mapping_quality, "reverse": a.is_reverse, "rg": a.get_tag("RG") if a.has_tag("RG") else None,
                        "hp": a.get_tag("HP") if a.has_tag("HP") else -1, "ps": a.get_tag("PS") if a.has_tag("PS") else -1})
    return out


def usable17(rec):
    f = rec["flag"]
    return not (f & 2048) and rec["mapq"] >= 20 and not (f & 256) and not (f & 4) and not (f & 1024)


def is_multi(v):
    return bool(v.get("alts"))


def gt_vector(text):
    """Genotype of an extra record's GT text: `./.` -> Genotype([])"""
    al = text.replace("|", "/").split("/")
    return [] if "." in al else sorted(int(a) for a in al)


def detected_reads(fa, bam, case, sample, chrom, U):
    """the reads ReadSetReader delivers from the tagged BAM for the variant table of the haplotagphase input (the case's
    variants AND the records with a symbolic ALT allele, each with the genotype of its own record), the real vote table on
    them, and the (position, restricted genotype) pairs that reached `ReadSetReader.realign`"""
    from whatshap.cli import PhasedInputReader
    from whatshap.core import NumericSampleIds, Genotype
    from whatshap.vcf import BiallelicVcfVariant, MultiallelicVcfVariant
    from whatshap import variants as wv
    table = []
    for v in case["variants"][chrom]:
        if case["history"].get("no_mav") and is_multi(v):
            continue
        if v.get("alts"):
            table.append((v["pos"], MultiallelicVcfVariant(v["pos"], v["ref"], list(v["alts"])), Genotype(sorted(U[(sample, chrom, v["pos"])][1])), False))
        else:
            table.append((v["pos"], BiallelicVcfVariant(v["pos"], v["ref"], v["alt"]), Genotype(sorted(U[(sample, chrom, v["pos"])][1])), False))
    for e in (case.get("extra") or {}).get(chrom, []):
        if e["alts"]:            # records without ALT are skipped by VcfReader itself
            table.append((e["pos"], BiallelicVcfVariant(e["pos"], e["ref"], e["alts"][0]), Genotype(gt_vector(e["gt"][sample])), True))
    table.sort(key=lambda t: t[0])
    vs, gts = [t[1] for t in table], [t[2] for t in table]
    seen = set()
    orig = wv.ReadSetReader.realign

    def spy(variant, restricted, *a, **k):
        seen.add((variant.position, tuple(restricted.as_vector()) if restricted is not None else None))
        return orig(variant, restricted, *a, **k)
    wv.ReadSetReader.realign = staticmethod(spy)
    try:
        with PhasedInputReader([bam], fa, NumericSampleIds(), False, only_snvs=False) as pir:
            rs, _ = pir.read(chrom, vs, sample, restricted_genotypes=gts)
    finally:
        wv.ReadSetReader.realign = staticmethod(orig)
    # the real vote loop on these reads, with the tables run_haplotagphase builds from Genotype.as_vector()
    from collections import defaultdict
    from whatshap.cli.haplotagphase import compute_votes
    allele_to_id, homozygous = defaultdict(dict), {}
    for v, g in zip(vs, gts):
        for i, a in enumerate(g.as_vector()):
            allele_to_id[v.position][a] = i
        homozygous[v.position] = g.is_homozygous()
    try:
        votes = [[int(p), [[int(ps), int(k), int(q)] for (ps, k), q in inner.items()]]
                 for p, inner in compute_votes(homozygous, rs, allele_to_id).items()]
    except KeyError:
        votes = "KeyError"
    pairing = {"variants": [[t[0], t[3]] for t in table], "genotypes": [list(t[2].as_vector()) for t in table],
               "seen": sorted([p, list(g)] for p, g in seen if g is not None)}
    return [[r.PS_tag, r.HP_tag, [[v.position, v.allele, v.quality] for v in r]] for r in rs], votes, pairing


def check_pairing(ctx, case, where, pairing):
    """every variant that reaches re-alignment is re-aligned under the genotype of its OWN record (python oracle), and the
    pairs seen are among the pairs of the Lean model (`realignPairs`: zip of the unfiltered table, then the symbolic test)"""
    own = {p: g for (p, _), g in zip(pairing["variants"], pairing["genotypes"])}
    symbolic = {p for p, sym in pairing["variants"] if sym}
    seen = [x for x in pairing["seen"] if x[0] not in symbolic]      # the test for symbolic alleles sits inside realign
    for p, g in seen:
        if own.get(p) != g:
            ctx.fail(f"{where}: the variant at {p + 1} is re-aligned under the genotype {g} of another record (its own: {own.get(p)})",
                     case, key="restricted-genotype-misaligned")
            break
    ans = ctx.model.ask("c17.pairs", variants=pairing["variants"], genotypes=pairing["genotypes"])
    model = ans.get("pairs") if isinstance(ans, dict) else None
    if model is None or any(x not in model for x in seen):
        if all(own.get(p) == g for p, g in seen):      # otherwise already reported as a failure
            ctx.disagree("c17.pairs", {"case": case, "where": where}, seen, ans)
    ctx.dist("pairing_symbolic_records", min(len(symbolic), 3))


def run_case(ctx, case, d):
    from harness.gen import sim, c17_gen
    shutil.rmtree(d, ignore_errors=True)
    fa, invcf, bam = c17_gen.materialize(case, d)
    hist = case["history"]
    samples = case["samples"]
    ctx.evaluated()
    ctx.dist("history", f"{hist['source']}->haplotag->{hist['unphase']}{'(foreign)' if hist.get('foreign') else ''}"
                        f"{'(hp)' if hist.get('u_enc') == 'hp' else ''}->haplotagphase{' --tag HP' if hist.get('tag') == 'HP' else ''}")
    ctx.dist("samples", len(samples))
    W = lambda args: sim.whatshap(args, ctx.overlay)

    def bad(step, se):
        ctx.fail(f"`whatshap {step}` fails in the history: " + (se.strip().splitlines() or ["?"])[-1][:300], case, key="cli-error")

    # ---- V
    Vp = os.path.join(d, "V.vcf")
    if hist["source"] == "phase":
        rc, _, se, _ = W(["phase", "-o", Vp, "--reference", fa, invcf, bam])
        if rc != 0:
            return bad("phase", se)
    else:
        c17_gen.write_vcf(case, Vp, lambda s, c, i: c17_gen.custom_call(case, s, c, i))
    V = parse_vcf(Vp, samples)
    # ---- haplotag
    tagged = os.path.join(d, "tagged.bam")
    bx = ["--linked-read-distance-cutoff", case["bx_cutoff"]] if case.get("bx_cutoff") else []
    ctx.dist("linked_reads", bool(bx))
    rc, _, se, _ = W(["haplotag", "-o", tagged, "--reference", fa, c17_gen.bgzip_index(Vp), bam] + bx)
    if rc != 0:
        return bad("haplotag", se)
    import pysam
    pysam.index(tagged)
    # ---- U
    Up = os.path.join(d, "U.vcf")
    if hist["unphase"] == "cli":
        rc, so, se, _ = W(["unphase", Vp])
        if rc != 0:
            return bad("unphase", se)
        open(Up, "w").write(so)
    elif hist["unphase"] == "none":
        shutil.copy(Vp, Up)
    elif hist["unphase"] == "forms":
        # already phased calls in every encoding the reader accepts (c17_gen.gen_forms)
        c17_gen.write_vcf(case, Up, lambda s, c, i: c17_gen.form_call(case, s, c, i, V), forms=True)
    else:
        def call(s, c, i):
            pos = case["variants"][c][i]["pos"]
            ph, al, ps = V[(s, c, pos)]
            if ph and hist["keep"][s][c][i]:
                if hist.get("foreign"):
                    return {"GT": f"{al[1]}|{al[0]}", "PS": "5"}       # phased by somebody else: other order, other set
                return {"GT": f"{al[0]}|{al[1]}", "PS": str(ps) if ps is not None else "."}
            a, b = sorted(al)
            return {"GT": f"{a}/{b}", "PS": "."}
        c17_gen.write_vcf(case, Up, call)
    U, UT = parse_vcf_text(Up, samples)
    Upy = parse_vcf(Up, samples)
    if hist.get("u_enc") != "hp" and Upy != U:
        diff = [(k, Upy.get(k), U.get(k)) for k in sorted(set(Upy) | set(U), key=str) if Upy.get(k) != U.get(k)]
        raise AssertionError(f"harness: text view and pysam view of U differ: {diff[:4]}")
    # ---- haplotagphase
    outp = os.path.join(d, "out.vcf")
    no_mav = bool(hist.get("no_mav"))
    ctx.dist("no_mav", no_mav)
    rc, _, se, _ = W(["haplotagphase", "-o", outp, "--reference", fa, Up, tagged] + (["--no-mav"] if no_mav else [])
                     + (["--tag", hist["tag"]] if hist.get("tag") else []))
    if rc != 0:
        return bad("haplotagphase", se)
    O, OT = parse_vcf_text(outp, samples)
    out_enc = "hp" if hist.get("tag") == "HP" else "gt"

    # ---- tagged reads with ground truth
    trecs = load_tagged(tagged)
    names = list(case["contigs"])
    srt = sorted(case["alns"], key=lambda r: (names.index(r["chrom"]), r["start"]))
    assert len(srt) == len(trecs) and all(a["name"] == b["name"] for a, b in zip(srt, trecs)), "harness: input order"
    rg_of = {s: {rid for rid, sm in case["read_groups"] if sm == s} for s in samples}

    n_new, n_sets, excluded, n_multi = 0, set(), 0, 0
    whole = {}        # (sample, chrom) -> what the whole-run model needs
    for s in samples:
        for c in case["contigs"]:
            vs = case["variants"][c]
            pos_of = [v["pos"] for v in vs]
            # templates of this sample: name -> covered variant indices, tags
            templ = {}
            for rec, a in zip(trecs, srt):
                if rec["chrom"] != c or rec["rg"] not in rg_of[s] or not usable17(rec):
                    continue
                t = templ.setdefault(rec["name"], {"cov": set(), "hp": rec["hp"], "ps": rec["ps"], "start": rec["start"],
                                                   "bx": next((val for tg, val in a.get("tags", []) if tg == "BX"), None)})
                t["cov"].update(i for i, _ in a["truth"])
                t["start"] = min(t["start"], rec["start"])
            for t in templ.values():
                t["sets"] = {V[(s, c, pos_of[i])][2] for i in t["cov"] if V[(s, c, pos_of[i])][0]}
            for t in templ.values():
                sets = set(t["sets"])
                if case.get("bx_cutoff") and t["bx"] is not None:
                    # linked reads: haplotag tags a whole read cloud (same BX, starts within the cutoff of the cloud's
                    # first read) with ONE haplotype and phase set; for the proviso "no read overlaps two different
                    # phase sets" the cloud is the read.  Two members are at most 2 * cutoff apart.
                    for t2 in templ.values():
                        if t2["bx"] == t["bx"] and abs(t2["start"] - t["start"]) <= 2 * case["bx_cutoff"]:
                            sets |= t2["sets"]
                t["two_sets"] = len(sets) > 1
            for i, v in enumerate(vs):
                key = (s, c, v["pos"])
                u, o, vv = U[key], O.get(key), V[key]
                if o is None:
                    ctx.fail(f"call {key} missing from the haplotagphase output", case, key="record-lost"); continue
                if no_mav and is_multi(v):
                    # --no-mav: the record is neither read nor written; it keeps what it carries (also its phase, F25)
                    if o != u:
                        ctx.fail(f"{c}:{v['pos'] + 1} {s}: multi-allelic record under --no-mav changed {fmt(u)} -> {fmt(o)}", case,
                                 key="no-mav-multi-changed")
                    continue
                if u[0]:
                    already_phased_clause(ctx, case, f"{c}:{v['pos'] + 1} {s}", u, o, UT[key], OT[key], out_enc,
                                          (hist.get("forms") or {}).get(s, {}).get(c, [None] * len(vs))[i])
                    continue
                if not o[0]:
                    if o[1] != u[1]:
                        ctx.fail(f"{c}:{v['pos'] + 1} {s}: unphased genotype changed {fmt(u)} -> {fmt(o)}", case, key="genotype-changed")
                    continue
                R = [t for t in templ.values() if i in t["cov"] and t["hp"] in (1, 2) and t["ps"] >= 1]
                if not R:
                    ctx.fail(f"{c}:{v['pos'] + 1} {s}: phased as {fmt(o)} although no haplotagged read covers it", case, key="phased-without-tagged-reads")
                    continue
                if any(t["two_sets"] for t in R) or len({t["ps"] for t in R}) != 1:
                    excluded += 1
                    continue
                ps_reads = R[0]["ps"]
                if o[2] != ps_reads:
                    ctx.fail(f"{c}:{v['pos'] + 1} {s}: phased into set {o[2]}, the reads covering it carry PS {ps_reads}", case, key="phase-set")
                    continue
                if vv[0]:
                    if vv[2] != o[2]:
                        ctx.fail(f"{c}:{v['pos'] + 1} {s}: phase set {o[2]} but {vv[2]} in the VCF that tagged the reads", case, key="phase-set")
                    elif o[1] != vv[1]:
                        ctx.fail(f"{c}:{v['pos'] + 1} {s}: haplotype order {fmt(o)}, the VCF that tagged the reads says {fmt(vv)}", case, key="order")
                    else:
                        n_new += 1; n_sets.add((s, c, o[2]))
                        if v.get("alts"):
                            n_multi += 1
                            ctx.dist("multiallelic_genotype_reproduced", "|".join(map(str, o[1])))
                else:
                    ctx.observe("variant unphased in V gets phased from the tagged reads (outside the statement)")

            # ---- second records at an already used position: whatshap reads only the first record of a position, so a
            # second one is never phased from votes; whatever it carries must be what it carried before
            for i in case.get("dups", {}).get(c, []):
                v = vs[i]
                key = (s, c, v["pos"], "dup")
                u, o, vv = U.get(key), O.get(key), V.get(key)
                ctx.dist("dup_records", 1)
                if o is None or u is None:
                    ctx.fail(f"second record at {c}:{v['pos'] + 1} missing from the haplotagphase output", case, key="record-lost"); continue
                if u[0]:
                    if o != u or phase_text(UT[key]) != phase_text(OT[key]):
                        ctx.fail(f"{c}:{v['pos'] + 1} (second record) {s}: already phased in the input of haplotagphase as {fmt(u)} "
                                 f"[{call_text(UT[key])}], written as {fmt(o)} [{call_text(OT[key])}]", case, key="already-phased-altered-dup")
                elif o[0]:
                    if vv is not None and vv[0] and (o[1] != vv[1] or o[2] != vv[2]):
                        ctx.fail(f"{c}:{v['pos'] + 1} (second record at this position) {s}: phased as {fmt(o)}, the VCF that tagged "
                                 f"the reads says {fmt(vv)}", case, key="order-dup")
                    elif vv is None or not vv[0]:
                        ctx.fail(f"{c}:{v['pos'] + 1} (second record at this position) {s}: phased as {fmt(o)} although no read was "
                                 f"ever typed for this record (only the first record of a position is read)", case, key="dup-phased")
                elif o[1] != u[1]:
                    ctx.fail(f"{c}:{v['pos'] + 1} (second record) {s}: unphased genotype changed {fmt(u)} -> {fmt(o)}", case, key="genotype-changed")

            # ---- correspondence with the Lean model
            vars_req = []
            mvs = [v for v in vs if not (no_mav and is_multi(v))]     # the variants haplotagphase reads
            skip_idx = {i for i, v in enumerate(vs) if no_mav and is_multi(v)}
            for v in mvs:
                u = U[(s, c, v["pos"])]
                # genotype vector in the order of Genotype.as_vector(): descending (allele_to_id / id_to_allele are built
                # by enumerating it)
                vars_req.append([v["pos"], sorted(u[1], reverse=True),
                                 ([u[2] if u[2] is not None else 0, list(u[1])] if u[0] else None),
                                 len(v["ref"]) == 1 and all(len(a) == 1 for a in (v.get("alts") or [v["alt"]]))])
            # the model's block id of a phased call without a PS value is 0 (input and output alike)
            impl = [[v["pos"], ([O[(s, c, v["pos"])][2] or 0, *O[(s, c, v["pos"])][1]] if O[(s, c, v["pos"])][0] else None)] for v in mvs]
            det, real_votes, pairing = detected_reads(fa, tagged, case, s, c, U)
            check_pairing(ctx, case, f"{c} {s}", pairing)
            # ground truth reads: alleles from the generator, tags from the tagged BAM, assembled by the model of create_read_from_group
            order, groups, tags = [], {}, {}
            for rec, a in zip(trecs, srt):
                truth = [[i, al] for i, al in a["truth"] if i not in skip_idx]
                if rec["chrom"] != c or rec["rg"] not in rg_of[s] or not usable17(rec) or not truth:
                    continue
                if rec["name"] not in groups:
                    groups[rec["name"]] = []; order.append(rec["name"])
                groups[rec["name"]].append([False, bool(rec["reverse"]), rec["start"], rec["end"], [[pos_of[i], al, 30] for i, al in truth]])
                tags[rec["name"]] = (rec["ps"], rec["hp"])
            reqs, labels = [], []
            base = dict(op="c17.run", onlyIndels=False, gap=70, cut=10, ref=case["contigs"][c], vars=vars_req)
            for rep in (True, False):
                reqs.append(dict(base, repaired=rep, reads=det)); labels.append(("detected", rep))
            for grp_rep in (True, False):
                ans = ctx.model.ask("c10.group", threshold=100000, repaired=grp_rep, groups=[groups[n] for n in order])
                treads = [[tags[n][0], tags[n][1], a[1]] for n, a in zip(order, ans) if a is not None and a[1]]
                for rep in (True, False):
                    reqs.append(dict(base, repaired=rep, reads=treads)); labels.append(("truth" if grp_rep else "truth-orig-grouping", rep))
            answers = dict(zip(labels, ctx.model.ask_many(reqs)))
            # the vote table itself (per-position invariant of the vote loop, also for allele ids >= 2)
            whole[(s, c)] = {"vars": vars_req, "reads": det, "impl": impl, "single": answers[("detected", True)].get("out"),
                             "keep": [[v["pos"], ([U[(s, c, v["pos"])][2] or 0, *U[(s, c, v["pos"])][1]] if U[(s, c, v["pos"])][0] else None)] for v in mvs]}
            compose_check(ctx, case, s, c, V, trecs, srt, rg_of, pos_of)
            mv = answers[("detected", True)].get("votes") if "error" not in answers[("detected", True)] else "KeyError"
            if mv != real_votes:
                ctx.disagree("c17.run/votes", {"case": case, "chrom": c, "sample": s}, real_votes, mv)
            ctx.dist("vote_tables_compared", 1)
            for mode in ("detected", "truth"):
                a_rep, a_orig = answers[(mode, True)], answers[(mode, False)]
                if mode == "truth" and a_rep.get("out") != impl and answers[("truth-orig-grouping", True)].get("out") == impl:
                    ctx.observe("a mate on the other strand is ignored by create_read_from_group (F12): fewer votes than the reads carry")
                    continue
                if a_rep.get("out") == impl:
                    continue
                if a_orig.get("out") == impl or (mode == "truth" and answers[("truth-orig-grouping", False)].get("out") == impl):
                    # the code as it is: already phased calls are re-derived from the votes / lose their phase (F19)
                    diff = [(x, y) for x, y in zip(impl, a_rep["out"]) if x != y]
                    dk = (s, c, diff[0][0][0])
                    ctx.fail(f"{c} {s}: calls already phased in the input are not passed through: position {diff[0][0][0] + 1} written as "
                             f"{diff[0][0][1]}, input phase {diff[0][1][1]} ({mode} reads)", case,
                             key="already-phased-altered" if U[dk][2] is not None else f"already-phased-{enc_of(U[dk], UT[dk])}-altered")
                    continue
                dpos = [x[0] for x, y in zip(impl, a_rep.get("out") or []) if x != y]
                if dpos and all(U[(s, c, p)][0] and O.get((s, c, p)) != U[(s, c, p)] for p in dpos):
                    # model (already phased calls pass through) and output differ only at already phased calls that were
                    # altered: reported by the already-phased clause above under its specific key
                    ctx.observe("output differs from the pass-through model only at already phased calls reported as altered")
                    continue
                if mode == "detected":
                    ctx.disagree("c17.run/detected-reads", {"case": case, "chrom": c, "sample": s}, impl, a_rep)
                else:
                    diff = [(x, y) for x, y in zip(impl, a_rep.get("out") or []) if x != y]
                    ctx.fail(f"{c} {s}: output phase does not follow from the alleles and tags of the reads (ground truth): "
                             f"haplotagphase {diff[0][0] if diff else impl[:2]}, model {diff[0][1] if diff else a_rep}", case, key="truth-alleles")
    runfile_check(ctx, case, samples, whole)
    ctx.validated()
    ctx.dist("multiallelic_newly_phased", min(n_multi, 8))
    ctx.dist("newly_phased", min(n_new // 3 * 3, 30)); ctx.dist("phase_sets", min(len(n_sets), 6)); ctx.dist("excluded_two_sets", min(excluded, 5))
    if n_new >= 3:
        ctx.nontrivial(json.dumps(case, sort_keys=True)[:20000])
    if len(ctx.samples) < 2:
        ctx.sample({"history": hist["source"] + "/" + hist["unphase"], "n_variants": sum(len(x) for x in case["variants"].values()),
                    "newly_phased_with_V_order": n_new, "phase_sets": sorted(str(x) for x in n_sets)[:6]})


def runfile_check(ctx, case, samples, whole):
    """`c17.runfile` = the loops of run_haplotagphase (all chromosomes, all samples, reads selected by read group,
    consensus as coded, nothing handed to the writer = call kept) against the real output, record by record"""
    chroms = []
    for c in case["contigs"]:
        if any((s, c) not in whole for s in samples):
            return
        chroms.append({"name": c, "ref": case["contigs"][c], "inBam": True,
                       "tables": [{"name": s, "vars": whole[(s, c)]["vars"]} for s in samples],
                       "reads": [[s, r[0], r[1], r[2]] for s in samples for r in whole[(s, c)]["reads"]]})
    ans = ctx.model.ask("c17.runfile", reference=True, ignoreRG=False, chromosomes=[], onlyIndels=False, gap=70, cut=10,
                        samples=samples, bamSamples=samples, chroms=chroms)
    ctx.dist("runfile_compared", 1)
    if not isinstance(ans, dict) or "chroms" not in ans:
        if all(w["single"] == w["impl"] for w in whole.values()):
            ctx.disagree("c17.runfile", {"case": case}, "run ends normally", ans)
        return
    for oc in ans["chroms"]:
        for sc in oc["samples"]:
            w = whole[(sc["name"], oc["name"])]
            # keep mode: a call the writer gets no phase for stays as it is in the input
            out = [[p, ph if ph is not None else k[1]] for (p, ph), k in zip(sc["out"], w["keep"])]
            if out != w["impl"] and w["single"] == w["impl"]:
                diff = [(x, y) for x, y in zip(w["impl"], out) if x != y]
                ctx.disagree("c17.runfile", {"case": case, "chrom": oc["name"], "sample": sc["name"]}, diff[:3], "model of the whole run")


def compose_check(ctx, case, s, c, V, trecs, srt, rg_of, pos_of):
    """`c17.compose` = the tags the C10 model (`tagDecision`, HP = haplotype + 1, PS = reported set) puts on a read with the
    ground-truth alleles against V, versus the HP/PS the real haplotag wrote (single-alignment templates, no linked reads)"""
    if case.get("bx_cutoff"):
        return
    vs = case["variants"][c]
    info = []
    for v in vs:
        ph, al, ps = V[(s, c, v["pos"])]
        if ph and ps is not None and not is_multi(v) and len(set(al)) == 2 and set(al) <= {0, 1}:
            info.append([v["pos"], ps, list(al)])
    count = {}
    for rec in trecs:
        if rec["chrom"] == c:
            count[rec["name"]] = count.get(rec["name"], 0) + 1
    reads, real = [], []
    for rec, a in zip(trecs, srt):
        if rec["chrom"] != c or rec["rg"] not in rg_of[s] or not usable17(rec) or count[rec["name"]] != 1:
            continue
        reads.append([[pos_of[i], al, 30] for i, al in a["truth"]])
        real.append([rec["ps"], rec["hp"]])
    if not reads:
        return
    ans = ctx.model.ask("c17.compose", info=info, reads=reads)
    ctx.dist("compose_reads_compared", min(len(reads) // 10 * 10, 50))
    if ans != real:
        diff = [(i, x, y) for i, (x, y) in enumerate(zip(real, ans if isinstance(ans, list) else [])) if x != y]
        ctx.disagree("c17.compose", {"case": case, "chrom": c, "sample": s}, diff[:3] or real[:3], ans if not diff else "C10 model tags")


FORM_TEXT = {"ps": "phased GT with PS", "nokey": "phased GT, no PS in the record", "dot": "phased GT, PS missing", "zero": "phased GT, PS 0",
             "hp": "HP next to an unphased GT"}


def enc_of(u, ut):
    """encoding of an already phased call, from its text"""
    if ut["HP"] not in (".", "") and "|" not in ut["GT"]:
        return "hp"
    if u[2] is None:
        return "dot" if ut["pskey"] else "nokey"
    return "zero" if u[2] == 0 else "ps"


def phase_text(t):
    """the phase fields of a call as text; a field that is not in the record and a missing value are the same thing"""
    return (t["GT"], t["PS"], t["HP"])


def call_text(t):
    return f"GT={t['GT']} PS={t['PS']}" + (f" HP={t['HP']}" if t["HP"] != "." else "")


def already_phased_clause(ctx, case, where, u, o, ut, ot, out_enc, form):
    """'variants that were already phased in its input are never altered': haplotype order and phase-set value of the
    call, whatever its encoding.  u / o: (phased, alleles in haplotype order, phase set) in input / output; ut / ot: the
    text of GT, PS, HP.  Keys: `already-phased-altered` order changed or phase lost or a phase set VALUE replaced by
    another; for a phased GT without a PS value (<enc> = `nokey`: no PS in the record, `dot`: PS `.`):
    `already-phased-<enc>-altered` order changed / phase lost, `already-phased-<enc>-set-invented` same order but it
    comes back with a PS value it never had;
    `already-phased-text` same order and set but the text of GT/PS/HP differs although input and output use the same
    encoding (an HP-encoded call written by `--tag PS` legitimately changes its encoding, F65)."""
    enc = enc_of(u, ut)
    ctx.dist("already_phased_form", f"{enc}/{'agree' if (form or {}).get('agree', True) else 'disagree'}")
    what = f"{where}: already phased in the input of haplotagphase ({FORM_TEXT.get(enc, enc)}) as {fmt(u)} [{call_text(ut)}], written as {fmt(o)} [{call_text(ot)}]"
    nops = u[2] is None
    if not o[0] or o[1] != u[1] or o[2] != u[2]:
        ctx.dist("already_phased_altered_form", f"{enc}/{'order' if o[1] != u[1] else 'phase lost' if not o[0] else 'set'}")
    if not o[0] or o[1] != u[1]:
        return ctx.fail(what, case, key=f"already-phased-{enc}-altered" if nops else "already-phased-altered")
    if o[2] != u[2]:
        return ctx.fail(what, case, key=f"already-phased-{enc}-set-invented" if nops else "already-phased-altered")
    in_enc = "hp" if enc == "hp" else "gt"
    if in_enc == out_enc and phase_text(ut) != phase_text(ot):
        return ctx.fail(what + " (same phase, other text)", case, key="already-phased-text")
    ctx.dist("already_phased_unaltered", 1)


def fmt(call):
    ph, al, ps = call
    return ("|" if ph else "/").join(map(str, al)) + (f":{ps}" if ps is not None else "")


def run(ctx):
    from harness.gen import c17_gen
    d = os.path.join(ctx.workdir(), "c17")
    try:
        cases = [c for _, c in ctx.corpus()]
        if ctx.replay:
            c = json.load(open(ctx.replay))["case"]
            cases = [c.get("case", c)]
        for c in cases:
            run_case(ctx, c, d)
        if ctx.replay:
            return
        n = (20 if ctx.quick else 150) * ctx.scale
        for i in range(n):
            run_case(ctx, c17_gen.gen_case(ctx.rng, size=1.0 if ctx.quick else ctx.rng.choice([1.0, 2.0])), d)
    finally:
        shutil.rmtree(ctx.workdir(), ignore_errors=True)

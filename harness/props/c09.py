"""C09 — PS and HP encodings are equivalent, round-trip, and never mix old and new phase.

A case is a *history* of real CLI runs over one generated variant file (mixed `0/1` / `1/0` unphased genotypes,
optional pre-existing PS/HP phase, decoy multi-ALT / duplicate records with phase of their own):

  (plus: generator-written phased VCFs with interleaved / nested phase sets as the phase input of run Q and as in-process
   input of the real `phased_blocks_as_reads` — whatshap's own outputs only ever have contiguous sets; stream `stack`:
   1-4 unrelated samples in one file, per sample 2 .. k (+3) mutually overlapping sets, k = --internal-downsampling given or
   the default 15: which sets have to come back is decided by `set_depths` from k and the spans of the sets)

  A = phase(in, tag1)   B = phase(in, tag2)   C = phase(A, tag2 [, --sample subset] [, --chromosome first])   U = unphase(C)
  D = phase(U, tag1)    E = phase(C, tag1)    Q = phase(in, phase input = A only)            (tag2 = the other tag)

File-level stream (in-process, `run_file_case`): whole multi-sample / multi-chromosome files through the real reader
(== Lean `c09.readfile` == independent decoder), the real PhasedInputReader (== `c09.phaseinput`) and the real
PhasedVcfWriter.write with arbitrary super-reads and both values of remove_existing_phasing (== `c09.writefile` / `c09.writex`,
plus the property oracle on the output).  Lean `c09.fits` (Spec/C09Cap.lean) == `set_depths` on every pseudo-read run.

Cross-contig layouts (`harness/gen/c09_layout.py`, all three streams, about half of the multi-contig cases): the contigs share
their sites (same positions / identical copies incl. reads) and / or contig i+1 is shifted so that its first (second) phasable
record stands at the POS of the last phasable record of contig i - whatever the writer, the reader or the PhasedInputReader keep
from the chromosome before shows only then.  `cli_boundary_coincidences` / `file_writer_boundary_coincidences` in the input
distribution count the runs in which the last record phased on a chromosome and the first one phased on the next share a POS.

Oracle on every phase output, per target sample (independent decoder on the pysam-parsed records, expected
phase from the trace): every decodable phase statement is the one this run wrote and every written one decodes
to itself (round trip + no stale phase + never both encodings in one call); A and B decode equally (PS ≡ HP);
whatshap's own reader accepts the output; Q reproduces every phase set of A with >= 2 variants up to swapping the
haplotypes, as far as it fits under the coverage cap per sample (at most k sets over any position of its span).  Correspondence: whatshap's `VcfReader(phases=True)` == Lean `c09.read` == independent decoder on the
records the reader accepts; the pseudo reads of run Q (trace) == Lean `c09.reads`.
"""
import json, os, shutil

from harness.gen import sim
from harness.gen import c04_records as R
from harness.gen.c09_hist import gen_case, build_inputs, gen_interleaved_case, build_interleaved, gen_stack_case, DEFAULT_CAP
from harness.gen.c09_file import gen_file_case, build_file
from harness.gen import c09_fileops as F
from harness.gen import c09_layout as LAY
from harness.gen import c09_text as T

RULE = ("one history of 6 CLI runs (phase with PS, phase with HP, re-phase of the phased file with the other tag "
        "(optionally a sample subset), unphase, phase again, phase with the phased VCF as only phase input) over a "
        "generated multi-sample variant file with mixed 0/1 and 1/0 genotypes, optional pre-existing PS/HP phase and decoy "
        "records, optionally --distrust-genotypes / --only-snvs. Non-trivial: run A phased at least one set with >= 2 "
        "variants; distinct = distinct (generator seed, options). Additionally generator-written phase inputs (PS or HP encoded, "
        "1-3 samples, 2-3 phase sets per sample laid out interleaved / nested / contiguous): the real phased_blocks_as_reads "
        "in-process, and run Q on them; non-trivial there: a multi-variant set has a member of another multi-variant set "
        "between two of its members. Stream `stack`: 1-4 unrelated samples in one file, per sample 1-2 groups of m mutually "
        "overlapping sets, m from 2 to the coverage cap k (and up to k+3), k = 15 (option not given) or --internal-downsampling "
        "2..15, both tags, both encodings; non-trivial there: a set that at least one other set overlaps has to be reproduced "
        "(key Q-stack), and: two samples of the file each carry a set that more than k/2 sets overlap (Q-stack-multi). Run Q of "
        "the histories with the default cap or an explicit one (1..16). File-level stream (in-process): one variant file and 1-2 phase files over 1-3 contigs and "
        "samples (encodings per file / contig / sample, malformed HP, other ploidies, PQ, skipped and duplicate records, split "
        "contigs, missing samples): the real VcfReader(phases=True) on whole files, the real PhasedInputReader and the real "
        "PhasedVcfWriter.write with arbitrary super-reads, target / chromosome subsets and both values of "
        "remove_existing_phasing; non-trivial there: a table with a phase, a query with pseudo reads, a write() that had to "
        "state a phase. In all streams about half of the multi-contig cases have contigs whose positions coincide on purpose "
        "(same sites on every contig, identical contigs, contig i+1 shifted so that its first / second phasable record has the "
        "POS of the last phasable record of contig i); non-trivial there: the last record phased on a chromosome and the first "
        "one phased on the next chromosome share their POS")
MANIFEST = dict(
    text="Lean 4 theorems about the encoders (_set_PS/_set_HP), the tag-independent removal and the two decoders: "
         "ps_roundtrip, hp_roundtrip, decode_written (master lemma: after write exactly the new statement decodes, through "
         "the decoder of the tag only), ps_hp_equivalent, rephase_no_stale_phase, pseudo reads complementary/cover; F4 "
         "witnesses on the faithful model; tied to the working tree by pipeline histories of real CLI runs decoded by "
         "whatshap's reader, the Lean decoder and an independent decoder; file level: reader with ploidy and per-chromosome "
         "state (reader_rows_sorted, reader_phase_is_genotype_order), reader after writer on sorted chromosomes with duplicate "
         "positions and --only-snvs and on whole files (read_written_chrom, read_written_file), the chromosome loop "
         "(rephase_file_no_stale_phase), PhasedInputReader (phase_input_reader_reads) and the chain phase-input file -> reader -> "
         "pseudo reads -> solver (phase_input_reproduces_sets), whose hypothesis 'the pseudo reads are selected' holds for every set "
         "that fits under the per-sample coverage cap in a model of one selection pass with arbitrary pop order "
         "(fitting_set_selected, cap_per_run_witness)",
    design_ref="DESIGN.md §5 C09, §6 F4",
    note="trusted: Lean kernel; hand-written model (differential: quick 8 histories = 48 CLI runs + 14 pseudo-read runs on generator-written phase inputs, thorough 60 + 140); the HP text "
         "codec and htslib parsing are in the harness. F4 (a: old encoding kept when re-phasing with the other tag, "
         "b: _set_HP assumes sorted GT) and F21 (HP written as NUL byte when no sample of a record has an HP value) are "
         "genuine defects of /repo: reported until fixes/F4.patch is applied. Pseudo-read reproduction is checked on "
         "pipeline runs (the solver/optimality part is C01/C03's theorem, not re-proved here)",
    technique="Lean 4 proof on record-level codec/writer model + differential correspondence on CLI histories",
)
ASSUMPTIONS = [
    "a phase set of the pseudo-read run 'fits under the coverage cap' when at most k multi-variant sets (itself included) span any "
    "one position of its span, k = --internal-downsampling (15 if not given), per sample (unrelated samples are phased one by "
    "one); decided by the oracle from k and the sets of the phase input, not from the trace",
    "the trace hook reports the super-reads and components that `PhasedVcfWriter.write` received",
    "htslib/pysam parsing, the HP text codec and the float -> int conversion of PQ are harness glue (typed values in the model)",
    "on a chromosome that --chromosome does not request no sample is a target: the records must be unchanged there",
]


# ------------------------------------------------------------------------------------------------
# independent decoding
# ------------------------------------------------------------------------------------------------

def eligible_first(records, only_snvs):
    """indices of the records that stand for 'the variant at this position' (what whatshap's reader keeps)"""
    keep, prev, chrom = set(), None, None
    for i, r in enumerate(records):
        if r["chrom"] != chrom:
            chrom, prev = r["chrom"], None
        if not r["alts"] or len(r["alts"]) > 1:
            continue
        if only_snvs and not (len(r["ref"]) == 1 and len(r["alts"][0]) == 1):
            continue
        if prev == r["pos"]:
            continue
        prev = r["pos"]
        keep.add(i)
    return keep


def indep_decode(rec, si):
    """(hp phase | None | 'bad', gtps phase | None) of sample column si; a phase is (block, alleles tuple)"""
    c = rec["calls"][si]
    gt = c.get("GT")
    hp = None
    v = c.get("HP")
    if "HP" in rec["format"] and v not in R.MISSING and not (isinstance(v, tuple) and all(x in (None, ".", "") for x in v)):
        parsed = R.parse_hp(v)
        if parsed is None or gt is None or gt[0] is None or len({b for b, _ in parsed}) != 1:
            hp = "bad"
        else:
            order = [h for _, h in parsed]
            try:
                hp = (parsed[0][0], tuple(gt[0][order.index(i + 1)] for i in range(len(order))))
            except (ValueError, IndexError):
                hp = "bad"
    gp = None
    if gt is not None and gt[0] is not None and gt[1] and len(gt[0]) > 1 and not all(a == gt[0][0] for a in gt[0]):
        gp = ((c.get("PS") if "PS" in rec["format"] else 0), tuple(gt[0]))
    return hp, gp


def expected_phases(trace):
    """{sample: {(chrom, pos): (block, (a0, a1))}}: the phase statements this run had to write"""
    exp = {}
    for t in trace:
        comps = dict(map(tuple, t["overall_components"]))
        for s in t["family"]:
            e = exp.setdefault(s, {})
            sr = t["superreads"][s]
            for v0, v1 in zip(sr[0]["variants"], sr[1]["variants"]):
                if v0[1] in (0, 1) and v1[1] in (0, 1) and v0[1] != v1[1] and v0[0] in comps:
                    e[(t["chromosome"], v0[0])] = (comps[v0[0]] + 1, (v0[1], v1[1]))
    return exp


def boundary_coincidences(chrom_order, phased):
    """number of chromosome boundaries at which the last record phased (for any sample) on a chromosome has the POS of the first
    record phased on the chromosome processed next.  phased: iterable of (chrom, pos)"""
    lo, hi = {}, {}
    for c, p in phased:
        lo[c] = min(p, lo.get(c, p)); hi[c] = max(p, hi.get(c, p))
    order = [c for c in chrom_order if c in lo]
    return sum(1 for a, b in zip(order, order[1:]) if hi[a] == lo[b])


def single_sample_vcf(path, si, out):
    with open(path) as f, open(out, "w") as g:
        for line in f:
            if line.startswith("##"):
                g.write(line)
            else:
                cols = line.rstrip("\n").split("\t")
                g.write("\t".join(cols[:9] + [cols[9 + si]]) + "\n")
    return out


def whatshap_read(path, sample, only_snvs):
    """phases as whatshap's own reader sees them: {(chrom,pos): (block, alleles)} or ('error', type name)"""
    from whatshap.vcf import VcfReader
    out = {}
    try:
        reader = VcfReader(path, only_snvs=only_snvs, phases=True)
        try:
            for table in reader:
                for v, p in zip(table.variants, table.phases_of(sample)):
                    out[(table.chromosome, v.position)] = None if p is None else (p.block_id, tuple(p.phase))
        finally:
            reader.close()
    except Exception as e:  # noqa: BLE001 - every exception type is an observable here
        return ("error", type(e).__name__)
    return out


# ------------------------------------------------------------------------------------------------
# one history
# ------------------------------------------------------------------------------------------------

class Hist:
    def __init__(self, ctx, case, d, opts=None):
        self.ctx, self.case, self.d = ctx, case, d
        self.opts = opts if opts is not None else case["opts"]
        self.fails = []

    def fail(self, what, key, step):
        self.fails.append(key)
        self.ctx.fail(f"[{step}] {what}", self.case, key=key)

    def phase(self, name, variant_vcf, phase_inputs, tag, fa, samples=None, chroms=None, extra=()):
        o = self.opts
        out = os.path.join(self.d, name + ".vcf")
        a = ["phase", "-o", out, "--tag", tag]
        a += ["--reference", fa] if any(p.endswith(".bam") for p in phase_inputs) else ["--no-reference"]
        if o["distrust"]:
            a += ["--distrust-genotypes"]
        if o["include_hom"]:
            a += ["--include-homozygous"]
        if o["only_snvs"]:
            a += ["--only-snvs"]
        for s in samples or []:
            a += ["--sample", s]
        for c in chroms or []:
            a += ["--chromosome", c]
        a += list(extra)
        rc, so, se, trace = R.run_whatshap(self.ctx, a + [variant_vcf] + phase_inputs, trace=os.path.join(self.d, name + ".trace"))
        self.ctx.evaluated()
        if rc != 0:
            last = (se.strip().splitlines() or ["?"])[-1][:300]
            if "MixedPhasingError" in se or "Mixed phasing" in se:
                self.fail("whatshap refuses a file it wrote itself as input: " + last, "own-output-rejected", name)
            elif "Traceback" in se or rc < 0:
                self.fail("whatshap phase crashed: " + last, "crash", name)
            else:
                self.ctx.observe("clean command-line error: " + last[:80])
            return None
        return {"name": name, "out": out, "trace": trace, "tag": tag, "in": variant_vcf, "targets": samples, "chroms": chroms}

    def check_output(self, run, samples):
        """round trip / no stale phase / no mixed encoding per target sample; returns {sample: decoded map} or None"""
        ctx, o, name = self.ctx, self.opts, run["name"]
        try:
            _, _, recs = R.load_vcf(run["out"])
        except (OSError, ValueError) as e:
            nul = bytes([0]) in open(run["out"], "rb").read()
            self.fail(f"output VCF cannot be parsed by htslib ({e}); NUL byte in the file: {nul}", "output-unparsable", name)
            return None
        ctx.validated(len(run["trace"]))
        check_text_columns(ctx, self.case, run["out"])
        elig = eligible_first(recs, o["only_snvs"])
        exp = expected_phases(run["trace"])
        targets = run["targets"] or samples
        order = []
        for t in run["trace"]:
            if t["chromosome"] not in order:
                order.append(t["chromosome"])
        nb = boundary_coincidences(order, [k for e in exp.values() for k in e])
        ctx.dist("cli_boundary_coincidences", min(nb, 2))
        if nb:
            ctx.nontrivial(("boundary", name, self.case.get("gen_seed")))
        rin = None
        if run.get("chroms"):
            # a chromosome that --chromosome did not request is "left unchanged": there no sample is a target of this run, and
            # what decodes must be what the run's input file says (for every sample)
            _, _, rin = R.load_vcf(run["in"])
            if len(rin) != len(recs):
                self.fail("the output has another number of records than the input", "record-count", name)
                return None
            for s in samples:
                si = samples.index(s)
                for ri, ro in zip(rin, recs):
                    if ri["chrom"] not in run["chroms"] and indep_decode(ri, si) != indep_decode(ro, si):
                        self.fail(f"sample {s} {ri['chrom']}:{ri['pos'] + 1}: chromosome not requested by --chromosome, but the phase "
                                  f"information changed from {indep_decode(ri, si)} to {indep_decode(ro, si)}", "unrequested-chrom-changed", name)
                        return None
        decoded = {}
        reqs, meta = [], []
        for s in targets:
            si = samples.index(s)
            dec = {}
            bad = None
            for i, r in enumerate(recs):
                hp, gp = indep_decode(r, si)
                if run.get("chroms") and r["chrom"] not in run["chroms"]:
                    if i in elig:
                        dec[(r["chrom"], r["pos"])] = gp if gp is not None else hp
                    continue
                want = exp.get(s, {}).get((r["chrom"], r["pos"])) if i in elig else None
                if hp is not None and gp is not None and bad is None:
                    bad = ("mixed-encoding", f"sample {s} {r['chrom']}:{r['pos'] + 1}: the call carries HP ({hp}) and a phased GT/PS ({gp}) at once")
                got = gp if gp is not None else hp
                if i in elig:
                    dec[(r["chrom"], r["pos"])] = got
                if got != want and bad is None:
                    if want is None:
                        bad = ("stale-phase", f"sample {s} {r['chrom']}:{r['pos'] + 1} ({'/'.join(r['alts']) or '.'}): decodable phase {got} "
                                              f"was not written by this run (tag {run['tag']})")
                    else:
                        bad = ("decode-differs", f"sample {s} {r['chrom']}:{r['pos'] + 1}: written {want}, decodes to {got} (tag {run['tag']})")
            if bad:
                self.fail(bad[1], bad[0], name)
            decoded[s] = dec
            # whatshap's own reader and the Lean reader on the single-sample view
            one = single_sample_vcf(run["out"], si, os.path.join(self.d, f"{name}.{s}.vcf"))
            wr = whatshap_read(one, s, o["only_snvs"])
            if isinstance(wr, tuple):
                self.fail(f"whatshap's reader raises {wr[1]} on sample {s} of a file written by whatshap phase --tag {run['tag']}",
                          "own-output-rejected", name)
            elif not bad and wr != dec:
                diff = [(k, wr.get(k), dec.get(k)) for k in sorted(set(wr) | set(dec)) if wr.get(k) != dec.get(k)]
                ctx.disagree("VcfReader(phases=True) vs independent decoder", self.case, str(diff[:3]), name)
            for chrom, idxs in R.chrom_blocks(recs):
                rj = []
                for i in idxs:
                    m = R.model_record(recs[i], samples)
                    m["calls"] = [m["calls"][si]]
                    rj.append(m)
                reqs.append({"op": "c09.read", "onlySnvs": o["only_snvs"], "records": rj})
                meta.append((s, chrom, wr))
        for (s, chrom, wr), ans in zip(meta, ctx.model.ask_many(reqs) if reqs else []):
            if isinstance(wr, tuple):
                lean = ans.get("error")
                if lean is None and wr[1] in ("MixedPhasingError",):
                    # the error may stem from another chromosome; only compare when the file has one
                    pass
                continue
            if "error" in ans:
                ctx.disagree("c09.read", self.case, "whatshap reader ok", ans)
                continue
            lean = {(chrom, row["pos"]): (None if row["calls"][0][1] is None else
                                          (row["calls"][0][1]["block"], tuple(row["calls"][0][1]["alleles"]))) for row in ans["rows"]}
            impl = {k: v for k, v in wr.items() if k[0] == chrom}
            if lean != impl:
                diff = [(k, impl.get(k), lean.get(k)) for k in sorted(set(impl) | set(lean)) if impl.get(k) != lean.get(k)]
                ctx.disagree("c09.read", self.case, str(diff[:3]), run["name"] + "/" + s)
        return decoded


def blocks_of(dec):
    """{block: {(chrom,pos): alleles}} of a decoded map"""
    out = {}
    for k, v in dec.items():
        if v is not None:
            out.setdefault((k[0], v[0]), {})[k] = v[1]
    return out


def run_case(ctx, case, n):
    o = case["opts"]
    d = os.path.join(ctx.workdir(), f"case{n}")
    shutil.rmtree(d, ignore_errors=True)
    fa, bam, vcf, sc = build_inputs(case, d)
    samples = list(sc.samples)
    h = Hist(ctx, case, d)
    tag1 = o["tag1"]; tag2 = "HP" if tag1 == "PS" else "PS"
    ctx.dist("hist_layout", LAY.tag(case.get("layout")))
    ctx.dist("pre", case["vcf"]["pre"]); ctx.dist("flip", case["vcf"]["flip_prob"]); ctx.dist("n_samples", len(samples))
    ctx.dist("mode", ("distrust" if o["distrust"] else "trust") + ("+hom" if o["include_hom"] else "") + ("+snvs" if o["only_snvs"] else ""))
    subset = sorted(samples[:max(1, len(samples) // 2)]) if (o["subset"] and len(samples) > 1) else None

    A = h.phase("A", vcf, [bam], tag1, fa)
    B = h.phase("B", vcf, [bam], tag2, fa)
    decA = h.check_output(A, samples) if A else None
    decB = h.check_output(B, samples) if B else None
    if decA is not None and decB is not None:
        if json.dumps(A["trace"], sort_keys=True) != json.dumps(B["trace"], sort_keys=True):
            ctx.observe("traces of the PS and HP run differ (solver input/output should not depend on the tag)")
        elif decA != decB:
            s = next(s for s in samples if decA[s] != decB[s])
            k = next(k for k in sorted(decA[s]) if decA[s][k] != decB[s].get(k))
            h.fail(f"ps_hp_equivalent: sample {s} {k[0]}:{k[1] + 1} decodes to {decA[s][k]} from --tag {tag1} and to {decB[s].get(k)} from --tag {tag2}",
                   "ps-hp-differ", "A/B")
    if decA is not None and any(len(v) >= 2 for s in samples for v in blocks_of(decA[s]).values()):
        ctx.nontrivial((case["gen_seed"], json.dumps(o, sort_keys=True), json.dumps(case["vcf"], sort_keys=True)))
    # re-phase the phased file with the other tag
    contigs = list(sc.contigs)
    csub = contigs[:1] if (o.get("chrom_subset") and len(contigs) > 1) else None
    ctx.dist("hist_C", ("samples" if subset else "all") + "/" + ("chrom1" if csub else "all") + ("/noreads" if case["vcf"].get("noreads") else ""))
    C = h.phase("C", A["out"], [bam], tag2, fa, samples=subset, chroms=csub) if A and decA is not None else None
    decC = h.check_output(C, samples) if C else None
    if C and decC is not None and o.get("back"):
        # tag1 -> tag2 -> tag1 without unphase in between (C may have re-phased only some samples / chromosomes: the file then
        # carries both encodings, in different samples or chromosomes)
        E = h.phase("E", C["out"], [bam], tag1, fa)
        decE = h.check_output(E, samples) if E else None
        if decE is not None and decA is not None and not o["distrust"] and decE != decA and json.dumps(E["trace"], sort_keys=True) == json.dumps(A["trace"], sort_keys=True):
            h.fail("phase(tag1) -> re-phase(tag2) -> re-phase(tag1) decodes differently from the first phasing although the solver result is identical",
                   "history-differs", "E")
    D = None
    if C and decC is not None:
        rc, so, se, _ = R.run_whatshap(ctx, ["unphase", C["out"]])
        ctx.evaluated()
        if rc != 0:
            if "Traceback" in se:
                ctx.observe("unphase crashed on a phase output (C13's subject): " + se.strip().splitlines()[-1][:80])
        else:
            U = os.path.join(d, "U.vcf")
            open(U, "w").write(so)
            D = h.phase("D", U, [bam], tag1, fa)
            decD = h.check_output(D, samples) if D else None
            if decD is not None and decA is not None and not o["distrust"] and decD != decA and json.dumps(D["trace"], sort_keys=True) == json.dumps(A["trace"], sort_keys=True):
                h.fail("phase -> re-phase(other tag) -> unphase -> phase decodes differently from the first phasing although the solver result is identical",
                       "history-differs", "D")
    # the phased VCF as the only phase input
    if A and decA is not None and not o["distrust"]:
        qk = o.get("q_k")
        ctx.dist("hist_Q_cap", "default" if qk is None else min(qk, 5))
        Q = h.phase("Q", vcf, [A["out"]], tag1, fa, extra=[] if qk is None else ["--internal-downsampling", str(qk)])
        decQ = h.check_output(Q, samples) if Q else None
        if decQ is not None:
            check_reproduction(h, {s: blocks_of(decA[s]) for s in samples}, decQ, samples, DEFAULT_CAP if qk is None else qk, "Q")
            check_pseudo_reads(ctx, case, A["out"], Q["trace"], samples, o["only_snvs"], vcf)
    ctx.sample({"case": case, "fails": h.fails, "blocks_A": {s: len(blocks_of(decA[s])) for s in samples} if decA else None})
    shutil.rmtree(d, ignore_errors=True)


def set_depths(sets):
    """{set key: the largest number of multi-variant sets (the set itself included) that span one position within the span of
    the set}.  sets: {key: {(chrom, pos): alleles}}, every set on one chromosome.  A pseudo-read run has one read per phase set
    (and its complement) reaching from the first to the last member; read selection admits a read as long as fewer than `cap`
    selected reads lie over each position of its span, and the first read of a set only ever competes with reads of OTHER sets.
    So a set whose depth is at most the cap fits under it whatever the selection order is; that is the property's "as long as
    the sets fit under the coverage cap", decided from the sets alone"""
    iv = {}
    for b, members in sets.items():
        if len(members) >= 2:
            ks = sorted(members)
            iv[b] = (ks[0][0], ks[0][1], ks[-1][1])
    out = {}
    for b, (c, lo, hi) in iv.items():
        # the depth over [lo, hi] is largest at lo or where another set starts
        points = [lo] + [l2 for (c2, l2, h2) in iv.values() if c2 == c and lo <= l2 <= hi]
        out[b] = max(sum(1 for (c2, l2, h2) in iv.values() if c2 == c and l2 <= p <= h2) for p in points)
    return out


def check_reproduction(h, sets, decQ, samples, cap, step):
    """every phase set of the phase input with >= 2 shared heterozygous variants is one phase set of the output, with the
    same haplotypes up to exchanging them - as far as it fits under the coverage cap per sample (`cap` = k of
    --internal-downsampling, 15 if not given: unrelated samples are phased one by one, each under the full cap); what fits is
    decided by `set_depths`, not by what the run selected.  sets: {sample: {block: {(chrom,pos): alleles}}}.
    Returns {sample: (largest depth of a set that has to be reproduced, largest depth at all)}"""
    info = {}
    reqs, meta = [], []
    for s in samples:
        depth = set_depths(sets[s])
        info[s] = (max([d for d in depth.values() if d <= cap], default=0), max(depth.values(), default=0))
        # the same decision by the executable Lean spec (Spec/C09Cap.lean: depth over ALL member positions; theorem
        # Props.C09.fitting_set_selected: a set that fits has a read selected in any pop order)
        for chrom in sorted({b[0] for b in depth}):
            keys = sorted(b for b in depth if b[0] == chrom)
            reqs.append({"op": "c09.fits", "cap": cap, "ps": sorted(k[1] for b in keys for k in sets[s][b]),
                         "spans": [[min(k[1] for k in sets[s][b]), max(k[1] for k in sets[s][b])] for b in keys]})
            meta.append((s, [depth[b] for b in keys]))
    for (s, dep), ans in zip(meta, h.ctx.model.ask_many(reqs) if reqs else []):
        want = [{"depth": d, "fits": d <= cap} for d in dep]
        if ans != want:
            h.ctx.disagree("c09.fits (set_depths of the oracle vs Spec/C09Cap)", h.case, want[:8], ans if not isinstance(ans, list) else ans[:8])
    for s in samples:
        depth = set_depths(sets[s])
        for b, members in sets[s].items():
            if len(members) < 2:
                continue
            if depth[b] > cap:
                h.ctx.observe("pseudo-read check: a phase set overlaps more sets than the coverage cap admits (not demanded)")
                continue
            got = {k: decQ[s].get(k) for k in members}
            if any(v is None for v in got.values()) or len({v[0] for v in got.values()}) != 1:
                miss = sorted(k[1] + 1 for k in members if got[k] is None)
                h.fail(f"pseudo reads: phase set {b} of sample {s} ({sorted(k[1] + 1 for k in members)}) is not reproduced as one phase set "
                       f"although at most {depth[b]} sets overlap anywhere in its span and the coverage cap per sample is {cap} "
                       f"({len(samples)} unrelated samples in the file); unphased in the output: POS {miss}; decoded: "
                       f"{dict(list(got.items())[:6])}", "pseudo-set", step)
                break
            same = all(got[k][1] == members[k] for k in members)
            swap = all(got[k][1] == tuple(reversed(members[k])) for k in members)
            if not (same or swap):
                h.fail(f"pseudo reads: haplotypes of phase set {b} of sample {s} differ beyond a swap: {members} vs {got}", "pseudo-hap", step)
                break
    return info


def pseudo_rows(rin, rp, chrom, si, only_snvs):
    """rows of the phased file `rp` for one sample and chromosome as the Lean model / the spec want them; `wanted` = the variant
    is heterozygous (fully called) in the variant file `rin`"""
    el_in, el_p = eligible_first(rin, only_snvs), eligible_first(rp, only_snvs)
    wanted = {(r["pos"], r["ref"], r["alts"][0]) for i, r in enumerate(rin) if i in el_in and r["chrom"] == chrom
              and len(set(R.gt_code(r["calls"][si].get("GT")))) > 1}
    rows = []
    for i, r in enumerate(rp):
        if i not in el_p or r["chrom"] != chrom:
            continue
        hp, gp = indep_decode(r, si)
        ph = gp if gp is not None else hp
        rows.append({"pos": r["pos"], "wanted": (r["pos"], r["ref"], r["alts"][0]) in wanted, "gcode": R.gt_code(r["calls"][si].get("GT")),
                     "phase": None if ph in (None, "bad") else {"block": ph[0], "alleles": list(ph[1])}})
    return rows


def spec_reads(rows):
    """what `phased_blocks_as_reads` has to yield, stated directly: per phase set the two haplotypes restricted to the shared
    heterozygous variants, if there are at least two of them.  {(block, hap): [[pos, allele], ...]}"""
    out = {}
    for r in rows:
        ph = r["phase"]
        if len(r["gcode"]) != 2 or len(set(r["gcode"])) < 2 or not r["wanted"] or ph is None or ph["alleles"][0] is None:
            continue
        for i, a in enumerate(ph["alleles"]):
            out.setdefault((ph["block"], i), []).append([r["pos"], a])
    return {k: v for k, v in out.items() if len(v) > 1}


def reads_by_name(reads):
    impl = {}
    for name, variants in reads:
        parts = name.rsplit("_block_", 1)
        if len(parts) == 2 and "_phase_" in parts[0]:
            impl[(int(parts[1]), int(parts[0].rsplit("_phase_", 1)[1]))] = [list(v) for v in variants]
    return impl


def check_pseudo_reads(ctx, case, phased_path, trace, samples, only_snvs, vcf, fail=None):
    """trace of a run with a phased VCF as phase input: the candidate reads built by phased_blocks_as_reads == the direct
    statement (`spec_reads`, a property failure if not) == Lean c09.reads on the phased file's decoded rows"""
    _, _, rin = R.load_vcf(vcf)
    _, _, rp = R.load_vcf(phased_path)
    reqs, meta = [], []
    for t in trace:
        for s in t["family"]:
            rows = pseudo_rows(rin, rp, t["chromosome"], samples.index(s), only_snvs)
            reqs.append({"op": "c09.reads", "rows": rows})
            impl = reads_by_name((rd["name"], [[v[0], v[1]] for v in rd["variants"]]) for rd in t["candidates"][s]["reads"])
            meta.append((t["chromosome"], s, impl, spec_reads(rows)))
    for (chrom, s, impl, spec), ans in zip(meta, ctx.model.ask_many(reqs) if reqs else []):
        lean = {(b, i): rd for b, i, rd in ans} if isinstance(ans, list) else ans
        bad = impl != spec
        if bad and fail:
            k = next(k for k in sorted(set(impl) | set(spec), key=str) if impl.get(k) != spec.get(k))
            fail(f"pseudo reads of sample {s} on {chrom}: read {k} of the phase input should be {spec.get(k)} (its phase set restricted to the "
                 f"shared heterozygous variants) but phased_blocks_as_reads built {impl.get(k)}", "pseudo-reads")
        if lean != impl and not bad:
            ctx.disagree("c09.reads (phased_blocks_as_reads)", case, {str(k): v for k, v in impl.items()}, ans)
        if lean != spec:
            ctx.disagree("c09.reads vs direct statement", case, {str(k): v for k, v in spec.items()}, ans)


def inprocess_pseudo_reads(ctx, case, V, P, samples, fail):
    """the real VariantTable.phased_blocks_as_reads called in-process on the tables of P, against the direct statement and Lean"""
    from whatshap.vcf import VcfReader
    o_snvs = case["only_snvs"]
    _, _, rin = R.load_vcf(V)
    _, _, rp = R.load_vcf(P)
    with VcfReader(V, only_snvs=o_snvs) as rv:
        tv = {t.chromosome: t for t in rv}
    try:
        with VcfReader(P, only_snvs=o_snvs, phases=True) as rpz:
            tp = {t.chromosome: t for t in rpz}
    except Exception as e:  # noqa: BLE001
        fail(f"whatshap's reader raises {type(e).__name__} on a generator-written phased VCF ({case['enc']} encoded)", "reader-error")
        return
    reqs, meta = [], []
    for chrom, table in tp.items():
        for si, s in enumerate(samples):
            inv = [v for v, g in zip(tv[chrom].variants, tv[chrom].genotypes_of(s)) if not g.is_none() and not g.is_homozygous()]
            reads = list(table.phased_blocks_as_reads(s, inv, 7, si))
            impl = reads_by_name((r.name, [[v.position, v.allele] for v in r]) for r in reads)
            rows = pseudo_rows(rin, rp, chrom, si, o_snvs)
            spec = spec_reads(rows)
            ctx.evaluated()
            if interleaved(rows):
                ctx.nontrivial(("tbl", case["gen_seed"], chrom, s))
            if impl != spec:
                k = next(k for k in sorted(set(impl) | set(spec), key=str) if impl.get(k) != spec.get(k))
                fail(f"phased_blocks_as_reads({s}, {chrom}): read {k} should be {spec.get(k)} (its phase set restricted to the shared "
                     f"heterozygous variants) but is {impl.get(k)}", "pseudo-reads")
            reqs.append({"op": "c09.reads", "rows": rows}); meta.append((impl, spec))
    for (impl, spec), ans in zip(meta, ctx.model.ask_many(reqs) if reqs else []):
        lean = {(b, i): rd for b, i, rd in ans} if isinstance(ans, list) else ans
        if lean != spec:
            ctx.disagree("c09.reads vs direct statement", case, {str(k): v for k, v in spec.items()}, ans)
        elif lean != impl and impl == spec:
            ctx.disagree("c09.reads (in-process)", case, {str(k): v for k, v in impl.items()}, ans)


def interleaved(rows):
    """some phase set has a member of another multi-variant set between two of its members"""
    seq = [r["phase"]["block"] for r in rows if r["phase"] is not None and r["wanted"] and len(set(r["gcode"])) == 2]
    multi = {b for b in seq if seq.count(b) >= 2}
    seq = [b for b in seq if b in multi]
    return any(seq[i] != seq[i + 1] and seq[i] in seq[i + 2:] for i in range(len(seq) - 1))


def run_interleaved(ctx, case, n):
    """phase input = generator-written phased VCF with interleaved / nested sets: in-process pseudo reads, then run Q"""
    d = os.path.join(ctx.workdir(), f"case{n}")
    shutil.rmtree(d, ignore_errors=True)
    V, P, samples = build_interleaved(case, d)
    h = Hist(ctx, case, d, opts={"distrust": False, "include_hom": False, "only_snvs": case["only_snvs"]})
    ctx.dist("interleaved_pattern", case["pattern"]); ctx.dist("interleaved_enc", case["enc"])
    ctx.dist("interleaved_layout" + ("" if case.get("cli", True) else "_table"), LAY.tag(case.get("layout")))
    seen = []

    def fail(what, key):
        if key not in seen:
            h.fail(what, key, "P")
        seen.append(key)
    inprocess_pseudo_reads(ctx, case, V, P, samples, fail)
    if case.get("cli", True):
        Q = phase_q(h, case, V, P)
        decQ = h.check_output(Q, samples) if Q else None
        if decQ is not None:
            _, _, rin = R.load_vcf(V)
            _, _, rp = R.load_vcf(P)
            sets = {}
            for si, s in enumerate(samples):
                sets[s] = {}
                for chrom in sorted({r["chrom"] for r in rp}):
                    for (b, i), rd in spec_reads(pseudo_rows(rin, rp, chrom, si, case["only_snvs"])).items():
                        for pos, a in rd:
                            sets[s].setdefault((chrom, b), {}).setdefault((chrom, pos), [None, None])[i] = a
                sets[s] = {b: {k: tuple(v) for k, v in m.items()} for b, m in sets[s].items()}
            cap = DEFAULT_CAP if case.get("k") is None else case["k"]
            info = check_reproduction(h, sets, decQ, samples, cap, "Q")
            if case["pattern"] == "stack":
                dem = max(v[0] for v in info.values())
                ctx.dist("stack_cap", "default" if case.get("k") is None else ("k<=4" if cap <= 4 else "k<=8" if cap <= 8 else "k>8"))
                ctx.dist("stack_n_samples", len(samples))
                ctx.dist("stack_demanded_depth_vs_cap", "none" if not dem else "at-cap" if dem == cap else "cap-1" if dem == cap - 1 else
                         "above-cap/2" if 2 * dem > cap else "low")
                ctx.dist("stack_beyond_cap", any(v[1] > cap for v in info.values()))
                # more multi-variant sets on a chromosome than the cap, and every one of them has to be reproduced
                many = any(sum(1 for (c, _), m in sets[s_].items() if c == chrom and len(m) >= 2) > cap and info[s_][1] <= cap
                           for s_ in samples for chrom in {c for c, _ in sets[s_]})
                ctx.dist("stack_more_sets_than_cap_all_fit", many)
                if dem >= 2:
                    ctx.nontrivial(("Q-stack", case["gen_seed"]))
                # the cap is per sample: a sample's sets fit or not whatever the other samples of the file carry
                if len(samples) >= 2 and sum(1 for v in info.values() if 2 * v[0] > cap) >= 2:
                    ctx.nontrivial(("Q-stack-multi", case["gen_seed"]))
            check_pseudo_reads(ctx, case, P, Q["trace"], samples, case["only_snvs"], V, fail=fail)
            if any(interleaved(pseudo_rows(rin, rp, c, si, case["only_snvs"])) for si in range(len(samples)) for c in {r["chrom"] for r in rp}):
                ctx.nontrivial(("Q-interleaved", case["gen_seed"]))
    ctx.sample({"case": case, "fails": h.fails})
    shutil.rmtree(d, ignore_errors=True)


def phase_q(h, case, V, P):
    out = os.path.join(h.d, "Q.vcf")
    a = ["phase", "-o", out, "--no-reference", "--tag", case["tag"]] + (["--only-snvs"] if case["only_snvs"] else [])
    if case.get("k") is not None:
        a += ["--internal-downsampling", str(case["k"])]
    rc, so, se, trace = R.run_whatshap(h.ctx, a + [V, P], trace=os.path.join(h.d, "Q.trace"))
    h.ctx.evaluated()
    if rc != 0:
        last = (se.strip().splitlines() or ["?"])[-1][:300]
        if "Traceback" in se or rc < 0:
            h.fail("whatshap phase crashed with a phased VCF as the only phase input: " + last, "crash", "Q")
        else:
            h.ctx.observe("clean command-line error: " + last[:80])
        return None
    return {"name": "Q", "out": out, "trace": trace, "tag": case["tag"], "in": V, "targets": None}


# ------------------------------------------------------------------------------------------------
# file-level stream (in-process): whole multi-sample / multi-chromosome files through the real reader, the real
# PhasedInputReader and the real PhasedVcfWriter.write (both values of remove_existing_phasing)
# ------------------------------------------------------------------------------------------------

def run_file_case(ctx, case, n):
    import random
    from whatshap.vcf import VcfReader
    d = os.path.join(ctx.workdir(), f"case{n}")
    shutil.rmtree(d, ignore_errors=True)
    b = build_file(case, d)
    os_ = case["only_snvs"]
    rng = random.Random(case["gen_seed"] ^ 0xF11E)
    h = Hist(ctx, case, d, opts={"distrust": False, "include_hom": False, "only_snvs": os_})
    for k in ("enc_mode", "pq", "n_contigs", "n_samples", "n_files"):
        ctx.dist("file_" + k, case[k])
    ctx.dist("file_layout", LAY.tag(case.get("layout")) + ("/dense" if case.get("dense_plan") else ""))

    # ---- 1. the reader on every phase file, whole file, all samples at once
    parsed, lean_tables, real_res = [], [], []
    reqs = []
    for P in b["P"]:
        _, psamples, recs = R.load_vcf(P)
        parsed.append((psamples, recs))
        reqs.append(F.readfile_request(recs, psamples, os_))
    answers = ctx.model.ask_many(reqs)
    all_ok = True
    for P, (psamples, recs), ans in zip(b["P"], parsed, answers):
        res = F.real_read_file(P, os_)
        ctx.evaluated()
        real_res.append(res)
        lean_tables.append(ans)
        kind = res.get("error", "ok")
        ctx.dist("file_reader_outcome", kind.split(":")[0])
        if "error" in res or "error" in ans:
            all_ok = False
            if res.get("error") != ans.get("error"):
                ctx.disagree("c09.readfile (outcome)", case, res.get("error", "ok"), ans.get("error", "ok"))
            continue
        if res["ploidy"] != ans["ploidy"]:
            ctx.disagree("c09.readfile (ploidy)", case, res["ploidy"], ans["ploidy"])
        it, lt = F.canon_real_tables(res), F.canon_lean_tables(ans)
        if it != lt:
            diff = next(((x, y) for x, y in zip(it, lt) if x != y), (len(it), len(lt)))
            ctx.disagree("c09.readfile", case, str(diff[0])[:600], str(diff[1])[:600])
        # independent decoder, all samples: what the reader stores is what the record says (multi-sample view)
        acc = dict()
        for (chrom, keep), (_, _, rows) in zip(F.accepted_indices(recs, os_), res["tables"]):
            if len(keep) != len(rows):
                ctx.disagree("reader keeps other records than the skipping rules say", case, [r[0] for r in rows], [recs[i]["pos"] for i in keep])
                continue
            for i, (pos, ref, alt, calls) in zip(keep, rows):
                for si, (g, p, q) in enumerate(calls):
                    hp, gp = indep_decode(recs[i], si)
                    want = gp if gp is not None else hp
                    got = None if p is None else (p[0], tuple(p[1]))
                    if want != "bad" and got != want:
                        ctx.disagree("VcfReader(phases=True) vs independent decoder (multi-sample)", case, str(got), str(want))
        if any(p is not None for _, _, rows in res["tables"] for _, _, _, calls in rows for _, p, _ in calls):
            ctx.nontrivial(("file-read", case["gen_seed"], P[-6:]))

    # ---- 2. PhasedInputReader: the phase files as pseudo reads for the variants of V
    try:
        with VcfReader(b["V"], only_snvs=os_) as rv:
            vtables = list(rv)
    except Exception as e:  # noqa: BLE001 - an unsorted variant file: nothing to ask the PhasedInputReader for
        ctx.dist("file_V_unreadable", type(e).__name__)
        vtables = []
    queries, qmeta = [], []
    for t in vtables:
        for s in b["samples"]:
            gts = t.genotypes_of(s)
            inv = [v for v, g in zip(t.variants, gts) if not g.is_none() and not g.is_homozygous()]
            if rng.random() < 0.25:
                inv = [v for v in t.variants if rng.random() < 0.7]           # any variant list is a legal argument
            queries.append((t.chromosome, inv, s))
            qmeta.append([[v.position, v.reference_allele, v.alternative_allele] for v in inv])
    real_pi, ids = F.real_phase_input(b["P"], os_, queries)
    ctx.evaluated()
    if isinstance(real_pi, dict):
        if all_ok:
            ctx.disagree("PhasedInputReader.read_vcfs raises although every file reads", case, real_pi, "ok")
    elif not all_ok:
        ctx.disagree("PhasedInputReader.read_vcfs accepts files the reader rejects", case, "ok", [a.get("error") for a in lean_tables])
    else:
        files = [F.ptables(ans, recs, psamples, os_) for ans, (psamples, recs) in zip(lean_tables, parsed)]
        reqs = [{"op": "c09.phaseinput", "files": files, "nPaths": 0, "chrom": chrom, "sample": s, "sampleId": r["sample_id"],
                 "inputVariants": iv} for (chrom, _, s), iv, r in zip(queries, qmeta, real_pi)]
        n_reads = 0
        for (chrom, _, s), r, ans in zip(queries, real_pi, ctx.model.ask_many(reqs)):
            if "crash" in r:
                h.fail(f"PhasedInputReader.read({chrom}, …, {s}) raises {r['crash']} on phase-input VCFs that whatshap's reader accepts",
                       "phase-input-crash", "P")
                continue
            if "reads" not in ans:
                ctx.disagree("c09.phaseinput", case, "ok", ans); continue
            lean = sorted([x["name"], x["source_id"], x["sample_id"], x["variants"]] for x in ans["reads"])
            n_reads += len(lean)
            if lean != r["reads"] or sorted(ans["source_ids"]) != r["source_ids"]:
                ctx.disagree("c09.phaseinput", case, {"chrom": chrom, "sample": s, "reads": r["reads"][:4], "src": r["source_ids"]},
                             {"reads": lean[:4], "src": ans["source_ids"]})
            if not r["sorted"]:
                h.fail(f"PhasedInputReader.read({chrom}, {s}) returns a read set that is not sorted by first position", "readset-unsorted", "P")
            # direct statement per file (the property's reading of a phase input): the reads of file i are its phase sets
            # restricted to the shared heterozygous variants
        ctx.dist("file_pseudo_reads", min(n_reads, 40) // 4 * 4)
        if n_reads:
            ctx.nontrivial(("file-pi", case["gen_seed"]))

    # ---- 3. the writer on the first phase file (it carries phase information of every kind already)
    psamples, recs = parsed[0]
    targets = [s for s in psamples if not case["sample_subset"] or rng.random() < 0.6] or psamples[:1]
    rng.shuffle(targets)
    chroms = sorted({r["chrom"] for r in recs})
    chroms_on = [c for c in chroms if not case["chrom_subset"] or rng.random() < 0.5]
    plan = F.gen_plan(rng, recs, psamples, targets, chroms_on, dense=bool(case.get("dense_plan")))
    out = os.path.join(d, "W.vcf")
    rm, tag = case["rm"], case["tag"]
    err = F.real_write(b["P"][0], out, tag, os_, rm, plan)
    ctx.evaluated()
    ctx.dist("file_writer", ("rm" if rm else "keep") + "/" + tag + ("/err" if err else ""))
    cfg = {"tag": tag, "onlySnvs": os_, "mav": False, "repaired": True, "samples": psamples, "targets": []}
    blocks = R.chrom_blocks(recs)
    if rm:
        # chromosome names may repeat (split contig): the model's cfgOf is keyed by name, and so is the plan
        req = {"op": "c09.writefile", "cfg": cfg,
               "groups": [{"chrom": c, "targets": ts, "records": [R.model_record(recs[i], psamples) for i in idxs]}
                          for (c, ts), (_, idxs) in zip(plan, blocks)]}
        ans = ctx.model.ask_many([req])[0]
        mrecs = [(r, None) for g in ans for r in g["records"]] if isinstance(ans, list) else None
        merr = None
        if isinstance(ans, list):
            xs = ctx.model.ask_many([{"op": "c09.writex", "rm": True, "cfg": dict(cfg, targets=ts),
                                      "records": [R.model_record(recs[i], psamples) for i in idxs]} for (c, ts), (_, idxs) in zip(plan, blocks)])
            merr = any(o["err"] for x in xs for o in x)
            if [o["record"] for x in xs for o in x] != [r for r, _ in mrecs]:
                ctx.disagree("c09.writefile vs c09.writex(rm=true)", case, "writeFile", "writeChromX true")
    else:
        import inspect
        from whatshap.vcf import PhasedVcfWriter
        # fixes/F65.patch present in the working tree?  (keep mode: a call phased anew first loses its old phase information)
        f65 = "self._remove_existing_phasing(record, [sample])" in inspect.getsource(PhasedVcfWriter.write)
        ctx.dist("file_keep_mode_code", "F65-fixed" if f65 else "as-coded")
        xs = ctx.model.ask_many([{"op": "c09.writex", "rm": False, "f65": f65, "cfg": dict(cfg, targets=ts),
                                  "records": [R.model_record(recs[i], psamples) for i in idxs]} for (c, ts), (_, idxs) in zip(plan, blocks)])
        mrecs = [(o["record"], None) for x in xs for o in x]
        merr = any(o["err"] for x in xs for o in x)
    if err and err.startswith("refused:"):
        ctx.observe("PhasedVcfWriter refuses the input file: " + err[8:60])
    elif err and err.startswith("crash:"):
        h.fail(f"PhasedVcfWriter.write raises {err[6:]}", "writer-crash", "W")
    elif err or merr:
        if bool(err) != bool(merr):
            ctx.disagree("writer KeyError (record without GT)", case, err, merr)
    elif mrecs is None:
        ctx.disagree("c09.writefile", case, "ok", ans)
    else:
        try:
            _, _, rout = R.load_vcf(out)
        except (OSError, ValueError) as e:
            if not rm and tag == "HP":
                # a target call that keeps its old phased GT gets no HP value at all when HP is new in the record: NUL byte
                # (F21 again); not reachable from a command line (haplotagphase always writes PS)
                ctx.observe("remove_existing_phasing=False with tag HP: output unparsable (HP never set for a call that keeps its phase)")
            else:
                h.fail(f"output of PhasedVcfWriter.write cannot be parsed by htslib ({e})", "output-unparsable", "W")
            rout = None
        if rout is not None:
            if len(rout) != len(mrecs):
                ctx.disagree("c09.write* (record count)", case, len(rout), len(mrecs))
            else:
                for i, (ro, (mr, _)) in enumerate(zip(rout, mrecs)):
                    diff = F.record_diff(R.model_record(ro, psamples), mr)
                    if diff:
                        ctx.disagree("c09.writefile" if rm else "c09.writex(rm=false)", case,
                                     {"record": i, "pos": ro["pos"], "impl": diff[0]}, {"model": diff[1]})
                        break
            if all(recs[a]["pos"] <= recs[b]["pos"] for _, idxs in blocks for a, b in zip(idxs, idxs[1:])):
                # (an unsorted variant file never reaches the writer: `whatshap phase` reads it first and raises VcfNotSortedError)
                file_writer_oracle(h, case, recs, rout, psamples, targets, plan, rm, tag, os_)
    ctx.sample({"case": case, "fails": h.fails})
    if not os.environ.get("C09_KEEP"):
        shutil.rmtree(d, ignore_errors=True)


def file_writer_oracle(h, case, rin, rout, samples, targets, plan, rm, tag, only_snvs):
    """the property on the writer's output for arbitrary super-reads / components: with removal, a target call decodes to
    exactly what this call of write() had to state (nothing on a chromosome written with empty super-reads: there the
    record must be unchanged); without removal (haplotagphase) a call that is not phased anew keeps what it had"""
    elig = eligible_first(rin, only_snvs)
    by_rec = {}
    for (chrom, ts), (_, idxs) in zip(plan, R.chrom_blocks(rin)):
        for i in idxs:
            by_rec[i] = ts
    n_written = 0
    stated = []
    for i, (ri, ro) in enumerate(zip(rin, rout)):
        ts = {t["name"]: t for t in by_rec[i]}
        for si, s in enumerate(samples):
            before, after = indep_decode(ri, si), indep_decode(ro, si)
            if s not in ts and "PS" not in ri["format"] and "PS" in ro["format"] and before[1] is not None and after[1] is not None:
                # a phased GT without a PS key is block 0 for the reader (`call.get("PS", 0)`); once the record has the key
                # (written for a target) the same call reads as block None: the call itself is unchanged
                before = (before[0], (None, before[1][1]))
            if s not in ts:
                if before != after or ri["calls"][si].get("GT") != ro["calls"][si].get("GT"):
                    h.fail(f"sample {s} {ri['chrom']}:{ri['pos'] + 1}: not a target of this write() call, but its phase information changed "
                           f"from {before} to {after}", "non-target-changed", "W")
                    return
                continue
            t = ts[s]
            want = None
            if i in elig:
                comps = dict(map(tuple, t["comps"]))
                ph = {}
                for (p0, a), (_, b2) in zip(t["sr0"], t["sr1"]):
                    if a in (0, 1) and b2 in (0, 1):
                        ph[p0] = (a, b2)
                p = ri["pos"]
                if p in comps and p in ph and ph[p][0] != ph[p][1]:
                    want = (comps[p] + 1, ph[p])
            hp, gp = after
            got = gp if gp is not None else hp
            if want is not None:
                n_written += 1
                stated.append((ri["chrom"], ri["pos"]))
                if not rm and tag == "HP":
                    # without removal the genotype is not sorted, and `_set_HP` relies on a sorted genotype (F4b): not reachable
                    # from a command line (haplotagphase, the only caller with remove_existing_phasing=False, writes PS)
                    if got != want:
                        h.ctx.observe("remove_existing_phasing=False with tag HP on an unsorted genotype decodes to the opposite phase")
                elif got != want or (hp is not None and gp is not None):
                    if rm or hp is None or gp is None:
                        h.fail(f"sample {s} {ri['chrom']}:{ri['pos'] + 1}: write() had to state {want}, the call decodes to HP={hp} GT/PS={gp} "
                               f"(tag {tag}, remove_existing_phasing={rm})", "decode-differs", "W")
                        return
            elif rm and (hp is not None or gp is not None):
                h.fail(f"sample {s} {ri['chrom']}:{ri['pos'] + 1}: decodable phase HP={hp} GT/PS={gp} was not written by this write() call "
                       f"(tag {tag})", "stale-phase", "W")
                return
    if n_written:
        h.ctx.nontrivial(("file-write", case["gen_seed"]))
    runs = R.chrom_blocks(rin)
    if len({c for c, _ in runs}) == len(runs):
        nb = boundary_coincidences([c for c, _ in runs], stated)
        h.ctx.dist("file_writer_boundary_coincidences", min(nb, 2))
        if nb:
            h.ctx.nontrivial(("file-write-boundary", case["gen_seed"]))


# ------------------------------------------------------------------------------------------------
# F65: haplotagphase (the writer with remove_existing_phasing=False) on a file phased with --tag HP
# ------------------------------------------------------------------------------------------------

def run_haplotagphase_case(ctx, case, n):
    """phase --tag T -> haplotag -> every second phased call unphased -> haplotagphase: the output must not carry both
    encodings in one call and whatshap must be able to read it.  On /repo without fixes/F65.patch this fails for T = HP (the
    writer tags an HP-phased call with PS without removing HP); it is haplotagphase's behaviour (C17's command), so it is
    recorded as an observation until the patch is in the working tree and checked as a regression from then on."""
    import gzip, inspect, random
    import pysam
    from whatshap.vcf import PhasedVcfWriter
    f65 = "self._remove_existing_phasing(record, [sample])" in inspect.getsource(PhasedVcfWriter.write)
    d = os.path.join(ctx.workdir(), f"case{n}")
    shutil.rmtree(d, ignore_errors=True)
    os.makedirs(d)
    rng = random.Random(case["gen_seed"])
    sc = sim.Scenario(rng, n_variants=(6, 10), depth=(5, 8), read_len=(150, 300))
    fa, bam, vcf = sc.write(d)
    tag = case["tag"]

    def run(args):
        rc, so, se, _ = R.run_whatshap(ctx, args)
        ctx.evaluated()
        return rc, se
    ok = run(["phase", "--tag", tag, "-r", fa, "-o", d + "/ph.vcf", vcf, bam])[0] == 0
    if ok:
        pysam.tabix_index(d + "/ph.vcf", preset="vcf", force=True)
        ok = run(["haplotag", "-r", fa, "-o", d + "/tag.bam", d + "/ph.vcf.gz", bam])[0] == 0
    if ok:
        pysam.index(d + "/tag.bam")
        lines, k = [], 0
        for line in gzip.open(d + "/ph.vcf.gz", "rt"):
            if not line.startswith("#"):
                c = line.rstrip("\n").split("\t")
                keys, v = c[8].split(":"), c[9].split(":")
                if tag == "HP" and "HP" in keys and v[keys.index("HP")] not in (".", ""):
                    k += 1
                    if k % 2 == 0:
                        v[keys.index("HP")] = "."
                elif tag == "PS" and "|" in v[0]:
                    k += 1
                    if k % 2 == 0:
                        v[0] = "/".join(sorted(v[0].split("|")))
                        v[keys.index("PS")] = "."
                c[9] = ":".join(v); line = "\t".join(c) + "\n"
            lines.append(line)
        open(d + "/part.vcf", "w").write("".join(lines))
        pysam.tabix_index(d + "/part.vcf", preset="vcf", force=True)
        rc, se = run(["haplotagphase", "-r", fa, "-o", d + "/re.vcf", d + "/part.vcf.gz", d + "/tag.bam"])
        ok = rc == 0
    ctx.dist("haplotagphase_after_tag", tag + ("" if ok else "/no-run"))
    if ok:
        _, samples, recs = R.load_vcf(d + "/re.vcf")
        both = [r["pos"] + 1 for r in recs if all(x is not None for x in indep_decode(r, 0))]
        wr = whatshap_read(d + "/re.vcf", samples[0], False)
        if both or isinstance(wr, tuple):
            what = (f"phase --tag {tag} -> haplotag -> partial unphase -> haplotagphase: calls at {both[:6]} carry HP and a phased GT/PS "
                    f"at once; whatshap's reader on the output: {wr[1] if isinstance(wr, tuple) else 'ok'}")
            if f65:
                ctx.fail(what, case, key="haplotagphase-mixed")
            else:
                ctx.observe("F65 (fixes/F65.patch not in the working tree): haplotagphase on HP-encoded input writes both encodings into "
                            "one call; whatshap rejects the output with MixedPhasingError")
        elif any(v is not None for v in wr.values()):
            ctx.nontrivial(("haplotagphase", case["gen_seed"], tag))
    shutil.rmtree(d, ignore_errors=True)


# ------------------------------------------------------------------------------------------------
# round 10: text level, passthrough, indexed fetch
# ------------------------------------------------------------------------------------------------

def _canon_text(res):
    """model / real outcome of one column -> comparable value"""
    if "error" in res:
        return ("error", res["error"])
    return ("ok", json.dumps(res.get("hp"), sort_keys=True), json.dumps(res.get("gtps"), sort_keys=True))


def check_text_columns(ctx, case, path, limit=120):
    """every sample column of a VCF (whatshap output): the raw text through Lean `c09.text` == the real extractors on the
    pysam record"""
    import pysam
    lines = [ln.rstrip("\n").split("\t") for ln in open(path) if not ln.startswith("#")]
    reqs, reals = [], []
    try:
        vf = pysam.VariantFile(path)
    except (OSError, ValueError):
        return
    with vf:
        for cols, rec in zip(lines, vf):
            if len(reqs) >= limit:
                break
            keys = cols[8].split(":")
            nal = 1 + (0 if cols[4] == "." else len(cols[4].split(",")))
            for si, col in enumerate(cols[9:]):
                vals = col.split(":")
                req = {"op": "c09.text", "nal": nal, "gt": None, "ps": None, "hp": "absent"}
                for i, k in enumerate(keys):
                    dropped = i >= len(vals)
                    if k == "GT":
                        req["gt"] = "." if dropped else vals[i]
                    elif k == "PS":
                        req["ps"] = "." if dropped else vals[i]
                    elif k == "HP":
                        req["hp"] = "dropped" if dropped else {"t": vals[i]}
                reqs.append(req)
                reals.append(T.real_decode_record(rec, si))
    for req, real, ans in zip(reqs, reals, ctx.model.ask_many(reqs)):
        ctx.evaluated()
        if _canon_text(real) != _canon_text(ans["res"]):
            ctx.disagree("c09.text (CLI column)", case, {"col": req, "real": real}, ans["res"])
        ctx.dist("text_cli_column", "hp" if real.get("hp") else "gtps" if real.get("gtps") else real.get("error", "none"))


def run_text_case(ctx, case, n):
    import random
    rng = random.Random(case["gen_seed"])
    d = ctx.workdir()
    os.makedirs(d, exist_ok=True)
    path = os.path.join(d, f"text{n}.vcf")
    cols = [T.gen_column(rng) for _ in range(case.get("n_cols", 60))]
    answers = ctx.model.ask_many([c["req"] for c in cols])
    for c, ans in zip(cols, answers):
        real = T.real_decode_column(path, c["alts"], c["format"], c["col"])
        ctx.evaluated()
        kind = real.get("error", "ok")
        ctx.dist("text_outcome", kind)
        if _canon_text(real) != _canon_text(ans["res"]):
            ctx.disagree("c09.text", dict(case, column=[c["alts"], c["format"], c["col"]]), real, ans)
        elif real.get("hp") or real.get("gtps"):
            ctx.nontrivial(("text", case["gen_seed"], c["format"], c["col"]))
    # the writer's tokens: real _set_HP / _set_PS on a pysam record == Lean render; written text decodes to what was written
    for _ in range(case.get("n_set", 12)):
        comp = rng.choice([0, rng.randrange(0, 50), rng.randrange(0, 3_000_000), 2147483646])
        tag = rng.choice(["HP", "PS"])
        if tag == "HP":
            phase = rng.choice([[0, 1], [1, 0], [0, 1], [1, 0], [0, 0], [1, 1, 0], [0, 1, 1, 0], [1]])
        else:
            phase = [rng.randrange(0, 4) for _ in range(rng.choice([1, 2, 2, 2, 3, 4]))]
        toks = T.real_set_tokens(path, comp, phase, tag)
        ans = ctx.model.ask("c09.render", pairs=[[comp + 1, a + 1] for a in phase], ps=comp + 1, gt=phase, phased=True)
        ctx.evaluated()
        want = {"HP": ans["hp"]} if tag == "HP" else {"PS": ans["ps"], "GT": ans["gt"]}
        got = {k: toks.get(k) for k in want}
        if got != want:
            ctx.disagree("c09.render", dict(case, comp=comp, phase=phase, tag=tag), got, want)
        # property at token level: the text the encoder wrote decodes (through htslib, pysam and the real decoder) to the statement
        if tag == "HP" and sorted(phase) == [0, 1]:
            real = T.real_decode_column(path, "C,G,T", "GT:HP", "0/1:" + toks["HP"])
            exp = {"hp": {"block": comp + 1, "alleles": phase}, "gtps": None}
        elif tag == "PS" and len(set(phase)) > 1:
            real = T.real_decode_column(path, "C,G,T", "GT:PS", toks["GT"] + ":" + toks["PS"])
            exp = {"hp": None, "gtps": {"block": comp + 1, "alleles": phase}}
        else:
            continue
        if real != exp:
            ctx.fail(f"the text written by _set_{tag} for component {comp}, phase {phase} ({toks}) decodes to {real}, not to what was written",
                     dict(case, comp=comp, phase=phase, tag=tag), key="text-roundtrip")
    if os.path.exists(path):
        os.remove(path)


def run_passthrough_case(ctx, case, n):
    import random
    rng = random.Random(case["gen_seed"])
    g = T.gen_passthrough(rng)
    d = os.path.join(ctx.workdir(), f"pt{n}")
    real = T.real_passthrough(d, g["file"], g["plan"])
    shutil.rmtree(d, ignore_errors=True)
    ans = ctx.model.ask("c09.passthrough", file=g["file"], plan=g["plan"])
    ctx.evaluated()
    ctx.dist("passthrough_outcome", real.get("error", "ok"))
    if "error" in ans or "error" in real:
        if ans.get("error") != real.get("error"):
            ctx.disagree("c09.passthrough (outcome)", dict(case, **g), real.get("error", "ok"), ans.get("error", "ok"))
        return
    # the stale `_unprocessed_record` that a repeated call yields again is the SAME pysam object an earlier `write` modified in
    # place (the model's records are values): a record once handed to `write` stays modified
    exp, touched = [], set()
    for out in ans["outs"]:
        for i in out:
            if i >= 1000000:
                touched.add(i % 1000000)
            exp.append(T.passthrough_line(i % 1000000, g["file"][i % 1000000], (i % 1000000) in touched))
    if exp != real["body"]:
        ctx.disagree("c09.passthrough", dict(case, **g), real["body"], exp)
    # oracle (no model): on a plan that visits every contig once in file order the records of a write_unchanged contig come
    # out byte-identical and in place, those of a written contig lose their phase
    contigs = [c for i, c in enumerate(g["file"]) if i == 0 or g["file"][i - 1] != c]
    if [c for c, _ in g["plan"]] == contigs:
        mode = dict((c, w) for c, w in g["plan"])
        want = [T.passthrough_line(i, c, mode[c]) for i, c in enumerate(g["file"])]
        if want != real["body"]:
            bad = next((k for k, (a, b) in enumerate(zip(want, real["body"])) if a != b), min(len(want), len(real["body"])))
            ctx.fail(f"write_unchanged / write over the contigs {g['plan']}: output record {bad} differs from the expected one "
                     f"({len(real['body'])} records written, {len(want)} expected)", dict(case, **g), key="write-unchanged")
        if any(not w for _, w in g["plan"]):
            ctx.nontrivial(("passthrough", case["gen_seed"]))


def run_fetch_case(ctx, case, n):
    import random
    from whatshap.vcf import VcfReader
    rng = random.Random(case["gen_seed"])
    g = T.gen_fetch(rng)
    d = os.path.join(ctx.workdir(), f"fetch{n}")
    gz = T.build_indexed(d, g["sites"], rng)
    try:
        with VcfReader(gz, phases=True) as r:
            it = {t.chromosome: T.table_json(t) for t in r}
        for c in g["contigs"]:
            with VcfReader(gz, phases=True) as r:
                ft = T.table_json(r.fetch(c))
            ctx.evaluated()
            if c in it and ft != it[c]:
                ctx.fail(f"VcfReader.fetch({c!r}) returns {len(ft[1])} variants {ft[1][:3]}…, the iteration {len(it[c][1])} {it[c][1][:3]}… "
                         f"(sites {[(s[1] + 1, s[2]) for s in g['sites'] if s[0] == c][:6]}…)", dict(case, **g), key="fetch-vs-iterate")
            if c in it and any(s[0] == c and s[1] == 0 for s in g["sites"]) and any(s[0] == c and s[1] == 99999 for s in g["sites"]):
                ctx.nontrivial(("fetch", case["gen_seed"], c))
            # record level: htslib's region query == Lean fetchRecs, for fetch() itself and for arbitrary regions
            with VcfReader(gz) as r:
                ids = [[int(rec.id[1:]) for rec in r._fetch(c)]] + [[int(rec.id[1:]) for rec in r._fetch(c, start=s, end=e)] for s, e in g["regions"]]
            answers = ctx.model.ask_many([{"op": "c09.fetch", "sites": g["sites"], "chrom": c, "regions": [reg]} for reg in g["regions"]])
            if ids[0] != answers[0]["fetch"]:
                ctx.disagree("c09.fetch", dict(case, **g, chrom=c), ids[0], answers[0]["fetch"])
            for reg, real, ans in zip(g["regions"], ids[1:], answers):
                if real != ans["regions"]:
                    ctx.disagree("c09.fetch (region)", dict(case, **g, chrom=c, region=reg), real, ans["regions"])
        with VcfReader(gz) as r:
            runs = [[c, [int(rec.id[1:]) for rec in recs]] for c, recs in __import__("itertools").groupby(r._vcf_reader, lambda rec: rec.chrom)]
        ans = ctx.model.ask("c09.fetch", sites=g["sites"], chrom=g["contigs"][0], regions=[])
        if runs != ans["runs"]:
            ctx.disagree("c09.fetch (runs)", dict(case, **g), runs, ans["runs"])
    finally:
        shutil.rmtree(d, ignore_errors=True)


def run(ctx):
    cases = [c for _, c in ctx.corpus()]
    if ctx.replay:
        cases = [json.load(open(ctx.replay))["case"]]
    n = 0
    for c in cases:
        {"interleaved": run_interleaved, "file": run_file_case, "haplotagphase": run_haplotagphase_case, "text": run_text_case,
         "passthrough": run_passthrough_case, "fetch": run_fetch_case}.get(c.get("kind"), run_case)(ctx, c, n); n += 1
    if ctx.replay:
        return
    streams = os.environ.get("C09_STREAMS", "hist,inter,table,stack,file,htp,text,pass,fetch").split(",")     # development aid: run a subset of the streams
    for _ in range((8 if ctx.quick else 60) * ctx.scale if "hist" in streams else 0):
        run_case(ctx, gen_case(ctx.rng, scale=1 if ctx.quick else 2), n); n += 1
    # generator-written phase inputs with interleaved / nested phase sets: run Q + in-process pseudo reads
    for _ in range((6 if ctx.quick else 60) * ctx.scale if "inter" in streams else 0):
        run_interleaved(ctx, gen_interleaved_case(ctx.rng), n); n += 1
    for _ in range((30 if ctx.quick else 600) * ctx.scale if "table" in streams else 0):
        run_interleaved(ctx, gen_interleaved_case(ctx.rng, cli=False), n); n += 1
    # several unrelated samples in one file, per sample 2 .. cap (and a few more) mutually overlapping phase sets, default and
    # explicit --internal-downsampling: run Q + in-process pseudo reads
    for _ in range((8 if ctx.quick else 80) * ctx.scale if "stack" in streams else 0):
        run_interleaved(ctx, gen_stack_case(ctx.rng, quick=ctx.quick), n); n += 1
    for _ in range((80 if ctx.quick else 2500) * ctx.scale if "file" in streams else 0):
        run_file_case(ctx, gen_file_case(ctx.rng, ctx.quick), n); n += 1
    for k in range((2 if ctx.quick else 20) * ctx.scale if "htp" in streams else 0):
        run_haplotagphase_case(ctx, {"kind": "haplotagphase", "gen_seed": ctx.rng.randrange(1 << 40), "tag": ["HP", "PS"][k % 2]}, n); n += 1
    for _ in range((5 if ctx.quick else 60) * ctx.scale if "text" in streams else 0):
        run_text_case(ctx, {"kind": "text", "gen_seed": ctx.rng.randrange(1 << 40), "n_cols": 60, "n_set": 12}, n); n += 1
    for _ in range((40 if ctx.quick else 600) * ctx.scale if "pass" in streams else 0):
        run_passthrough_case(ctx, {"kind": "passthrough", "gen_seed": ctx.rng.randrange(1 << 40)}, n); n += 1
    for _ in range((12 if ctx.quick else 200) * ctx.scale if "fetch" in streams else 0):
        run_fetch_case(ctx, {"kind": "fetch", "gen_seed": ctx.rng.randrange(1 << 40)}, n); n += 1
    if os.environ.get("C09_DEBUG"):                     # development aid: all disagreements, not only the first
        import collections
        cnt = collections.Counter(op for op, _, _, _ in ctx.disagreements)
        print("C09_DEBUG", dict(cnt))
        seen = set()
        for op, case, impl, model in ctx.disagreements:
            if op not in seen:
                seen.add(op)
                print("C09_DEBUG", op, "seed", case.get("gen_seed"), "\n   impl:", str(impl)[:700], "\n  model:", str(model)[:700])
    try:
        os.rmdir(ctx.workdir())
    except OSError:
        pass

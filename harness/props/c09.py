"""C09 — PS and HP encodings are equivalent, round-trip, and never mix old and new phase.

A case is a *history* of real CLI runs over one generated variant file (mixed `0/1` / `1/0` unphased genotypes,
optional pre-existing PS/HP phase, decoy multi-ALT / duplicate records with phase of their own):

  (plus: generator-written phased VCFs with interleaved / nested phase sets as the phase input of run Q and as in-process
   input of the real `phased_blocks_as_reads` — whatshap's own outputs only ever have contiguous sets)

  A = phase(in, tag1)   B = phase(in, tag2)   C = phase(A, tag2 [, --sample subset])   U = unphase(C)
  D = phase(U, tag1)    Q = phase(in, phase input = A only)            (tag2 = the other tag)

Oracle on every phase output, per target sample (independent decoder on the pysam-parsed records, expected
phase from the trace): every decodable phase statement is the one this run wrote and every written one decodes
to itself (round trip + no stale phase + never both encodings in one call); A and B decode equally (PS ≡ HP);
whatshap's own reader accepts the output; Q reproduces every phase set of A with >= 2 variants up to swapping the
haplotypes.  Correspondence: whatshap's `VcfReader(phases=True)` == Lean `c09.read` == independent decoder on the
records the reader accepts; the pseudo reads of run Q (trace) == Lean `c09.reads`.
"""
import json, os, shutil

from harness.gen import sim
from harness.gen import c04_records as R
from harness.gen.c09_hist import gen_case, build_inputs, gen_interleaved_case, build_interleaved

RULE = ("one history of 6 CLI runs (phase with PS, phase with HP, re-phase of the phased file with the other tag "
        "(optionally a sample subset), unphase, phase again, phase with the phased VCF as only phase input) over a "
        "generated multi-sample variant file with mixed 0/1 and 1/0 genotypes, optional pre-existing PS/HP phase and decoy "
        "records, optionally --distrust-genotypes / --only-snvs. Non-trivial: run A phased at least one set with >= 2 "
        "variants; distinct = distinct (generator seed, options). Additionally generator-written phase inputs (PS or HP encoded, "
        "1-3 samples, 2-3 phase sets per sample laid out interleaved / nested / contiguous): the real phased_blocks_as_reads "
        "in-process, and run Q on them; non-trivial there: a multi-variant set has a member of another multi-variant set "
        "between two of its members")
MANIFEST = dict(
    text="Lean 4 theorems about the encoders (_set_PS/_set_HP), the tag-independent removal and the two decoders: "
         "ps_roundtrip, hp_roundtrip, decode_written (master lemma: after write exactly the new statement decodes, through "
         "the decoder of the tag only), ps_hp_equivalent, rephase_no_stale_phase, pseudo reads complementary/cover; F4 "
         "witnesses on the faithful model; tied to the working tree by pipeline histories of real CLI runs decoded by "
         "whatshap's reader, the Lean decoder and an independent decoder",
    design_ref="DESIGN.md §5 C09, §6 F4",
    note="trusted: Lean kernel; hand-written model (differential: quick 8 histories = 48 CLI runs, thorough 60); the HP text "
         "codec and htslib parsing are in the harness. F4 (a: old encoding kept when re-phasing with the other tag, "
         "b: _set_HP assumes sorted GT) and F21 (HP written as NUL byte when no sample of a record has an HP value) are "
         "genuine defects of /repo: reported until fixes/F4.patch is applied. Pseudo-read reproduction is checked on "
         "pipeline runs (the solver/optimality part is C01/C03's theorem, not re-proved here)",
    technique="Lean 4 proof on record-level codec/writer model + differential correspondence on CLI histories",
)
ASSUMPTIONS = [
    "phase sets of the pseudo-read run fit under the coverage cap (checked per case: at most 7 blocks per sample and chromosome)",
    "the trace hook reports the super-reads and components that `PhasedVcfWriter.write` received",
]


# ------------------------------------------------------------------------------------------------
# independent decoding
# ------------------------------------------------------------------------------------------------

def eligible_first(records, only_snvs):
    """indices of the records that stand for 'the variant at this position' (what whatshap's reader keeps)"""
    keep, prev, chrom = set(), None, None
    for i, r in enumerate(records):
        if r["chrom"] != chrom:
            chrom, prev = r["chrom"], None
        if not r["alts"] or len(r["alts"]) > 1:
            continue
        if only_snvs and not (len(r["ref"]) == 1 and len(r["alts"][0]) == 1):
            continue
        if prev == r["pos"]:
            continue
        prev = r["pos"]
        keep.add(i)
    return keep


def indep_decode(rec, si):
    """(hp phase | None | 'bad', gtps phase | None) of sample column si; a phase is (block, alleles tuple)"""
    c = rec["calls"][si]
    gt = c.get("GT")
    hp = None
    v = c.get("HP")
    if "HP" in rec["format"] and v not in R.MISSING and not (isinstance(v, tuple) and all(x in (None, ".", "") for x in v)):
        parsed = R.parse_hp(v)
        if parsed is None or gt is None or gt[0] is None or len({b for b, _ in parsed}) != 1:
            hp = "bad"
        else:
            order = [h for _, h in parsed]
            try:
                hp = (parsed[0][0], tuple(gt[0][order.index(i + 1)] for i in range(len(order))))
            except (ValueError, IndexError):
                hp = "bad"
    gp = None
    if gt is not None and gt[0] is not None and gt[1] and len(gt[0]) > 1 and not all(a == gt[0][0] for a in gt[0]):
        gp = ((c.get("PS") if "PS" in rec["format"] else 0), tuple(gt[0]))
    return hp, gp


def expected_phases(trace):
    """{sample: {(chrom, pos): (block, (a0, a1))}}: the phase statements this run had to write"""
    exp = {}
    for t in trace:
        comps = dict(map(tuple, t["overall_components"]))
        for s in t["family"]:
            e = exp.setdefault(s, {})
            sr = t["superreads"][s]
            for v0, v1 in zip(sr[0]["variants"], sr[1]["variants"]):
                if v0[1] in (0, 1) and v1[1] in (0, 1) and v0[1] != v1[1] and v0[0] in comps:
                    e[(t["chromosome"], v0[0])] = (comps[v0[0]] + 1, (v0[1], v1[1]))
    return exp


def single_sample_vcf(path, si, out):
    with open(path) as f, open(out, "w") as g:
        for line in f:
            if line.startswith("##"):
                g.write(line)
            else:
                cols = line.rstrip("\n").split("\t")
                g.write("\t".join(cols[:9] + [cols[9 + si]]) + "\n")
    return out


def whatshap_read(path, sample, only_snvs):
    """phases as whatshap's own reader sees them: {(chrom,pos): (block, alleles)} or ('error', type name)"""
    from whatshap.vcf import VcfReader
    out = {}
    try:
        reader = VcfReader(path, only_snvs=only_snvs, phases=True)
        try:
            for table in reader:
                for v, p in zip(table.variants, table.phases_of(sample)):
                    out[(table.chromosome, v.position)] = None if p is None else (p.block_id, tuple(p.phase))
        finally:
            reader.close()
    except Exception as e:  # noqa: BLE001 - every exception type is an observable here
        return ("error", type(e).__name__)
    return out


# ------------------------------------------------------------------------------------------------
# one history
# ------------------------------------------------------------------------------------------------

class Hist:
    def __init__(self, ctx, case, d, opts=None):
        self.ctx, self.case, self.d = ctx, case, d
        self.opts = opts if opts is not None else case["opts"]
        self.fails = []

    def fail(self, what, key, step):
        self.fails.append(key)
        self.ctx.fail(f"[{step}] {what}", self.case, key=key)

    def phase(self, name, variant_vcf, phase_inputs, tag, fa, samples=None):
        o = self.opts
        out = os.path.join(self.d, name + ".vcf")
        a = ["phase", "-o", out, "--tag", tag]
        a += ["--reference", fa] if any(p.endswith(".bam") for p in phase_inputs) else ["--no-reference"]
        if o["distrust"]:
            a += ["--distrust-genotypes"]
        if o["include_hom"]:
            a += ["--include-homozygous"]
        if o["only_snvs"]:
            a += ["--only-snvs"]
        for s in samples or []:
            a += ["--sample", s]
        rc, so, se, trace = R.run_whatshap(self.ctx, a + [variant_vcf] + phase_inputs, trace=os.path.join(self.d, name + ".trace"))
        self.ctx.evaluated()
        if rc != 0:
            last = (se.strip().splitlines() or ["?"])[-1][:300]
            if "MixedPhasingError" in se or "Mixed phasing" in se:
                self.fail("whatshap refuses a file it wrote itself as input: " + last, "own-output-rejected", name)
            elif "Traceback" in se or rc < 0:
                self.fail("whatshap phase crashed: " + last, "crash", name)
            else:
                self.ctx.observe("clean command-line error: " + last[:80])
            return None
        return {"name": name, "out": out, "trace": trace, "tag": tag, "in": variant_vcf, "targets": samples}

    def check_output(self, run, samples):
        """round trip / no stale phase / no mixed encoding per target sample; returns {sample: decoded map} or None"""
        ctx, o, name = self.ctx, self.opts, run["name"]
        try:
            _, _, recs = R.load_vcf(run["out"])
        except (OSError, ValueError) as e:
            nul = bytes([0]) in open(run["out"], "rb").read()
            self.fail(f"output VCF cannot be parsed by htslib ({e}); NUL byte in the file: {nul}", "output-unparsable", name)
            return None
        ctx.validated(len(run["trace"]))
        elig = eligible_first(recs, o["only_snvs"])
        exp = expected_phases(run["trace"])
        targets = run["targets"] or samples
        decoded = {}
        reqs, meta = [], []
        for s in targets:
            si = samples.index(s)
            dec = {}
            bad = None
            for i, r in enumerate(recs):
                hp, gp = indep_decode(r, si)
                want = exp.get(s, {}).get((r["chrom"], r["pos"])) if i in elig else None
                if hp is not None and gp is not None and bad is None:
                    bad = ("mixed-encoding", f"sample {s} {r['chrom']}:{r['pos'] + 1}: the call carries HP ({hp}) and a phased GT/PS ({gp}) at once")
                got = gp if gp is not None else hp
                if i in elig:
                    dec[(r["chrom"], r["pos"])] = got
                if got != want and bad is None:
                    if want is None:
                        bad = ("stale-phase", f"sample {s} {r['chrom']}:{r['pos'] + 1} ({'/'.join(r['alts']) or '.'}): decodable phase {got} "
                                              f"was not written by this run (tag {run['tag']})")
                    else:
                        bad = ("decode-differs", f"sample {s} {r['chrom']}:{r['pos'] + 1}: written {want}, decodes to {got} (tag {run['tag']})")
            if bad:
                self.fail(bad[1], bad[0], name)
            decoded[s] = dec
            # whatshap's own reader and the Lean reader on the single-sample view
            one = single_sample_vcf(run["out"], si, os.path.join(self.d, f"{name}.{s}.vcf"))
            wr = whatshap_read(one, s, o["only_snvs"])
            if isinstance(wr, tuple):
                self.fail(f"whatshap's reader raises {wr[1]} on sample {s} of a file written by whatshap phase --tag {run['tag']}",
                          "own-output-rejected", name)
            elif not bad and wr != dec:
                diff = [(k, wr.get(k), dec.get(k)) for k in sorted(set(wr) | set(dec)) if wr.get(k) != dec.get(k)]
                ctx.disagree("VcfReader(phases=True) vs independent decoder", self.case, str(diff[:3]), name)
            for chrom, idxs in R.chrom_blocks(recs):
                rj = []
                for i in idxs:
                    m = R.model_record(recs[i], samples)
                    m["calls"] = [m["calls"][si]]
                    rj.append(m)
                reqs.append({"op": "c09.read", "onlySnvs": o["only_snvs"], "records": rj})
                meta.append((s, chrom, wr))
        for (s, chrom, wr), ans in zip(meta, ctx.model.ask_many(reqs) if reqs else []):
            if isinstance(wr, tuple):
                lean = ans.get("error")
                if lean is None and wr[1] in ("MixedPhasingError",):
                    # the error may stem from another chromosome; only compare when the file has one
                    pass
                continue
            if "error" in ans:
                ctx.disagree("c09.read", self.case, "whatshap reader ok", ans)
                continue
            lean = {(chrom, row["pos"]): (None if row["calls"][0][1] is None else
                                          (row["calls"][0][1]["block"], tuple(row["calls"][0][1]["alleles"]))) for row in ans["rows"]}
            impl = {k: v for k, v in wr.items() if k[0] == chrom}
            if lean != impl:
                diff = [(k, impl.get(k), lean.get(k)) for k in sorted(set(impl) | set(lean)) if impl.get(k) != lean.get(k)]
                ctx.disagree("c09.read", self.case, str(diff[:3]), run["name"] + "/" + s)
        return decoded


def blocks_of(dec):
    """{block: {(chrom,pos): alleles}} of a decoded map"""
    out = {}
    for k, v in dec.items():
        if v is not None:
            out.setdefault((k[0], v[0]), {})[k] = v[1]
    return out


def run_case(ctx, case, n):
    o = case["opts"]
    d = os.path.join(ctx.workdir(), f"case{n}")
    shutil.rmtree(d, ignore_errors=True)
    fa, bam, vcf, sc = build_inputs(case, d)
    samples = list(sc.samples)
    h = Hist(ctx, case, d)
    tag1 = o["tag1"]; tag2 = "HP" if tag1 == "PS" else "PS"
    ctx.dist("pre", case["vcf"]["pre"]); ctx.dist("flip", case["vcf"]["flip_prob"]); ctx.dist("n_samples", len(samples))
    ctx.dist("mode", ("distrust" if o["distrust"] else "trust") + ("+hom" if o["include_hom"] else "") + ("+snvs" if o["only_snvs"] else ""))
    subset = sorted(samples[:max(1, len(samples) // 2)]) if (o["subset"] and len(samples) > 1) else None

    A = h.phase("A", vcf, [bam], tag1, fa)
    B = h.phase("B", vcf, [bam], tag2, fa)
    decA = h.check_output(A, samples) if A else None
    decB = h.check_output(B, samples) if B else None
    if decA is not None and decB is not None:
        if json.dumps(A["trace"], sort_keys=True) != json.dumps(B["trace"], sort_keys=True):
            ctx.observe("traces of the PS and HP run differ (solver input/output should not depend on the tag)")
        elif decA != decB:
            s = next(s for s in samples if decA[s] != decB[s])
            k = next(k for k in sorted(decA[s]) if decA[s][k] != decB[s].get(k))
            h.fail(f"ps_hp_equivalent: sample {s} {k[0]}:{k[1] + 1} decodes to {decA[s][k]} from --tag {tag1} and to {decB[s].get(k)} from --tag {tag2}",
                   "ps-hp-differ", "A/B")
    if decA is not None and any(len(v) >= 2 for s in samples for v in blocks_of(decA[s]).values()):
        ctx.nontrivial((case["gen_seed"], json.dumps(o, sort_keys=True), json.dumps(case["vcf"], sort_keys=True)))
    # re-phase the phased file with the other tag
    C = h.phase("C", A["out"], [bam], tag2, fa, samples=subset) if A and decA is not None else None
    decC = h.check_output(C, samples) if C else None
    D = None
    if C and decC is not None:
        rc, so, se, _ = R.run_whatshap(ctx, ["unphase", C["out"]])
        ctx.evaluated()
        if rc != 0:
            if "Traceback" in se:
                ctx.observe("unphase crashed on a phase output (C13's subject): " + se.strip().splitlines()[-1][:80])
        else:
            U = os.path.join(d, "U.vcf")
            open(U, "w").write(so)
            D = h.phase("D", U, [bam], tag1, fa)
            decD = h.check_output(D, samples) if D else None
            if decD is not None and decA is not None and not o["distrust"] and decD != decA and json.dumps(D["trace"], sort_keys=True) == json.dumps(A["trace"], sort_keys=True):
                h.fail("phase -> re-phase(other tag) -> unphase -> phase decodes differently from the first phasing although the solver result is identical",
                       "history-differs", "D")
    # the phased VCF as the only phase input
    if A and decA is not None and not o["distrust"]:
        Q = h.phase("Q", vcf, [A["out"]], tag1, fa)
        decQ = h.check_output(Q, samples) if Q else None
        if decQ is not None:
            check_reproduction(h, {s: blocks_of(decA[s]) for s in samples}, decQ, samples, len(sc.contigs), "Q")
            check_pseudo_reads(ctx, case, A["out"], Q["trace"], samples, o["only_snvs"], vcf)
    ctx.sample({"case": case, "fails": h.fails, "blocks_A": {s: len(blocks_of(decA[s])) for s in samples} if decA else None})
    shutil.rmtree(d, ignore_errors=True)


def check_reproduction(h, sets, decQ, samples, n_contigs, step):
    """every phase set of the phase input with >= 2 shared heterozygous variants is one phase set of the output, with the
    same haplotypes up to exchanging them.  sets: {sample: {block: {(chrom,pos): alleles}}}"""
    for s in samples:
        if len(sets[s]) > 7 * max(1, n_contigs):
            h.ctx.observe("pseudo-read check skipped: too many blocks for the coverage cap")
            continue
        for b, members in sets[s].items():
            if len(members) < 2:
                continue
            got = {k: decQ[s].get(k) for k in members}
            if any(v is None for v in got.values()) or len({v[0] for v in got.values()}) != 1:
                h.fail(f"pseudo reads: phase set {b} of sample {s} ({sorted(k[1] + 1 for k in members)}) is not reproduced as one phase set: {got}",
                       "pseudo-set", step)
                break
            same = all(got[k][1] == members[k] for k in members)
            swap = all(got[k][1] == tuple(reversed(members[k])) for k in members)
            if not (same or swap):
                h.fail(f"pseudo reads: haplotypes of phase set {b} of sample {s} differ beyond a swap: {members} vs {got}", "pseudo-hap", step)
                break


def pseudo_rows(rin, rp, chrom, si, only_snvs):
    """rows of the phased file `rp` for one sample and chromosome as the Lean model / the spec want them; `wanted` = the variant
    is heterozygous (fully called) in the variant file `rin`"""
    el_in, el_p = eligible_first(rin, only_snvs), eligible_first(rp, only_snvs)
    wanted = {(r["pos"], r["ref"], r["alts"][0]) for i, r in enumerate(rin) if i in el_in and r["chrom"] == chrom
              and len(set(R.gt_code(r["calls"][si].get("GT")))) > 1}
    rows = []
    for i, r in enumerate(rp):
        if i not in el_p or r["chrom"] != chrom:
            continue
        hp, gp = indep_decode(r, si)
        ph = gp if gp is not None else hp
        rows.append({"pos": r["pos"], "wanted": (r["pos"], r["ref"], r["alts"][0]) in wanted, "gcode": R.gt_code(r["calls"][si].get("GT")),
                     "phase": None if ph in (None, "bad") else {"block": ph[0], "alleles": list(ph[1])}})
    return rows


def spec_reads(rows):
    """what `phased_blocks_as_reads` has to yield, stated directly: per phase set the two haplotypes restricted to the shared
    heterozygous variants, if there are at least two of them.  {(block, hap): [[pos, allele], ...]}"""
    out = {}
    for r in rows:
        ph = r["phase"]
        if len(r["gcode"]) != 2 or len(set(r["gcode"])) < 2 or not r["wanted"] or ph is None or ph["alleles"][0] is None:
            continue
        for i, a in enumerate(ph["alleles"]):
            out.setdefault((ph["block"], i), []).append([r["pos"], a])
    return {k: v for k, v in out.items() if len(v) > 1}


def reads_by_name(reads):
    impl = {}
    for name, variants in reads:
        parts = name.rsplit("_block_", 1)
        if len(parts) == 2 and "_phase_" in parts[0]:
            impl[(int(parts[1]), int(parts[0].rsplit("_phase_", 1)[1]))] = [list(v) for v in variants]
    return impl


def check_pseudo_reads(ctx, case, phased_path, trace, samples, only_snvs, vcf, fail=None):
    """trace of a run with a phased VCF as phase input: the candidate reads built by phased_blocks_as_reads == the direct
    statement (`spec_reads`, a property failure if not) == Lean c09.reads on the phased file's decoded rows"""
    _, _, rin = R.load_vcf(vcf)
    _, _, rp = R.load_vcf(phased_path)
    reqs, meta = [], []
    for t in trace:
        for s in t["family"]:
            rows = pseudo_rows(rin, rp, t["chromosome"], samples.index(s), only_snvs)
            reqs.append({"op": "c09.reads", "rows": rows})
            impl = reads_by_name((rd["name"], [[v[0], v[1]] for v in rd["variants"]]) for rd in t["candidates"][s]["reads"])
            meta.append((t["chromosome"], s, impl, spec_reads(rows)))
    for (chrom, s, impl, spec), ans in zip(meta, ctx.model.ask_many(reqs) if reqs else []):
        lean = {(b, i): rd for b, i, rd in ans} if isinstance(ans, list) else ans
        bad = impl != spec
        if bad and fail:
            k = next(k for k in sorted(set(impl) | set(spec), key=str) if impl.get(k) != spec.get(k))
            fail(f"pseudo reads of sample {s} on {chrom}: read {k} of the phase input should be {spec.get(k)} (its phase set restricted to the "
                 f"shared heterozygous variants) but phased_blocks_as_reads built {impl.get(k)}", "pseudo-reads")
        if lean != impl and not bad:
            ctx.disagree("c09.reads (phased_blocks_as_reads)", case, {str(k): v for k, v in impl.items()}, ans)
        if lean != spec:
            ctx.disagree("c09.reads vs direct statement", case, {str(k): v for k, v in spec.items()}, ans)


def inprocess_pseudo_reads(ctx, case, V, P, samples, fail):
    """the real VariantTable.phased_blocks_as_reads called in-process on the tables of P, against the direct statement and Lean"""
    from whatshap.vcf import VcfReader
    o_snvs = case["only_snvs"]
    _, _, rin = R.load_vcf(V)
    _, _, rp = R.load_vcf(P)
    with VcfReader(V, only_snvs=o_snvs) as rv:
        tv = {t.chromosome: t for t in rv}
    try:
        with VcfReader(P, only_snvs=o_snvs, phases=True) as rpz:
            tp = {t.chromosome: t for t in rpz}
    except Exception as e:  # noqa: BLE001
        fail(f"whatshap's reader raises {type(e).__name__} on a generator-written phased VCF ({case['enc']} encoded)", "reader-error")
        return
    reqs, meta = [], []
    for chrom, table in tp.items():
        for si, s in enumerate(samples):
            inv = [v for v, g in zip(tv[chrom].variants, tv[chrom].genotypes_of(s)) if not g.is_none() and not g.is_homozygous()]
            reads = list(table.phased_blocks_as_reads(s, inv, 7, si))
            impl = reads_by_name((r.name, [[v.position, v.allele] for v in r]) for r in reads)
            rows = pseudo_rows(rin, rp, chrom, si, o_snvs)
            spec = spec_reads(rows)
            ctx.evaluated()
            if interleaved(rows):
                ctx.nontrivial(("tbl", case["gen_seed"], chrom, s))
            if impl != spec:
                k = next(k for k in sorted(set(impl) | set(spec), key=str) if impl.get(k) != spec.get(k))
                fail(f"phased_blocks_as_reads({s}, {chrom}): read {k} should be {spec.get(k)} (its phase set restricted to the shared "
                     f"heterozygous variants) but is {impl.get(k)}", "pseudo-reads")
            reqs.append({"op": "c09.reads", "rows": rows}); meta.append((impl, spec))
    for (impl, spec), ans in zip(meta, ctx.model.ask_many(reqs) if reqs else []):
        lean = {(b, i): rd for b, i, rd in ans} if isinstance(ans, list) else ans
        if lean != spec:
            ctx.disagree("c09.reads vs direct statement", case, {str(k): v for k, v in spec.items()}, ans)
        elif lean != impl and impl == spec:
            ctx.disagree("c09.reads (in-process)", case, {str(k): v for k, v in impl.items()}, ans)


def interleaved(rows):
    """some phase set has a member of another multi-variant set between two of its members"""
    seq = [r["phase"]["block"] for r in rows if r["phase"] is not None and r["wanted"] and len(set(r["gcode"])) == 2]
    multi = {b for b in seq if seq.count(b) >= 2}
    seq = [b for b in seq if b in multi]
    return any(seq[i] != seq[i + 1] and seq[i] in seq[i + 2:] for i in range(len(seq) - 1))


def run_interleaved(ctx, case, n):
    """phase input = generator-written phased VCF with interleaved / nested sets: in-process pseudo reads, then run Q"""
    d = os.path.join(ctx.workdir(), f"case{n}")
    shutil.rmtree(d, ignore_errors=True)
    V, P, samples = build_interleaved(case, d)
    h = Hist(ctx, case, d, opts={"distrust": False, "include_hom": False, "only_snvs": case["only_snvs"]})
    ctx.dist("interleaved_pattern", case["pattern"]); ctx.dist("interleaved_enc", case["enc"])
    seen = []

    def fail(what, key):
        if key not in seen:
            h.fail(what, key, "P")
        seen.append(key)
    inprocess_pseudo_reads(ctx, case, V, P, samples, fail)
    if case.get("cli", True):
        Q = phase_q(h, case, V, P)
        decQ = h.check_output(Q, samples) if Q else None
        if decQ is not None:
            _, _, rin = R.load_vcf(V)
            _, _, rp = R.load_vcf(P)
            sets = {}
            for si, s in enumerate(samples):
                sets[s] = {}
                for chrom in sorted({r["chrom"] for r in rp}):
                    for (b, i), rd in spec_reads(pseudo_rows(rin, rp, chrom, si, case["only_snvs"])).items():
                        for pos, a in rd:
                            sets[s].setdefault((chrom, b), {}).setdefault((chrom, pos), [None, None])[i] = a
                sets[s] = {b: {k: tuple(v) for k, v in m.items()} for b, m in sets[s].items()}
            check_reproduction(h, sets, decQ, samples, case["n_contigs"], "Q")
            check_pseudo_reads(ctx, case, P, Q["trace"], samples, case["only_snvs"], V, fail=fail)
            if any(interleaved(pseudo_rows(rin, rp, c, si, case["only_snvs"])) for si in range(len(samples)) for c in {r["chrom"] for r in rp}):
                ctx.nontrivial(("Q-interleaved", case["gen_seed"]))
    ctx.sample({"case": case, "fails": h.fails})
    shutil.rmtree(d, ignore_errors=True)


def phase_q(h, case, V, P):
    out = os.path.join(h.d, "Q.vcf")
    a = ["phase", "-o", out, "--no-reference", "--tag", case["tag"]] + (["--only-snvs"] if case["only_snvs"] else [])
    rc, so, se, trace = R.run_whatshap(h.ctx, a + [V, P], trace=os.path.join(h.d, "Q.trace"))
    h.ctx.evaluated()
    if rc != 0:
        last = (se.strip().splitlines() or ["?"])[-1][:300]
        if "Traceback" in se or rc < 0:
            h.fail("whatshap phase crashed with a phased VCF as the only phase input: " + last, "crash", "Q")
        else:
            h.ctx.observe("clean command-line error: " + last[:80])
        return None
    return {"name": "Q", "out": out, "trace": trace, "tag": case["tag"], "in": V, "targets": None}


def run(ctx):
    cases = [c for _, c in ctx.corpus()]
    if ctx.replay:
        cases = [json.load(open(ctx.replay))["case"]]
    n = 0
    for c in cases:
        (run_interleaved if c.get("kind") == "interleaved" else run_case)(ctx, c, n); n += 1
    if ctx.replay:
        return
    for _ in range((8 if ctx.quick else 60) * ctx.scale):
        run_case(ctx, gen_case(ctx.rng, scale=1 if ctx.quick else 2), n); n += 1
    # generator-written phase inputs with interleaved / nested phase sets: run Q + in-process pseudo reads
    for _ in range((6 if ctx.quick else 60) * ctx.scale):
        run_interleaved(ctx, gen_interleaved_case(ctx.rng), n); n += 1
    for _ in range((30 if ctx.quick else 600) * ctx.scale):
        run_interleaved(ctx, gen_interleaved_case(ctx.rng, cli=False), n); n += 1
    try:
        os.rmdir(ctx.workdir())
    except OSError:
        pass

"""C09 — PS and HP encodings are equivalent, round-trip, and never mix old and new phase.

A case is a *history* of real CLI runs over one generated variant file (mixed `0/1` / `1/0` unphased genotypes,
optional pre-existing PS/HP phase, decoy multi-ALT / duplicate records with phase of their own):

  A = phase(in, tag1)   B = phase(in, tag2)   C = phase(A, tag2 [, --sample subset])   U = unphase(C)
  D = phase(U, tag1)    Q = phase(in, phase input = A only)            (tag2 = the other tag)

Oracle on every phase output, per target sample (independent decoder on the pysam-parsed records, expected
phase from the trace): every decodable phase statement is the one this run wrote and every written one decodes
to itself (round trip + no stale phase + never both encodings in one call); A and B decode equally (PS ≡ HP);
whatshap's own reader accepts the output; Q reproduces every phase set of A with >= 2 variants up to swapping the
haplotypes.  Correspondence: whatshap's `VcfReader(phases=True)` == Lean `c09.read` == independent decoder on the
records the reader accepts; the pseudo reads of run Q (trace) == Lean `c09.reads`.
"""
import json, os, shutil

from harness.gen import sim
from harness.gen import c04_records as R
from harness.gen.c09_hist import gen_case, build_inputs

RULE = ("one history of 6 CLI runs (phase with PS, phase with HP, re-phase of the phased file with the other tag "
        "(optionally a sample subset), unphase, phase again, phase with the phased VCF as only phase input) over a "
        "generated multi-sample variant file with mixed 0/1 and 1/0 genotypes, optional pre-existing PS/HP phase and decoy "
        "records, optionally --distrust-genotypes / --only-snvs. Non-trivial: run A phased at least one set with >= 2 "
        "variants; distinct = distinct (generator seed, options)")
MANIFEST = dict(
    text="Lean 4 theorems about the encoders (_set_PS/_set_HP), the tag-independent removal and the two decoders: "
         "ps_roundtrip, hp_roundtrip, decode_written (master lemma: after write exactly the new statement decodes, through "
         "the decoder of the tag only), ps_hp_equivalent, rephase_no_stale_phase, pseudo reads complementary/cover; F4 "
         "witnesses on the faithful model; tied to the working tree by pipeline histories of real CLI runs decoded by "
         "whatshap's reader, the Lean decoder and an independent decoder",
    design_ref="DESIGN.md §5 C09, §6 F4",
    note="trusted: Lean kernel; hand-written model (differential: quick 8 histories = 48 CLI runs, thorough 60); the HP text "
         "codec and htslib parsing are in the harness. F4 (a: old encoding kept when re-phasing with the other tag, "
         "b: _set_HP assumes sorted GT) and F21 (HP written as NUL byte when no sample of a record has an HP value) are "
         "genuine defects of /repo: reported until fixes/F4.patch is applied. Pseudo-read reproduction is checked on "
         "pipeline runs (the solver/optimality part is C01/C03's theorem, not re-proved here)",
    technique="Lean 4 proof on record-level codec/writer model + differential correspondence on CLI histories",
)
ASSUMPTIONS = [
    "phase sets of the pseudo-read run fit under the coverage cap (checked per case: at most 7 blocks per sample and chromosome)",
    "the trace hook reports the super-reads and components that `PhasedVcfWriter.write` received",
]


# ------------------------------------------------------------------------------------------------
# independent decoding
# ------------------------------------------------------------------------------------------------

def eligible_first(records, only_snvs):
    """indices of the records that stand for 'the variant at this position' (what whatshap's reader keeps)"""
    keep, prev, chrom = set(), None, None
    for i, r in enumerate(records):
        if r["chrom"] != chrom:
            chrom, prev = r["chrom"], None
        if not r["alts"] or len(r["alts"]) > 1:
            continue
        if only_snvs and not (len(r["ref"]) == 1 and len(r["alts"][0]) == 1):
            continue
        if prev == r["pos"]:
            continue
        prev = r["pos"]
        keep.add(i)
    return keep


def indep_decode(rec, si):
    """(hp phase | None | 'bad', gtps phase | None) of sample column si; a phase is (block, alleles tuple)"""
    c = rec["calls"][si]
    gt = c.get("GT")
    hp = None
    v = c.get("HP")
    if "HP" in rec["format"] and v not in R.MISSING and not (isinstance(v, tuple) and all(x in (None, ".", "") for x in v)):
        parsed = R.parse_hp(v)
        if parsed is None or gt is None or gt[0] is None or len({b for b, _ in parsed}) != 1:
            hp = "bad"
        else:
            order = [h for _, h in parsed]
            try:
                hp = (parsed[0][0], tuple(gt[0][order.index(i + 1)] for i in range(len(order))))
            except (ValueError, IndexError):
                hp = "bad"
    gp = None
    if gt is not None and gt[0] is not None and gt[1] and len(gt[0]) > 1 and not all(a == gt[0][0] for a in gt[0]):
        gp = ((c.get("PS") if "PS" in rec["format"] else 0), tuple(gt[0]))
    return hp, gp


def expected_phases(trace):
    """{sample: {(chrom, pos): (block, (a0, a1))}}: the phase statements this run had to write"""
    exp = {}
    for t in trace:
        comps = dict(map(tuple, t["overall_components"]))
        for s in t["family"]:
            e = exp.setdefault(s, {})
            sr = t["superreads"][s]
            for v0, v1 in zip(sr[0]["variants"], sr[1]["variants"]):
                if v0[1] in (0, 1) and v1[1] in (0, 1) and v0[1] != v1[1] and v0[0] in comps:
                    e[(t["chromosome"], v0[0])] = (comps[v0[0]] + 1, (v0[1], v1[1]))
    return exp


def single_sample_vcf(path, si, out):
    with open(path) as f, open(out, "w") as g:
        for line in f:
            if line.startswith("##"):
                g.write(line)
            else:
                cols = line.rstrip("\n").split("\t")
                g.write("\t".join(cols[:9] + [cols[9 + si]]) + "\n")
    return out


def whatshap_read(path, sample, only_snvs):
    """phases as whatshap's own reader sees them: {(chrom,pos): (block, alleles)} or ('error', type name)"""
    from whatshap.vcf import VcfReader
    out = {}
    try:
        reader = VcfReader(path, only_snvs=only_snvs, phases=True)
        try:
            for table in reader:
                for v, p in zip(table.variants, table.phases_of(sample)):
                    out[(table.chromosome, v.position)] = None if p is None else (p.block_id, tuple(p.phase))
        finally:
            reader.close()
    except Exception as e:  # noqa: BLE001 - every exception type is an observable here
        return ("error", type(e).__name__)
    return out


# ------------------------------------------------------------------------------------------------
# one history
# ------------------------------------------------------------------------------------------------

class Hist:
    def __init__(self, ctx, case, d):
        self.ctx, self.case, self.d = ctx, case, d
        self.fails = []

    def fail(self, what, key, step):
        self.fails.append(key)
        self.ctx.fail(f"[{step}] {what}", self.case, key=key)

    def phase(self, name, variant_vcf, phase_inputs, tag, fa, samples=None):
        o = self.case["opts"]
        out = os.path.join(self.d, name + ".vcf")
        a = ["phase", "-o", out, "--tag", tag]
        a += ["--reference", fa] if any(p.endswith(".bam") for p in phase_inputs) else ["--no-reference"]
        if o["distrust"]:
            a += ["--distrust-genotypes"]
        if o["include_hom"]:
            a += ["--include-homozygous"]
        if o["only_snvs"]:
            a += ["--only-snvs"]
        for s in samples or []:
            a += ["--sample", s]
        rc, so, se, trace = R.run_whatshap(self.ctx, a + [variant_vcf] + phase_inputs, trace=os.path.join(self.d, name + ".trace"))
        self.ctx.evaluated()
        if rc != 0:
            last = (se.strip().splitlines() or ["?"])[-1][:300]
            if "MixedPhasingError" in se or "Mixed phasing" in se:
                self.fail("whatshap refuses a file it wrote itself as input: " + last, "own-output-rejected", name)
            elif "Traceback" in se or rc < 0:
                self.fail("whatshap phase crashed: " + last, "crash", name)
            else:
                self.ctx.observe("clean command-line error: " + last[:80])
            return None
        return {"name": name, "out": out, "trace": trace, "tag": tag, "in": variant_vcf, "targets": samples}

    def check_output(self, run, samples):
        """round trip / no stale phase / no mixed encoding per target sample; returns {sample: decoded map} or None"""
        ctx, o, name = self.ctx, self.case["opts"], run["name"]
        try:
            _, _, recs = R.load_vcf(run["out"])
        except (OSError, ValueError) as e:
            nul = bytes([0]) in open(run["out"], "rb").read()
            self.fail(f"output VCF cannot be parsed by htslib ({e}); NUL byte in the file: {nul}", "output-unparsable", name)
            return None
        ctx.validated(len(run["trace"]))
        elig = eligible_first(recs, o["only_snvs"])
        exp = expected_phases(run["trace"])
        targets = run["targets"] or samples
        decoded = {}
        reqs, meta = [], []
        for s in targets:
            si = samples.index(s)
            dec = {}
            bad = None
            for i, r in enumerate(recs):
                hp, gp = indep_decode(r, si)
                want = exp.get(s, {}).get((r["chrom"], r["pos"])) if i in elig else None
                if hp is not None and gp is not None and bad is None:
                    bad = ("mixed-encoding", f"sample {s} {r['chrom']}:{r['pos'] + 1}: the call carries HP ({hp}) and a phased GT/PS ({gp}) at once")
                got = gp if gp is not None else hp
                if i in elig:
                    dec[(r["chrom"], r["pos"])] = got
                if got != want and bad is None:
                    if want is None:
                        bad = ("stale-phase", f"sample {s} {r['chrom']}:{r['pos'] + 1} ({'/'.join(r['alts']) or '.'}): decodable phase {got} "
                                              f"was not written by this run (tag {run['tag']})")
                    else:
                        bad = ("decode-differs", f"sample {s} {r['chrom']}:{r['pos'] + 1}: written {want}, decodes to {got} (tag {run['tag']})")
            if bad:
                self.fail(bad[1], bad[0], name)
            decoded[s] = dec
            # whatshap's own reader and the Lean reader on the single-sample view
            one = single_sample_vcf(run["out"], si, os.path.join(self.d, f"{name}.{s}.vcf"))
            wr = whatshap_read(one, s, o["only_snvs"])
            if isinstance(wr, tuple):
                self.fail(f"whatshap's reader raises {wr[1]} on sample {s} of a file written by whatshap phase --tag {run['tag']}",
                          "own-output-rejected", name)
            elif not bad and wr != dec:
                diff = [(k, wr.get(k), dec.get(k)) for k in sorted(set(wr) | set(dec)) if wr.get(k) != dec.get(k)]
                ctx.disagree("VcfReader(phases=True) vs independent decoder", self.case, str(diff[:3]), name)
            for chrom, idxs in R.chrom_blocks(recs):
                rj = []
                for i in idxs:
                    m = R.model_record(recs[i], samples)
                    m["calls"] = [m["calls"][si]]
                    rj.append(m)
                reqs.append({"op": "c09.read", "onlySnvs": o["only_snvs"], "records": rj})
                meta.append((s, chrom, wr))
        for (s, chrom, wr), ans in zip(meta, ctx.model.ask_many(reqs) if reqs else []):
            if isinstance(wr, tuple):
                lean = ans.get("error")
                if lean is None and wr[1] in ("MixedPhasingError",):
                    # the error may stem from another chromosome; only compare when the file has one
                    pass
                continue
            if "error" in ans:
                ctx.disagree("c09.read", self.case, "whatshap reader ok", ans)
                continue
            lean = {(chrom, row["pos"]): (None if row["calls"][0][1] is None else
                                          (row["calls"][0][1]["block"], tuple(row["calls"][0][1]["alleles"]))) for row in ans["rows"]}
            impl = {k: v for k, v in wr.items() if k[0] == chrom}
            if lean != impl:
                diff = [(k, impl.get(k), lean.get(k)) for k in sorted(set(impl) | set(lean)) if impl.get(k) != lean.get(k)]
                ctx.disagree("c09.read", self.case, str(diff[:3]), run["name"] + "/" + s)
        return decoded


def blocks_of(dec):
    """{block: {(chrom,pos): alleles}} of a decoded map"""
    out = {}
    for k, v in dec.items():
        if v is not None:
            out.setdefault((k[0], v[0]), {})[k] = v[1]
    return out


def run_case(ctx, case, n):
    o = case["opts"]
    d = os.path.join(ctx.workdir(), f"case{n}")
    shutil.rmtree(d, ignore_errors=True)
    fa, bam, vcf, sc = build_inputs(case, d)
    samples = list(sc.samples)
    h = Hist(ctx, case, d)
    tag1 = o["tag1"]; tag2 = "HP" if tag1 == "PS" else "PS"
    ctx.dist("pre", case["vcf"]["pre"]); ctx.dist("flip", case["vcf"]["flip_prob"]); ctx.dist("n_samples", len(samples))
    ctx.dist("mode", ("distrust" if o["distrust"] else "trust") + ("+hom" if o["include_hom"] else "") + ("+snvs" if o["only_snvs"] else ""))
    subset = sorted(samples[:max(1, len(samples) // 2)]) if (o["subset"] and len(samples) > 1) else None

    A = h.phase("A", vcf, [bam], tag1, fa)
    B = h.phase("B", vcf, [bam], tag2, fa)
    decA = h.check_output(A, samples) if A else None
    decB = h.check_output(B, samples) if B else None
    if decA is not None and decB is not None:
        if json.dumps(A["trace"], sort_keys=True) != json.dumps(B["trace"], sort_keys=True):
            ctx.observe("traces of the PS and HP run differ (solver input/output should not depend on the tag)")
        elif decA != decB:
            s = next(s for s in samples if decA[s] != decB[s])
            k = next(k for k in sorted(decA[s]) if decA[s][k] != decB[s].get(k))
            h.fail(f"ps_hp_equivalent: sample {s} {k[0]}:{k[1] + 1} decodes to {decA[s][k]} from --tag {tag1} and to {decB[s].get(k)} from --tag {tag2}",
                   "ps-hp-differ", "A/B")
    if decA is not None and any(len(v) >= 2 for s in samples for v in blocks_of(decA[s]).values()):
        ctx.nontrivial((case["gen_seed"], json.dumps(o, sort_keys=True), json.dumps(case["vcf"], sort_keys=True)))
    # re-phase the phased file with the other tag
    C = h.phase("C", A["out"], [bam], tag2, fa, samples=subset) if A and decA is not None else None
    decC = h.check_output(C, samples) if C else None
    D = None
    if C and decC is not None:
        rc, so, se, _ = R.run_whatshap(ctx, ["unphase", C["out"]])
        ctx.evaluated()
        if rc != 0:
            if "Traceback" in se:
                ctx.observe("unphase crashed on a phase output (C13's subject): " + se.strip().splitlines()[-1][:80])
        else:
            U = os.path.join(d, "U.vcf")
            open(U, "w").write(so)
            D = h.phase("D", U, [bam], tag1, fa)
            decD = h.check_output(D, samples) if D else None
            if decD is not None and decA is not None and not o["distrust"] and decD != decA and json.dumps(D["trace"], sort_keys=True) == json.dumps(A["trace"], sort_keys=True):
                h.fail("phase -> re-phase(other tag) -> unphase -> phase decodes differently from the first phasing although the solver result is identical",
                       "history-differs", "D")
    # the phased VCF as the only phase input
    if A and decA is not None and not o["distrust"]:
        Q = h.phase("Q", vcf, [A["out"]], tag1, fa)
        decQ = h.check_output(Q, samples) if Q else None
        if decQ is not None:
            for s in samples:
                ba, bq = blocks_of(decA[s]), blocks_of(decQ[s])
                if len({b for b in ba}) > 7 * max(1, len(sc.contigs)):
                    ctx.observe("pseudo-read check skipped: too many blocks for the coverage cap")
                    continue
                for b, members in ba.items():
                    if len(members) < 2:
                        continue
                    got = {k: decQ[s].get(k) for k in members}
                    if any(v is None for v in got.values()) or len({v[0] for v in got.values()}) != 1:
                        h.fail(f"pseudo reads: phase set {b} of sample {s} ({sorted(k[1] + 1 for k in members)}) is not reproduced as one phase set: {got}",
                               "pseudo-set", "Q")
                        break
                    same = all(got[k][1] == members[k] for k in members)
                    swap = all(got[k][1] == tuple(reversed(members[k])) for k in members)
                    if not (same or swap):
                        h.fail(f"pseudo reads: haplotypes of phase set {b} of sample {s} differ beyond a swap: {members} vs {got}", "pseudo-hap", "Q")
                        break
            check_pseudo_reads(ctx, case, A, Q, samples, o, vcf)
    ctx.sample({"case": case, "fails": h.fails, "blocks_A": {s: len(blocks_of(decA[s])) for s in samples} if decA else None})
    shutil.rmtree(d, ignore_errors=True)


def check_pseudo_reads(ctx, case, A, Q, samples, o, vcf):
    """trace of run Q: the candidate reads built by phased_blocks_as_reads == Lean c09.reads on A's decoded rows"""
    _, _, rin = R.load_vcf(vcf)
    _, _, ra = R.load_vcf(A["out"])
    el_in, el_a = eligible_first(rin, o["only_snvs"]), eligible_first(ra, o["only_snvs"])
    reqs, meta = [], []
    for t in Q["trace"]:
        for s in t["family"]:
            si = samples.index(s)
            # input_variants: heterozygous, fully called variants of the variant file
            wanted = {(r["pos"], r["ref"], r["alts"][0]) for i, r in enumerate(rin) if i in el_in and r["chrom"] == t["chromosome"]
                      and len(set(R.gt_code(r["calls"][si].get("GT")))) > 1}
            rows = []
            for i, r in enumerate(ra):
                if i not in el_a or r["chrom"] != t["chromosome"]:
                    continue
                hp, gp = indep_decode(r, si)
                ph = gp if gp is not None else hp
                rows.append({"pos": r["pos"], "wanted": (r["pos"], r["ref"], r["alts"][0]) in wanted, "gcode": R.gt_code(r["calls"][si].get("GT")),
                             "phase": None if ph in (None, "bad") else {"block": ph[0], "alleles": list(ph[1])}})
            reqs.append({"op": "c09.reads", "rows": rows})
            impl = {}
            for rd in t["candidates"][s]["reads"]:
                parts = rd["name"].rsplit("_block_", 1)
                if len(parts) == 2 and "_phase_" in parts[0]:
                    impl[(int(parts[1]), int(parts[0].rsplit("_phase_", 1)[1]))] = [[v[0], v[1]] for v in rd["variants"]]
            meta.append((t["chromosome"], s, impl))
    for (chrom, s, impl), ans in zip(meta, ctx.model.ask_many(reqs) if reqs else []):
        lean = {(b, i): rd for b, i, rd in ans} if isinstance(ans, list) else ans
        if lean != impl:
            ctx.disagree("c09.reads (phased_blocks_as_reads)", case, {str(k): v for k, v in impl.items()}, ans)


def run(ctx):
    cases = [c for _, c in ctx.corpus()]
    if ctx.replay:
        cases = [json.load(open(ctx.replay))["case"]]
    n = 0
    for c in cases:
        run_case(ctx, c, n); n += 1
    if ctx.replay:
        return
    for _ in range((8 if ctx.quick else 60) * ctx.scale):
        run_case(ctx, gen_case(ctx.rng, scale=1 if ctx.quick else 2), n); n += 1
    try:
        os.rmdir(ctx.workdir())
    except OSError:
        pass

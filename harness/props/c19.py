"""C19 — genotype indexing is a bijection; edit distance is true Levenshtein distance.

Correspondence: the real `whatshap.core.Genotype` / `binomial_coefficient` / `whatshap.align.edit_distance`
against the Lean model (exact: every observable must be equal).

Property oracle (independent of the Lean model and of the code's formulas):
* index of a genotype = its rank in the VCF order of all multisets (enumerated recursively for small
  ploidy/allele counts; for the sampled large ones the rank is counted with a Pascal-rule table – additions
  only, no multiply/divide loop); indices of all genotypes of ploidy p over a alleles are exactly
  0 .. count-1; restoring index i gives the i-th genotype; `==` <=> same multiset, `<` <=> smaller rank
  (same ploidy); `__setstate__(__getstate__())` gives an equal genotype.
* edit distance = naive memoised Levenshtein recursion on suffixes; banded: exact if lev <= maxdiff,
  else > maxdiff.
"""
import functools, itertools, json, os, sys

RULE = ("genotype cases: constructor from an arbitrary-order allele list, index, as_vector, ploidy, save/restore, "
        "restore from (index, ploidy), ==/!=/< on pairs; non-trivial = ploidy >= 2 with >= 2 distinct alleles (or a pair of such). "
        "edit-distance cases: one (s, t) pair evaluated unbanded and for every band 0..max(len)+1; non-trivial = both strings "
        "non-empty and different after removing the common prefix and suffix (the DP runs), distinct = distinct pair")
MANIFEST = dict(
    text="Lean 4 theorems about exact models of binomial_coefficient, get_index, convert_index_to_alleles, the packed "
         "Genotype word and of edit_distance (trimming, single-row DP, band with stale cells and early exit): index/alleles "
         "round trip for every ploidy and allele count, gap-free indices with count C(p+a-1,p), ==/</save-restore agree with "
         "the index, edit_distance = Levenshtein recursion for all strings, banded result exact-or-larger for every band; "
         "models tied to the working tree by differential correspondence and an independent enumeration / naive-Levenshtein oracle",
    design_ref="DESIGN.md §5 C19",
    note="trusted: Lean kernel, axioms ⊆ {propext, Classical.choice, Quot.sound}; the hand-written models (correspondence is "
         "differential testing: exhaustive small genotype spaces and string pairs + random large ones); C int/uint32 overflow "
         "is stated as a separate bound (peak intermediate product < 2^31 within ploidy 14 / 16 alleles) rather than modelled; "
         "pickle/copy.copy of Genotype raising TypeError (F10) is recorded as an observation, not part of save/restore as stated",
    technique="Lean 4 proof (combinatorial number system, Wagner–Fischer DP invariant with band) + differential correspondence",
)
ASSUMPTIONS = [
    "strings are bytes or ASCII str (edit_distance takes len() before .encode(); non-ASCII str is outside the model)",
    "maxdiff is -1 (unbanded) or >= 0 and far below 2^31 (C int overflow of j+e+1 not modelled); maxdiff < -1 is not a band width and is not exercised",
    "allele values and indices fit uint32 (Cython conversion raises OverflowError otherwise); C++ uint32/int arithmetic is modelled "
    "by unbounded integers, justified within the supported limits (ploidy <= 14, alleles <= 16) by the proved peak bound",
    "binomial_coefficient is compared only where the model's peak intermediate product is < 2^31 (n <= 29 covers the supported limits)",
]

MAXP, MAXA = 14, 16


# ------------------------------------------------------------------------------------------------ oracles

@functools.lru_cache(maxsize=None)
def vcf_order(p, a):
    """all multisets of size p over alleles < a (ascending tuples) in VCF order"""
    if p == 0:
        return ((),)
    out = []
    for x in range(a):
        for g in vcf_order(p - 1, x + 1):
            out.append(g + (x,))
    return tuple(out)


@functools.lru_cache(maxsize=None)
def n_multisets(p, a):
    """number of multisets of size p over a kinds, Pascal's rule (additions only)"""
    if p == 0:
        return 1
    if a == 0:
        return 0
    return n_multisets(p - 1, a) + n_multisets(p, a - 1)


def rank(g):
    """rank of the ascending tuple g in VCF order: genotypes before g either have a smaller k-th largest ... counted
    position by position from the largest allele down (colex order)"""
    g = sorted(g)
    r = 0
    for k in range(len(g), 0, -1):
        # all genotypes agreeing on positions > k and having a smaller allele at position k:
        # their first k entries are any multiset of size k over alleles < g[k-1]
        r += n_multisets(k, g[k - 1])
    return r


def lev_naive(s, t):
    sys.setrecursionlimit(max(sys.getrecursionlimit(), 4 * (len(s) + len(t)) + 1000))

    @functools.lru_cache(maxsize=None)
    def d(i, j):
        if i == len(s):
            return len(t) - j
        if j == len(t):
            return len(s) - i
        return min(d(i + 1, j + 1) + (s[i] != t[j]), d(i + 1, j) + 1, d(i, j + 1) + 1)
    return d(0, 0)


# ------------------------------------------------------------------------------------------------ implementation side

def immortal(obj):
    """__setstate__ deletes thisptr before the throwing constructor: the object is left dangling and its dealloc
    would abort the process (double free).  Leak it so that a broken implementation yields a report, not a crash."""
    import ctypes
    ctypes.pythonapi.Py_IncRef(ctypes.py_object(obj))


def impl_geno_obs(Genotype, g):
    st = g.__getstate__()
    h = Genotype([])
    try:
        h.__setstate__(st)
        restored = {"vector": list(h.as_vector()), "eq": bool(h == g)}
    except RuntimeError as e:
        immortal(h)
        restored = err_of(e)
    return {"vector": list(g.as_vector()), "index": g.get_index(), "ploidy": g.get_ploidy(),
            "state": [int(st[0]), int(st[1])], "restored": restored}


def err_of(e):
    m = str(e)
    if "ploidy" in m:
        return {"err": "ploidy"}
    if "alleles" in m or "allele" in m:
        return {"err": "alleles"}
    if "sorted" in m:
        return {"err": "unsorted"}
    return {"err": m}


def run_geno(Genotype, alleles):
    try:
        g = Genotype(list(alleles))
    except RuntimeError as e:
        return None, err_of(e)
    return g, impl_geno_obs(Genotype, g)


def run_state(Genotype, index, ploidy):
    h = Genotype([])
    try:
        h.__setstate__((index, ploidy))
    except RuntimeError as e:
        immortal(h)
        return None, err_of(e)
    return h, impl_geno_obs(Genotype, h)


# ------------------------------------------------------------------------------------------------ run

def run(ctx):
    import copy, pickle
    from whatshap.core import Genotype, binomial_coefficient
    from whatshap.align import edit_distance
    import whatshap.core, whatshap.align
    if ctx.overlay:
        # the overlay can be pruned by a concurrent check of another property; never silently test /repo's installed build
        for mod in (whatshap.core, whatshap.align):
            if not os.path.realpath(mod.__file__).startswith(os.path.realpath(ctx.overlay) + os.sep):
                from harness.common import Infra
                raise Infra(f"{mod.__name__} was imported from {mod.__file__}, not from the overlay {ctx.overlay}")
    rng = ctx.rng
    batch, meta = [], []

    def flush():
        if not batch:
            return
        answers = ctx.model.ask_many(batch)
        for req, (case, impl, proj), ans in zip(batch, meta, answers):
            got = proj(ans) if proj else ans
            if got != impl:
                ctx.disagree(req["op"], case, impl, got)
        batch.clear(); meta.clear()

    def ask(req, case, impl, proj=None):
        batch.append(req); meta.append((case, impl, proj))
        if len(batch) >= 400:
            flush()

    # ---------------------------------------------------------------- case handlers
    def do_geno(alleles, model=True):
        case = {"kind": "geno", "alleles": list(alleles)}
        g, obs = run_geno(Genotype, alleles)
        ctx.evaluated()
        p = len(alleles)
        ctx.dist("ploidy", p)
        if p >= 15 or any(x >= 16 for x in alleles):
            exp_err = {"err": "ploidy"} if p >= 15 else {"err": "alleles"}
            if obs != exp_err:
                ctx.fail(f"Genotype({list(alleles)}) outside the limits gave {obs}, expected {exp_err}", case, key="geno-limits")
        elif g is None:
            ctx.fail(f"Genotype({list(alleles)}) within the limits raised {obs}", case, key="geno-ctor")
        else:
            srt = sorted(alleles)
            r = rank(srt)
            if len(set(alleles)) >= 2:
                ctx.nontrivial(("g",) + tuple(srt))
            if obs["vector"] != srt[::-1]:
                ctx.fail(f"as_vector {obs['vector']} is not the descending multiset of {list(alleles)}", case, key="geno-vector")
            if obs["ploidy"] != p:
                ctx.fail(f"ploidy {obs['ploidy']} != {p}", case, key="geno-ploidy")
            if obs["index"] != r:
                ctx.fail(f"get_index {obs['index']} of {srt} is not its rank {r} in VCF order", case, key="geno-index")
            if obs["state"] != [obs["index"], obs["ploidy"]]:
                ctx.fail(f"__getstate__ {obs['state']} disagrees with (index, ploidy) = {(obs['index'], obs['ploidy'])}", case, key="geno-state")
            if obs["restored"] != {"vector": obs["vector"], "eq": True}:
                ctx.fail(f"__setstate__(__getstate__()) of {srt} gives {obs['restored']}", case, key="geno-roundtrip")
            ctx.sample({"alleles": list(alleles), "impl": obs})
        if model:
            ask({"op": "c19.geno", "alleles": list(alleles)}, case, obs)
        return g

    def do_state(index, ploidy, n_alleles=None, model=True):
        """restore from (index, ploidy); n_alleles: if given, index < count(ploidy, n_alleles) and alleles must be < n_alleles"""
        case = {"kind": "state", "index": index, "ploidy": ploidy, "n_alleles": n_alleles}
        h, obs = run_state(Genotype, index, ploidy)
        ctx.evaluated()
        if h is not None:
            asc = obs["vector"][::-1]
            if len(asc) != ploidy or asc != sorted(asc):
                ctx.fail(f"restore({index},{ploidy}) gives {obs['vector']}: wrong ploidy or not sorted", case, key="state-shape")
            elif rank(asc) != index or obs["index"] != index:
                ctx.fail(f"restore({index},{ploidy}) gives {asc} whose rank is {rank(asc)} / get_index {obs['index']} (gap or collision)", case, key="state-index")
            elif n_alleles is not None and ploidy > 0 and asc[-1] >= n_alleles:
                ctx.fail(f"restore({index},{ploidy}) uses allele {asc[-1]} >= {n_alleles} although index < count", case, key="state-range")
            if n_alleles is not None and n_alleles <= 7 and ploidy <= 7:
                exp = list(vcf_order(ploidy, n_alleles)[index])
                if asc != exp:
                    ctx.fail(f"restore({index},{ploidy}) = {asc}, the {index}-th genotype in VCF order is {exp}", case, key="state-enum")
            if len(set(asc)) >= 2:
                ctx.nontrivial(("s", index, ploidy))
        else:
            # legitimate only when the genotype of that index is outside the limits
            if ploidy < 15 and n_alleles is not None and n_alleles <= 16:
                ctx.fail(f"restore({index},{ploidy}) raised {obs} although index < count({ploidy},{n_alleles})", case, key="state-raise")
        if model:
            ask({"op": "c19.alleles", "index": index, "ploidy": ploidy}, case, obs, proj=lambda a: a.get("geno"))

    def do_cmp(a, b, ga=None, gb=None, model=True):
        case = {"kind": "cmp", "a": list(a), "b": list(b)}
        ga = ga or Genotype(list(a)); gb = gb or Genotype(list(b))
        obs = {"eq": bool(ga == gb), "ne": bool(ga != gb), "lt": bool(ga < gb)}
        ctx.evaluated()
        sa, sb = sorted(a), sorted(b)
        if obs["ne"] == obs["eq"]:
            ctx.fail(f"{sa} == {sb} is {obs['eq']} but != is {obs['ne']}", case, key="cmp-ne")
        if len(a) != len(b):
            # the property speaks about one ploidy at a time; across ploidies the code compares the words (==) and the
            # bare indices (<).  Compared with the model, but a difference is only recorded, never an alarm.
            if model:
                ans = ctx.model.ask("c19.cmp", a=list(a), b=list(b))
                if ans != obs:
                    ctx.observe(f"cross-ploidy comparison differs from the model (outside the property): {sa} vs {sb}: impl {obs}, model {ans}")
            return
        if obs["eq"] != (sa == sb):
            ctx.fail(f"{sa} == {sb} is {obs['eq']}", case, key="cmp-eq")
        if True:
            ra, rb = rank(sa), rank(sb)
            if obs["eq"] != (ra == rb):
                ctx.fail(f"{sa} == {sb} is {obs['eq']} but indices are {ra}, {rb}", case, key="cmp-eq-index")
            if obs["lt"] != (ra < rb):
                ctx.fail(f"{sa} < {sb} is {obs['lt']} but indices are {ra}, {rb}", case, key="cmp-lt")
            if model and len(set(a)) >= 2 and len(set(b)) >= 2:
                ctx.nontrivial(("c",) + tuple(sa) + (-1,) + tuple(sb))
        if model:
            ask({"op": "c19.cmp", "a": list(a), "b": list(b)}, case, obs)

    def do_binom(n, k):
        case = {"kind": "binom", "n": n, "k": k}
        ans = ctx.model.ask("c19.binom", n=n, k=k)
        ctx.evaluated()
        if ans["peak"] >= 2 ** 31:
            return
        v = binomial_coefficient(n, k)
        import math
        exp = math.comb(n, k) if (n >= 0 and 0 <= k <= n) else 0
        if v != exp:
            ctx.fail(f"binomial_coefficient({n},{k}) = {v}, expected {exp}", case, key="binom")
        if ans["value"] != v:
            ctx.disagree("c19.binom", case, v, ans["value"])

    def do_edit(s, t, as_str=False, model=True, bands=None):
        """s, t: bytes"""
        case = {"kind": "edit", "s": s.decode("latin-1"), "t": t.decode("latin-1"), "as_str": as_str}
        if bands is None:
            bands = [-1] + list(range(0, max(len(s), len(t)) + 2))
        case["bands"] = bands
        a, b = (s.decode("ascii"), t.decode("ascii")) if as_str else (s, t)
        res = [edit_distance(a, b) if e == -1 else edit_distance(a, b, e) for e in bands]
        ctx.evaluated()
        d = lev_naive(s, t)
        ctx.dist("lev", d if d < 10 else "10+")
        ctx.dist("len", min(len(s), len(t)) // 10 * 10)
        for e, r in zip(bands, res):
            if e == -1:
                if r != d:
                    ctx.fail(f"edit_distance({a!r},{b!r}) = {r}, Levenshtein distance is {d}", case, key="edit-unbanded")
            elif d <= e:
                if r != d:
                    ctx.fail(f"edit_distance({a!r},{b!r},maxdiff={e}) = {r}, true distance {d} <= band", case, key="edit-band-exact")
            elif not r > e:
                ctx.fail(f"edit_distance({a!r},{b!r},maxdiff={e}) = {r} is not > band although true distance is {d}", case, key="edit-band-larger")
        # non-trivial: DP runs
        i = 0
        while i < min(len(s), len(t)) and s[i] == t[i]:
            i += 1
        s2, t2 = s[i:], t[i:]
        while s2 and t2 and s2[-1] == t2[-1]:
            s2, t2 = s2[:-1], t2[:-1]
        if s2 and t2:
            ctx.nontrivial(("e", s, t))
        if len(ctx.samples) < 4 and s2 and t2 and len(s) > 3:
            ctx.sample({"s": case["s"], "t": case["t"], "bands": bands, "impl": res, "lev": d})
        if model:
            ask({"op": "c19.edit", "s": list(s), "t": list(t), "bands": bands}, case, res)

    def do_case(c):
        k = c.get("kind")
        if k == "geno":
            do_geno(c["alleles"])
        elif k == "state":
            do_state(c["index"], c["ploidy"], c.get("n_alleles"))
        elif k == "cmp":
            do_cmp(c["a"], c["b"])
        elif k == "binom":
            do_binom(c["n"], c["k"])
        elif k == "edit":
            do_edit(c["s"].encode("latin-1"), c["t"].encode("latin-1"), as_str=c.get("as_str", False), bands=c.get("bands"))
        elif k == "enum":
            do_enum(c["ploidy"], c["alleles"])
        elif k == "reuse":
            do_reuse(c["chain"], c["queries"])

    def do_reuse(chain, queries):
        """state restore INTO AN OBJECT THAT HAS BEEN USED: one Genotype object takes the states of the genotypes of
        `chain` one after the other, with index/hash/state/vector queried in between (as `queries` says); after each
        restore every observable must be that of a fresh genotype with those alleles"""
        case = {"kind": "reuse", "chain": [list(c) for c in chain], "queries": [list(q) for q in queries]}
        ctx.evaluated()
        g = Genotype(list(chain[0]))
        for step, (al, q) in enumerate(zip(chain[1:], queries)):
            for what in q:
                if what == "index": g.get_index()
                elif what == "hash": hash(g)
                elif what == "state": g.__getstate__()
                elif what == "vector": g.as_vector()
                elif what == "str": str(g)
            fresh = Genotype(list(al))
            g.__setstate__(fresh.__getstate__())
            srt = sorted(al)
            obs = {"vector": list(g.as_vector()), "index": g.get_index(), "ploidy": g.get_ploidy(),
                   "state": [int(x) for x in g.__getstate__()], "eq": bool(g == fresh), "lt": bool(g < fresh) or bool(fresh < g),
                   "hash_eq": hash(g) == hash(fresh), "hom": bool(g.is_homozygous())}
            exp = {"vector": srt[::-1], "index": rank(srt), "ploidy": len(srt), "state": [rank(srt), len(srt)], "eq": True,
                   "lt": False, "hash_eq": True, "hom": bool(fresh.is_homozygous())}
            if obs != exp:
                diff = {k: (obs[k], exp[k]) for k in exp if obs[k] != exp[k]}
                ctx.fail(f"an object restored to {srt} (step {step + 1} of re-using one object; queried {q} before) reports "
                         f"{diff} (observed, expected)", case, key="geno-restore-into-used-object")
                return
        ctx.nontrivial(("reuse", tuple(tuple(c) for c in chain), tuple(tuple(q) for q in queries)))

    def do_enum(p, a):
        """all genotypes of ploidy p over a alleles: indices are exactly 0..count-1 in VCF order (no gaps)"""
        case = {"kind": "enum", "ploidy": p, "alleles": a}
        order = vcf_order(p, a)
        idx = []
        for g in order:
            idx.append(Genotype(list(g)).get_index())
        ctx.evaluated()
        if idx != list(range(len(order))):
            bad = next(i for i, x in enumerate(idx) if x != i)
            ctx.fail(f"indices of the genotypes of ploidy {p} over {a} alleles are not 0..{len(order)-1} in VCF order "
                     f"(first: {list(order[bad])} has index {idx[bad]}, rank {bad})", case, key="enum-gaps")
        if len(order) != n_multisets(p, a):
            raise AssertionError("oracle inconsistency")
        ans = ctx.model.ask("c19.enum", ploidy=p, alleles=a)
        if ans["count"] != len(order) or ans["spec"] != [list(g) for g in order]:
            ctx.disagree("c19.enum/spec-vs-python-oracle", case, len(order), ans["count"])
        if ans["model"] != [list(g) for g in order]:
            ctx.disagree("c19.enum", case, "vcf order", "model differs from VCF order")
        ctx.nontrivial(("enum", p, a))

    # ---------------------------------------------------------------- replay / corpus
    if ctx.replay:
        do_case(json.load(open(ctx.replay))["case"]); flush(); return
    for _, c in ctx.corpus():
        do_case(c)

    # ---------------------------------------------------------------- restore into used objects
    for _ in range((400 if ctx.quick else 6000) * ctx.scale):
        n = rng.randrange(2, 5)
        chain, queries = [], []
        for i in range(n):
            pl = rng.choice([1, 2, 2, 2, 3, 4, 6]) if rng.random() < 0.85 else rng.randrange(0, 15)
            na = rng.choice([2, 2, 3, 4, 6]) if rng.random() < 0.85 else rng.randrange(1, 17)
            al = [rng.randrange(na) for _ in range(pl)]
            rng.shuffle(al)
            chain.append(al)
            queries.append(rng.sample(["index", "hash", "state", "vector", "str"], rng.randrange(0, 4)))
        do_reuse(chain, queries[:-1])

    # ---------------------------------------------------------------- F10 observation: pickle / copy
    for al in ([0, 1], [2, 0, 1, 1], []):
        g = Genotype(al)
        for name, f in (("pickle", lambda x: pickle.loads(pickle.dumps(x))), ("copy.copy", copy.copy), ("copy.deepcopy", copy.deepcopy)):
            try:
                h = f(g)
            except TypeError as e:
                ctx.observe(f"F10: {name} of a Genotype raises TypeError ({str(e)[:60]}); __getstate__/__setstate__ themselves work")
                continue
            if not (h == g) or list(h.as_vector()) != list(g.as_vector()):
                ctx.fail(f"{name} of Genotype({al}) gives {h}", {"kind": "geno", "alleles": al}, key="copy-" + name)

    # ---------------------------------------------------------------- binomial: whole supported table
    for n in range(-2, 32):
        for k in range(-2, 34):
            do_binom(n, k)

    # ---------------------------------------------------------------- genotypes: exhaustive small space
    EP, EA = (5, 5) if ctx.quick else (6, 6)
    small = []
    for p in range(0, EP + 1):
        for a in range(1, EA + 1):
            do_enum(p, a)
            cnt = n_multisets(p, a)
            for i in range(cnt):
                do_state(i, p, a)
        for g in vcf_order(p, EA):
            perm = list(g); rng.shuffle(perm)
            small.append((g, do_geno(perm)))
    ctx.extra["exhaustive_genotypes_ploidy_le_%d_alleles_le_%d" % (EP, EA)] = len(small)
    # all pairs (oracle), model on a sample
    n_model_pairs = (3000 if ctx.quick else 30000) * ctx.scale
    pairs = len(small) ** 2
    pm = min(1.0, n_model_pairs / pairs)
    for (a, ga) in small:
        for (b, gb) in small:
            do_cmp(a, b, ga, gb, model=(rng.random() < pm))
    ctx.extra["exhaustive_pairs"] = pairs

    def plenty():
        """a broken implementation is already demonstrated: stop generating (restores can take very long on broken code)"""
        return len(ctx.fails) > 300

    # ---------------------------------------------------------------- genotypes: sampled up to the limits
    n_big = (1500 if ctx.quick else 30000) * ctx.scale
    bigs = []
    for i in range(n_big):
        if plenty():
            break
        p = rng.randrange(0, MAXP + 1)
        a = rng.randrange(1, MAXA + 1)
        style = rng.random()
        if style < 0.15:
            al = [a - 1] * p                       # largest index of (p, a)
        elif style < 0.3:
            al = [rng.choice([0, a - 1]) for _ in range(p)]
        else:
            al = [rng.randrange(a) for _ in range(p)]
        g = do_geno(al)
        bigs.append((al, g))
        # restore from a random index below the count, and the last one
        cnt = n_multisets(p, a)
        do_state(rng.randrange(cnt), p, a)
        if i % 7 == 0:
            do_state(cnt - 1, p, a)
    for i in range(n_big if bigs else 0):
        (a, ga), (b, gb) = rng.choice(bigs), rng.choice(bigs)
        if rng.random() < 0.5:
            b = list(a); gb = None
            if b and rng.random() < 0.7:
                b[rng.randrange(len(b))] = rng.randrange(MAXA)
            rng.shuffle(b)
        do_cmp(a, b, ga, gb)
    # the limits themselves
    if not plenty():
        do_state(n_multisets(14, 16) - 1, 14, 16)
    do_geno([15] * 14); do_geno([0] * 14); do_geno([0] * 15); do_geno([16]); do_geno([3, 16, 1]); do_geno([0] * 16)
    do_state(15, 1, 16)
    # restore of a state OUTSIDE the limits (first genotype with allele 16; ploidy 15): not part of the property.
    # __setstate__ deletes thisptr before the constructor throws, so the object is left dangling and the process
    # aborts with a double free at dealloc -> run in a child process and record what happens (observation only).
    import subprocess
    for st in ((n_multisets(14, 16), 14), (16, 1), (0, 15)):
        code = ("from whatshap.core import Genotype\nh = Genotype([])\n"
                "try:\n h.__setstate__(%r)\n print('no-exception', h)\nexcept RuntimeError as e:\n print('RuntimeError')\n"
                "del h\nprint('alive')\n" % (st,))
        r = subprocess.run([sys.executable, "-c", code], capture_output=True, text=True)
        out = r.stdout.split()
        mdl = ctx.model.ask("c19.alleles", index=st[0], ploidy=st[1])["geno"]
        ctx.observe(f"outside the limits: __setstate__({st}) -> {out[0] if out else 'crash'}, then "
                    f"{'process survives' if 'alive' in out and r.returncode == 0 else 'process aborts (double free: thisptr deleted before the throwing constructor)'}; "
                    f"model: {mdl.get('err', 'ok')}")
    flush()

    # ---------------------------------------------------------------- edit distance: exhaustive small pairs
    L2 = 5 if ctx.quick else 7
    words = [bytes(w) for n in range(L2 + 1) for w in itertools.product(b"AC", repeat=n)]
    cnt = 0
    for s in words:
        if len(ctx.fails) > 3000:
            break
        for t in words:
            do_edit(s, t, as_str=(cnt % 5 == 0)); cnt += 1
    ctx.extra["exhaustive_string_pairs_AC_len_le_%d" % L2] = cnt
    if not ctx.quick:
        words3 = [bytes(w) for n in range(5) for w in itertools.product(b"ACG", repeat=n)]
        for s in words3:
            for t in words3:
                do_edit(s, t); cnt += 1
        ctx.extra["exhaustive_string_pairs_ACG_len_le_4"] = len(words3) ** 2
        ctx.extra["exhaustive"] = True
    flush()

    # ---------------------------------------------------------------- edit distance: random longer
    n_rand = (4000 if ctx.quick else 60000) * ctx.scale

    def rand_word(n, alpha):
        return bytes(rng.choice(alpha) for _ in range(n))

    def mutate(s, k, alpha):
        s = bytearray(s)
        for _ in range(k):
            r = rng.random()
            pos = rng.randrange(len(s) + 1)
            if r < 0.34 and s:
                s[min(pos, len(s) - 1)] = rng.choice(alpha)
            elif r < 0.67 and s:
                del s[min(pos, len(s) - 1)]
            else:
                s.insert(pos, rng.choice(alpha))
        return bytes(s)

    for i in range(n_rand):
        if len(ctx.fails) > 3000:
            break
        alpha = rng.choice([b"AC", b"ACGT", b"ACGT", bytes(range(1, 256))])
        n = rng.choice([3, 7, 12, 20, 35, 60] if ctx.quick else [3, 7, 12, 20, 35, 60, 120])
        s = rand_word(rng.randrange(0, n + 1), alpha)
        style = rng.random()
        if style < 0.55:
            t = mutate(s, rng.randrange(0, 6), alpha)       # small distance: the band matters
        elif style < 0.7:
            core_s, core_t = rand_word(rng.randrange(0, 8), alpha), rand_word(rng.randrange(0, 8), alpha)
            pre, suf = rand_word(rng.randrange(0, 10), alpha), rand_word(rng.randrange(0, 10), alpha)
            s, t = pre + core_s + suf, pre + core_t + suf   # trimming
        elif style < 0.8:
            k = rng.randrange(0, len(s) + 1)
            t = s[k:] + s[:k]                               # rotation: long diagonal shifts
        else:
            t = rand_word(rng.randrange(0, n + 1), alpha)
        mx = max(len(s), len(t))
        if mx > 24:
            d = lev_naive(s, t)
            bands = sorted({-1, 0, 1, 2, d - 1, d, d + 1, abs(len(s) - len(t)), abs(len(s) - len(t)) + 1, mx, mx + 1,
                            rng.randrange(0, mx + 2), rng.randrange(0, mx + 2)} - {-2})
            bands = [e for e in bands if e >= -1]
        else:
            bands = None
        do_edit(s, t, as_str=(max(s + t + b"\0") < 128 and i % 3 == 0 and 0 not in s + t), bands=bands)
    flush()

"""C19 — genotype indexing is a bijection; edit distance is true Levenshtein distance.

Correspondence: the real `whatshap.core.Genotype` / `binomial_coefficient` / `whatshap.align.edit_distance`
against the Lean model (exact: every observable must be equal).

Property oracle (independent of the Lean model and of the code's formulas):
* index of a genotype = its rank in the VCF order of all multisets (enumerated recursively for small
  ploidy/allele counts; for the sampled large ones the rank is counted with a Pascal-rule table – additions
  only, no multiply/divide loop); indices of all genotypes of ploidy p over a alleles are exactly
  0 .. count-1; restoring index i gives the i-th genotype; `==` <=> same multiset, `<` <=> smaller rank
  (same ploidy); `__setstate__(__getstate__())` gives an equal genotype.
* edit distance = naive memoised Levenshtein recursion on suffixes; banded: exact if lev <= maxdiff,
  else > maxdiff.

* several objects alive at once (a Genotype is mutable: `__setstate__` replaces the wrapped C++ object in place): a restore changes
  the object it is called on and no other; `copy.deepcopy` (of an object or of a container / VariantTable holding it) gives
  objects with the same genotype whose later restores do not reach the original, and vice versa (shadow list of multisets).

Machine level (deepening): `Genotype(uint64_t index, uint32_t ploidy)`, the packed 64-bit word (`get_code()`), `==`/`<`
between objects built by either constructor, `convert_index_to_alleles` with its narrowing of the index, and
`binomial_coefficient` beyond its exact range are compared with the fixed-width Lean model (`Model/C19Word.lean`).
Reached through `PhredGenotypeLikelihoods.genotypes()` (the only use of the index constructor from Python) and through
`harness/gen/c19_shim.py` (the tree's genotype.cpp/binomial.cpp behind ctypes).  Oracle: word layout from genotype.h,
rank/unrank by a Pascal table, the two constructors must build the same word, `<` = lexicographic order of the
descending vectors.  Boundary: ploidy 0/15/16/17, allele 16, index = count, count+1, index + k*2^32.
"""
import functools, itertools, json, os, sys

RULE = ("genotype cases: constructor from an arbitrary-order allele list, index, as_vector, ploidy, save/restore, "
        "restore from (index, ploidy), ==/!=/< on pairs; non-trivial = ploidy >= 2 with >= 2 distinct alleles (or a pair of such). "
        "heap cases: a history over several Genotype objects (construct, copy.deepcopy of objects / lists / tuples / dicts / nested containers / "
        "a VariantTable, __setstate__ into originals and copies), every object observed after every step; non-trivial = at least one deep copy and "
        "one restore while >= 2 objects are alive. "
        "machine-level cases: Genotype(index, ploidy) / the packed word of an allele list / genotypes() of one (ploidy, alleles) / a "
        "mixed-origin comparison; non-trivial as above. "
        "edit-distance cases: one (s, t) pair evaluated unbanded and for every band 0..max(len)+1; non-trivial = both strings "
        "non-empty and different after removing the common prefix and suffix (the DP runs), distinct = distinct pair")
MANIFEST = dict(
    text="Lean 4 theorems about exact models of binomial_coefficient, get_index, convert_index_to_alleles, the packed "
         "Genotype word (both constructors, with the int/uint32 wrap-around, the narrowing of the index and the guards as executed; "
         "index -> genotype -> index and genotype -> index -> genotype through the code's two directions, word layout and injectivity, "
         "< = documented order, behaviour at ploidy 0/15/>=16 and beyond the count) and of edit_distance (trimming, single-row DP, band with stale cells and early exit): index/alleles "
         "round trip for every ploidy and allele count, gap-free indices with count C(p+a-1,p), ==/</save-restore agree with "
         "the index, edit_distance = Levenshtein recursion for all strings, banded result exact-or-larger for every band; "
         "models tied to the working tree by differential correspondence and an independent enumeration / naive-Levenshtein oracle",
    design_ref="DESIGN.md §5 C19",
    note="trusted: Lean kernel, axioms ⊆ {propext, Classical.choice, Quot.sound}; the hand-written models (correspondence is "
         "differential testing: exhaustive small genotype spaces and string pairs + random large ones); C int/uint32 arithmetic "
         "is modelled with wrap-around and proved equal to unbounded arithmetic within the limits; where `int` overflows (undefined "
         "behaviour, only outside the supported range) a difference between build and model is recorded, not reported; "
         "F55 (advertised maximum ploidy 15 not constructible) is recorded as an observation, fixes/F55.patch; "
         "pickle/copy.copy of Genotype raising TypeError (F10) is recorded as an observation, not part of save/restore as stated",
    technique="Lean 4 proof (combinatorial number system, Wagner–Fischer DP invariant with band) + differential correspondence",
)
ASSUMPTIONS = [
    "strings are bytes or ASCII str (edit_distance takes len() before .encode(); non-ASCII str is outside the model)",
    "maxdiff is -1 (unbanded) or >= 0 and far below 2^31 (C int overflow of j+e+1 not modelled); maxdiff < -1 is not a band width and is not exercised",
    "allele values fit uint32 and indices uint64 (Cython conversion raises OverflowError otherwise); ploidy of the index constructor "
    "is exercised up to 33 (the vector it allocates has `ploidy` entries)",
    "binomial_coefficient is compared strictly where the model's peak intermediate product is < 2^31 (n <= 29 covers the supported "
    "limits); beyond that signed overflow is undefined behaviour: the model wraps to 32 bits like this build, a difference is an observation",
    "the ctypes shim compiles src/genotype.cpp + src/binomial.cpp of the tree under test separately from whatshap.core (same "
    "sources, -std=c++11 -O2); every genotype it builds within the limits is also compared with whatshap.core.Genotype",
]

MAXP, MAXA = 14, 16


# ------------------------------------------------------------------------------------------------ oracles

@functools.lru_cache(maxsize=None)
def vcf_order(p, a):
    """all multisets of size p over alleles < a (ascending tuples) in VCF order"""
    if p == 0:
        return ((),)
    out = []
    for x in range(a):
        for g in vcf_order(p - 1, x + 1):
            out.append(g + (x,))
    return tuple(out)


@functools.lru_cache(maxsize=None)
def n_multisets(p, a):
    """number of multisets of size p over a kinds, Pascal's rule (additions only)"""
    if p == 0:
        return 1
    if a == 0:
        return 0
    return n_multisets(p - 1, a) + n_multisets(p, a - 1)


def rank(g):
    """rank of the ascending tuple g in VCF order: genotypes before g either have a smaller k-th largest ... counted
    position by position from the largest allele down (colex order)"""
    g = sorted(g)
    r = 0
    for k in range(len(g), 0, -1):
        # all genotypes agreeing on positions > k and having a smaller allele at position k:
        # their first k entries are any multiset of size k over alleles < g[k-1]
        r += n_multisets(k, g[k - 1])
    return r


def unrank(r, p):
    """ascending genotype of ploidy p with rank r in VCF order (Pascal table, additions only)"""
    out = []
    for k in range(p, 0, -1):
        x = 0
        while n_multisets(k, x + 1) <= r:
            x += 1
        r -= n_multisets(k, x)
        out.append(x)
    return tuple(out[::-1])


def lev_naive(s, t):
    sys.setrecursionlimit(max(sys.getrecursionlimit(), 4 * (len(s) + len(t)) + 1000))

    @functools.lru_cache(maxsize=None)
    def d(i, j):
        if i == len(s):
            return len(t) - j
        if j == len(t):
            return len(s) - i
        return min(d(i + 1, j + 1) + (s[i] != t[j]), d(i + 1, j) + 1, d(i, j + 1) + 1)
    return d(0, 0)


# ------------------------------------------------------------------------------------------------ implementation side

def immortal(obj):
    """__setstate__ deletes thisptr before the throwing constructor: the object is left dangling and its dealloc
    would abort the process (double free).  Leak it so that a broken implementation yields a report, not a crash."""
    import ctypes
    ctypes.pythonapi.Py_IncRef(ctypes.py_object(obj))


def impl_geno_obs(Genotype, g):
    st = g.__getstate__()
    h = Genotype([])
    try:
        h.__setstate__(st)
        restored = {"vector": list(h.as_vector()), "eq": bool(h == g)}
    except RuntimeError as e:
        immortal(h)
        restored = err_of(e)
    return {"vector": list(g.as_vector()), "index": g.get_index(), "ploidy": g.get_ploidy(),
            "state": [int(st[0]), int(st[1])], "restored": restored}


def err_of(e):
    m = str(e)
    if "ploidy" in m:
        return {"err": "ploidy"}
    if "alleles" in m or "allele" in m:
        return {"err": "alleles"}
    if "sorted" in m:
        return {"err": "unsorted"}
    return {"err": m}


def run_geno(Genotype, alleles):
    try:
        g = Genotype(list(alleles))
    except RuntimeError as e:
        return None, err_of(e)
    return g, impl_geno_obs(Genotype, g)


def run_state(Genotype, index, ploidy):
    h = Genotype([])
    try:
        h.__setstate__((index, ploidy))
    except RuntimeError as e:
        immortal(h)
        return None, err_of(e)
    return h, impl_geno_obs(Genotype, h)


# ------------------------------------------------------------------------------------------------ run

def run(ctx):
    import copy, pickle
    from whatshap.core import Genotype, binomial_coefficient
    from whatshap.align import edit_distance
    import whatshap.core, whatshap.align
    if ctx.overlay:
        # the overlay can be pruned by a concurrent check of another property; never silently test /repo's installed build
        for mod in (whatshap.core, whatshap.align):
            if not os.path.realpath(mod.__file__).startswith(os.path.realpath(ctx.overlay) + os.sep):
                from harness.common import Infra
                raise Infra(f"{mod.__name__} was imported from {mod.__file__}, not from the overlay {ctx.overlay}")
    if os.environ.get("C19_DEBUG"):
        import faulthandler, signal
        faulthandler.register(signal.SIGUSR1)
    rng = ctx.rng
    batch, meta = [], []
    answers = []
    from harness.gen import c19_shim
    from harness.common import Infra
    try:
        shim = c19_shim.Shim()
    except c19_shim.ShimError as e:
        # the tree's genotype.cpp does not compile: whatshap.core would not have been built either
        raise Infra(str(e))
    shim_err = c19_shim.err_name

    def flush():
        if not batch:
            return
        answers = ctx.model.ask_many(batch)
        for req, (case, impl, proj), ans in zip(batch, meta, answers):
            got = proj(ans) if proj else ans
            if got != impl:
                ctx.disagree(req["op"], case, impl, got)
        batch.clear(); meta.clear()

    def ask(req, case, impl, proj=None):
        batch.append(req); meta.append((case, impl, proj))
        if len(batch) >= 400:
            flush()

    # ---------------------------------------------------------------- case handlers
    def do_geno(alleles, model=True):
        case = {"kind": "geno", "alleles": list(alleles)}
        g, obs = run_geno(Genotype, alleles)
        ctx.evaluated()
        p = len(alleles)
        ctx.dist("ploidy", p)
        if p >= 15 or any(x >= 16 for x in alleles):
            exp_err = {"err": "ploidy"} if p >= 15 else {"err": "alleles"}
            if obs != exp_err:
                ctx.fail(f"Genotype({list(alleles)}) outside the limits gave {obs}, expected {exp_err}", case, key="geno-limits")
        elif g is None:
            ctx.fail(f"Genotype({list(alleles)}) within the limits raised {obs}", case, key="geno-ctor")
        else:
            srt = sorted(alleles)
            r = rank(srt)
            if len(set(alleles)) >= 2:
                ctx.nontrivial(("g",) + tuple(srt))
            if obs["vector"] != srt[::-1]:
                ctx.fail(f"as_vector {obs['vector']} is not the descending multiset of {list(alleles)}", case, key="geno-vector")
            if obs["ploidy"] != p:
                ctx.fail(f"ploidy {obs['ploidy']} != {p}", case, key="geno-ploidy")
            if obs["index"] != r:
                ctx.fail(f"get_index {obs['index']} of {srt} is not its rank {r} in VCF order", case, key="geno-index")
            if obs["state"] != [obs["index"], obs["ploidy"]]:
                ctx.fail(f"__getstate__ {obs['state']} disagrees with (index, ploidy) = {(obs['index'], obs['ploidy'])}", case, key="geno-state")
            if obs["restored"] != {"vector": obs["vector"], "eq": True}:
                ctx.fail(f"__setstate__(__getstate__()) of {srt} gives {obs['restored']}", case, key="geno-roundtrip")
            ctx.sample({"alleles": list(alleles), "impl": obs})
        if model:
            ask({"op": "c19.geno", "alleles": list(alleles)}, case, obs)
        return g

    def do_state(index, ploidy, n_alleles=None, model=True):
        """restore from (index, ploidy); n_alleles: if given, index < count(ploidy, n_alleles) and alleles must be < n_alleles"""
        case = {"kind": "state", "index": index, "ploidy": ploidy, "n_alleles": n_alleles}
        h, obs = run_state(Genotype, index, ploidy)
        ctx.evaluated()
        if h is not None:
            asc = obs["vector"][::-1]
            if len(asc) != ploidy or asc != sorted(asc):
                ctx.fail(f"restore({index},{ploidy}) gives {obs['vector']}: wrong ploidy or not sorted", case, key="state-shape")
            elif rank(asc) != index or obs["index"] != index:
                ctx.fail(f"restore({index},{ploidy}) gives {asc} whose rank is {rank(asc)} / get_index {obs['index']} (gap or collision)", case, key="state-index")
            elif n_alleles is not None and ploidy > 0 and asc[-1] >= n_alleles:
                ctx.fail(f"restore({index},{ploidy}) uses allele {asc[-1]} >= {n_alleles} although index < count", case, key="state-range")
            if n_alleles is not None and n_alleles <= 7 and ploidy <= 7:
                exp = list(vcf_order(ploidy, n_alleles)[index])
                if asc != exp:
                    ctx.fail(f"restore({index},{ploidy}) = {asc}, the {index}-th genotype in VCF order is {exp}", case, key="state-enum")
            if len(set(asc)) >= 2:
                ctx.nontrivial(("s", index, ploidy))
        else:
            # legitimate only when the genotype of that index is outside the limits
            if ploidy < 15 and n_alleles is not None and n_alleles <= 16:
                ctx.fail(f"restore({index},{ploidy}) raised {obs} although index < count({ploidy},{n_alleles})", case, key="state-raise")
        if model:
            ask({"op": "c19.alleles", "index": index, "ploidy": ploidy}, case, obs, proj=lambda a: a.get("geno"))

    def do_cmp(a, b, ga=None, gb=None, model=True):
        case = {"kind": "cmp", "a": list(a), "b": list(b)}
        try:
            ga = ga or Genotype(list(a)); gb = gb or Genotype(list(b))
        except RuntimeError as e:
            ctx.evaluated()
            ctx.fail(f"Genotype({list(a)}) or Genotype({list(b)}) within the limits raised {e}", case, key="geno-ctor")
            return
        obs = {"eq": bool(ga == gb), "ne": bool(ga != gb), "lt": bool(ga < gb)}
        ctx.evaluated()
        sa, sb = sorted(a), sorted(b)
        if obs["ne"] == obs["eq"]:
            ctx.fail(f"{sa} == {sb} is {obs['eq']} but != is {obs['ne']}", case, key="cmp-ne")
        if len(a) != len(b):
            # the property speaks about one ploidy at a time; across ploidies the code compares the words (==) and the
            # bare indices (<).  Compared with the model, but a difference is only recorded, never an alarm.
            if model:
                ans = ctx.model.ask("c19.cmp", a=list(a), b=list(b))
                if ans != obs:
                    ctx.observe(f"cross-ploidy comparison differs from the model (outside the property): {sa} vs {sb}: impl {obs}, model {ans}")
            return
        if obs["eq"] != (sa == sb):
            ctx.fail(f"{sa} == {sb} is {obs['eq']}", case, key="cmp-eq")
        if True:
            ra, rb = rank(sa), rank(sb)
            if obs["eq"] != (ra == rb):
                ctx.fail(f"{sa} == {sb} is {obs['eq']} but indices are {ra}, {rb}", case, key="cmp-eq-index")
            if obs["lt"] != (ra < rb):
                ctx.fail(f"{sa} < {sb} is {obs['lt']} but indices are {ra}, {rb}", case, key="cmp-lt")
            if model and len(set(a)) >= 2 and len(set(b)) >= 2:
                ctx.nontrivial(("c",) + tuple(sa) + (-1,) + tuple(sb))
        if model:
            ask({"op": "c19.cmp", "a": list(a), "b": list(b)}, case, obs)

    def do_binom(n, k):
        case = {"kind": "binom", "n": n, "k": k}
        ans = ctx.model.ask("c19.binom", n=n, k=k)
        ctx.evaluated()
        if ans["peak"] >= 2 ** 31:
            return
        v = binomial_coefficient(n, k)
        import math
        exp = math.comb(n, k) if (n >= 0 and 0 <= k <= n) else 0
        if v != exp:
            ctx.fail(f"binomial_coefficient({n},{k}) = {v}, expected {exp}", case, key="binom")
        if ans["value"] != v:
            ctx.disagree("c19.binom", case, v, ans["value"])

    def do_edit(s, t, as_str=False, model=True, bands=None):
        """s, t: bytes"""
        case = {"kind": "edit", "s": s.decode("latin-1"), "t": t.decode("latin-1"), "as_str": as_str}
        if bands is None:
            bands = [-1] + list(range(0, max(len(s), len(t)) + 2))
        case["bands"] = bands
        a, b = (s.decode("ascii"), t.decode("ascii")) if as_str else (s, t)
        res = [edit_distance(a, b) if e == -1 else edit_distance(a, b, e) for e in bands]
        ctx.evaluated()
        d = lev_naive(s, t)
        ctx.dist("lev", d if d < 10 else "10+")
        ctx.dist("len", min(len(s), len(t)) // 10 * 10)
        for e, r in zip(bands, res):
            if e == -1:
                if r != d:
                    ctx.fail(f"edit_distance({a!r},{b!r}) = {r}, Levenshtein distance is {d}", case, key="edit-unbanded")
            elif d <= e:
                if r != d:
                    ctx.fail(f"edit_distance({a!r},{b!r},maxdiff={e}) = {r}, true distance {d} <= band", case, key="edit-band-exact")
            elif not r > e:
                ctx.fail(f"edit_distance({a!r},{b!r},maxdiff={e}) = {r} is not > band although true distance is {d}", case, key="edit-band-larger")
        # non-trivial: DP runs
        i = 0
        while i < min(len(s), len(t)) and s[i] == t[i]:
            i += 1
        s2, t2 = s[i:], t[i:]
        while s2 and t2 and s2[-1] == t2[-1]:
            s2, t2 = s2[:-1], t2[:-1]
        if s2 and t2:
            ctx.nontrivial(("e", s, t))
        if len(ctx.samples) < 4 and s2 and t2 and len(s) > 3:
            ctx.sample({"s": case["s"], "t": case["t"], "bands": bands, "impl": res, "lev": d})
        if model:
            ask({"op": "c19.edit", "s": list(s), "t": list(t), "bands": bands}, case, res)

    def do_case(c):
        k = c.get("kind")
        if k == "geno":
            do_geno(c["alleles"])
        elif k == "state":
            do_state(c["index"], c["ploidy"], c.get("n_alleles"))
        elif k == "cmp":
            do_cmp(c["a"], c["b"])
        elif k == "binom":
            do_binom(c["n"], c["k"])
        elif k == "edit":
            do_edit(c["s"].encode("latin-1"), c["t"].encode("latin-1"), as_str=c.get("as_str", False), bands=c.get("bands"))
        elif k == "enum":
            do_enum(c["ploidy"], c["alleles"])
        elif k == "reuse":
            do_reuse(c["chain"], c["queries"])
        elif k == "heap":
            do_heap(c["ops"])
        elif k == "word":
            do_word(c["alleles"])
        elif k == "fromindex":
            do_fromindex(c["index"], c["ploidy"], c.get("n_alleles"))
        elif k == "genotypes":
            do_genotypes(c["ploidy"], c["alleles"])
        elif k == "cmpw":
            do_cmpw(c["x"], c["y"])
        elif k == "convert":
            do_convert(c["index"], c["ploidy"])
        elif k == "binom32":
            do_binom32(c["n"], c["k"])

    def do_reuse(chain, queries):
        """state restore INTO AN OBJECT THAT HAS BEEN USED: one Genotype object takes the states of the genotypes of
        `chain` one after the other, with index/hash/state/vector queried in between (as `queries` says); after each
        restore every observable must be that of a fresh genotype with those alleles"""
        case = {"kind": "reuse", "chain": [list(c) for c in chain], "queries": [list(q) for q in queries]}
        ctx.evaluated()
        try:
            return do_reuse_(case, chain, queries)
        except RuntimeError as e:
            # all genotypes of a chain are within the limits: nothing here may raise
            ctx.fail(f"re-using one Genotype object over {case['chain']} raised {e}", case, key="geno-ctor")

    def do_reuse_(case, chain, queries):
        g = Genotype(list(chain[0]))
        for step, (al, q) in enumerate(zip(chain[1:], queries)):
            for what in q:
                if what == "index": g.get_index()
                elif what == "hash": hash(g)
                elif what == "state": g.__getstate__()
                elif what == "vector": g.as_vector()
                elif what == "str": str(g)
            fresh = Genotype(list(al))
            try:
                g.__setstate__(fresh.__getstate__())
            except RuntimeError:
                immortal(g)            # F20: the object is dangling now
                raise
            srt = sorted(al)
            obs = {"vector": list(g.as_vector()), "index": g.get_index(), "ploidy": g.get_ploidy(),
                   "state": [int(x) for x in g.__getstate__()], "eq": bool(g == fresh), "lt": bool(g < fresh) or bool(fresh < g),
                   "hash_eq": hash(g) == hash(fresh), "hom": bool(g.is_homozygous())}
            exp = {"vector": srt[::-1], "index": rank(srt), "ploidy": len(srt), "state": [rank(srt), len(srt)], "eq": True,
                   "lt": False, "hash_eq": True, "hom": bool(fresh.is_homozygous())}
            if obs != exp:
                diff = {k: (obs[k], exp[k]) for k in exp if obs[k] != exp[k]}
                ctx.fail(f"an object restored to {srt} (step {step + 1} of re-using one object; queried {q} before) reports "
                         f"{diff} (observed, expected)", case, key="geno-restore-into-used-object")
                return
        ctx.nontrivial(("reuse", tuple(tuple(c) for c in chain), tuple(tuple(q) for q in queries)))

    def deep_copies(objs, via):
        """copy.deepcopy of the objects `objs` (distinct or not) through a container of kind `via`; returns the copies in the order of `objs`"""
        if via == "each":
            memo = {}
            return [copy.deepcopy(o, memo) for o in objs]
        if via == "list":
            return list(copy.deepcopy(list(objs)))
        if via == "tuple":
            return list(copy.deepcopy(tuple(objs)))
        if via == "dict":
            d = copy.deepcopy({i: o for i, o in enumerate(objs)})
            return [d[i] for i in range(len(objs))]
        if via == "nested":
            d = copy.deepcopy({"a": [list(objs[0::2])], "b": (tuple(objs[1::2]), "x")})
            out = [None] * len(objs)
            out[0::2] = d["a"][0]; out[1::2] = d["b"][0]
            return out
        if via == "table":
            # what `whatshap phase` / `polyphase` do: deepcopy(variant_table); two samples, the objects laid out row by row
            from whatshap.vcf import VariantTable, BiallelicVcfVariant
            objs = list(objs)
            odd = len(objs) % 2
            if odd:
                objs.append(Genotype([]))
            t = VariantTable("chr1", ["s0", "s1"])
            for r in range(len(objs) // 2):
                t.add_variant(BiallelicVcfVariant(10 * r + 1, "A", "C"), [objs[2 * r], objs[2 * r + 1]], [None, None], [None, None], [None, None])
            t2 = copy.deepcopy(t)
            g0, g1 = t2.genotypes_of("s0"), t2.genotypes_of("s1")
            out = [x for pair in zip(g0, g1) for x in pair]
            return out[:-1] if odd else out
        raise ValueError(via)

    def do_heap(ops):
        """SEVERAL Genotype objects alive at once: a history of constructions, deep copies (of single objects and of containers,
        as `deepcopy(variant_table)` in phase.py does) and state restores into some of them.  A Genotype is mutable
        (`__setstate__` replaces the wrapped C++ object in place), so after EVERY step EVERY object is observed: the object a
        restore was called on must hold the restored genotype, a fresh copy must hold the genotype of its source, and every
        other object must still report its own index / alleles / state.  Oracle = a shadow list of allele multisets
        (rank/unrank by the Pascal table); model = `c19.heap` (cells in allocation order)."""
        case = {"kind": "heap", "ops": ops}
        ctx.evaluated()
        objs, shadow, enc = [], [], []       # handle k: the Python object, the multiset it must hold (ascending tuple)
        snaps = []
        interesting = False
        try:
            for step, op in enumerate(ops):
                kind = op["op"]
                touched, how = set(), kind
                if kind == "new":
                    objs.append(Genotype(list(op["alleles"]))); shadow.append(tuple(sorted(op["alleles"])))
                    touched = {len(objs) - 1}; enc.append([0] + list(op["alleles"]))
                elif kind == "copy":
                    srcs, via = list(op["srcs"]), op["via"]
                    new = deep_copies([objs[k] for k in srcs], via)
                    first = {}
                    for k, c in zip(srcs, new):
                        if k in first:           # the same object twice in one container: one copy (deepcopy's memo), nothing new
                            continue
                        first[k] = len(objs)
                        objs.append(c); shadow.append(shadow[k]); touched.add(len(objs) - 1)
                    enc.append([1, srcs[0]] if len(srcs) == 1 else [4] + srcs)
                    how = f"deepcopy via {via} of objects {srcs}"
                elif kind == "restore":
                    d = op["dst"]
                    try:
                        objs[d].__setstate__((op["index"], op["ploidy"]))
                    except RuntimeError:
                        immortal(objs[d]); raise
                    shadow[d] = unrank(op["index"], op["ploidy"]); touched = {d}
                    enc.append([2, d, op["index"], op["ploidy"]])
                    how = f"object {d}.__setstate__(({op['index']}, {op['ploidy']}))"
                    interesting = interesting or len(objs) > 1
                elif kind == "restorefrom":
                    d, k = op["dst"], op["src"]
                    try:
                        objs[d].__setstate__(objs[k].__getstate__())
                    except RuntimeError:
                        immortal(objs[d]); raise
                    shadow[d] = shadow[k]; touched = {d}
                    enc.append([3, d, k])
                    how = f"object {d}.__setstate__(object {k}.__getstate__())"
                    interesting = interesting or len(objs) > 1
                else:
                    raise ValueError(kind)
                snap = []
                for k, (g, want) in enumerate(zip(objs, shadow)):
                    fresh = Genotype(list(want))
                    st = g.__getstate__()
                    obs = {"vector": list(g.as_vector()), "index": g.get_index(), "ploidy": g.get_ploidy(), "state": [int(st[0]), int(st[1])],
                           "eq": bool(g == fresh), "ne": bool(g != fresh), "hash_eq": hash(g) == hash(fresh)}
                    exp = {"vector": list(want[::-1]), "index": rank(want), "ploidy": len(want), "state": [rank(want), len(want)],
                           "eq": True, "ne": False, "hash_eq": True}
                    snap.append([obs["vector"], obs["index"], obs["ploidy"]])
                    if obs != exp:
                        diff = {f: (obs[f], exp[f]) for f in exp if obs[f] != exp[f]}
                        if k in touched:
                            key = "heap-copy-value" if kind == "copy" else ("heap-new" if kind == "new" else "heap-restore-target")
                            ctx.fail(f"step {step} ({how}): object {k} should now be {list(want)} but reports {diff} (observed, expected)", case, key=key)
                        else:
                            ctx.fail(f"step {step} ({how}) changed ANOTHER object: object {k} held {list(want)} and was not touched, now it reports "
                                     f"{diff} (observed, expected); index, alleles, equality and saved state of an object must not depend "
                                     f"on restores into other objects / its copies", case, key="heap-other-object-changed")
                        return
                snaps.append(snap)
        except RuntimeError as e:
            # every genotype of a history is within the limits: nothing here may raise
            ctx.fail(f"history {ops} raised {e}", case, key="geno-ctor")
            return
        ctx.dist("heap objects", len(objs))
        if interesting and any(op["op"] == "copy" for op in ops):
            ctx.nontrivial(("heap", json.dumps(ops, sort_keys=True)))
        ask({"op": "c19.heap", "ops": enc}, case, snaps)

    def gen_heap():
        """a random history: 1-3 constructed objects, then copies (single / containers, copies of copies) and restores into
        originals and copies; small ploidy/allele counts mostly, sometimes up to the limits"""
        small = rng.random() < 0.8
        def rand_alleles(p=None):
            if p is None:
                p = rng.choice([1, 2, 2, 2, 3, 4]) if small else rng.randrange(0, MAXP + 1)
            na = rng.choice([2, 2, 3, 4]) if small else rng.randrange(1, MAXA + 1)
            return [rng.randrange(na) for _ in range(p)]
        ops, n, has_copy = [], 0, False
        for _ in range(rng.randrange(1, 4)):
            ops.append({"op": "new", "alleles": rand_alleles()}); n += 1
        for _ in range(rng.randrange(2, 8)):
            r = rng.random()
            if r < 0.4 or not has_copy:
                if rng.random() < 0.5:
                    srcs, via = [rng.randrange(n)], rng.choice(["each", "each", "list", "dict", "table"])
                else:
                    srcs = [rng.randrange(n) for _ in range(rng.randrange(1, 5))]
                    via = rng.choice(["each", "list", "tuple", "dict", "nested", "table", "table"])
                ops.append({"op": "copy", "srcs": srcs, "via": via}); n += len(set(srcs)); has_copy = True
            elif r < 0.75:
                al = rand_alleles(rng.choice([None, None, 2]))
                ops.append({"op": "restore", "dst": rng.randrange(n), "index": rank(al), "ploidy": len(al)})
            else:
                ops.append({"op": "restorefrom", "dst": rng.randrange(n), "src": rng.randrange(n)})
        return ops

    def do_enum(p, a):
        """all genotypes of ploidy p over a alleles: indices are exactly 0..count-1 in VCF order (no gaps)"""
        case = {"kind": "enum", "ploidy": p, "alleles": a}
        order = vcf_order(p, a)
        idx = []
        for g in order:
            try:
                idx.append(Genotype(list(g)).get_index())
            except RuntimeError as e:
                ctx.evaluated()
                ctx.fail(f"Genotype({list(g)}) within the limits raised {e}", case, key="geno-ctor")
                return
        ctx.evaluated()
        if idx != list(range(len(order))):
            bad = next(i for i, x in enumerate(idx) if x != i)
            ctx.fail(f"indices of the genotypes of ploidy {p} over {a} alleles are not 0..{len(order)-1} in VCF order "
                     f"(first: {list(order[bad])} has index {idx[bad]}, rank {bad})", case, key="enum-gaps")
        if len(order) != n_multisets(p, a):
            raise AssertionError("oracle inconsistency")
        ans = ctx.model.ask("c19.enum", ploidy=p, alleles=a)
        if ans["count"] != len(order) or ans["spec"] != [list(g) for g in order]:
            ctx.disagree("c19.enum/spec-vs-python-oracle", case, len(order), ans["count"])
        if ans["model"] != [list(g) for g in order]:
            ctx.disagree("c19.enum", case, "vcf order", "model differs from VCF order")
        ctx.nontrivial(("enum", p, a))


    # ---------------------------------------------------------------- machine level (deepening): the index constructor,
    # the packed word, the order, narrowing.  `shim` = src/genotype.cpp + src/binomial.cpp of the tree under test behind ctypes.
    U32 = 2 ** 32

    def expected_code(desc, ploidy):
        """layout documented in genotype.h: nibble 15 = ploidy, nibble q < ploidy = q-th largest allele"""
        w = ploidy << 60
        for q, x in enumerate(desc):
            w |= x << (4 * q)
        return w

    def defined_territory(index, ploidy):
        """inputs on which no `int` overflows inside binomial_coefficient (signed overflow is undefined behaviour: there the
        model states what this build does, and a difference is recorded, not reported)"""
        i32 = index % U32
        if ploidy == 0:
            return True
        if ploidy <= 14:
            return i32 <= n_multisets(ploidy, 16)
        if ploidy == 15:
            return i32 <= n_multisets(15, 15)
        return i32 <= 3

    def differ(op, case, impl, got, strict):
        if impl == got:
            return
        if strict:
            ctx.disagree(op, case, impl, got)
        else:
            ctx.observe(f"outside the supported range AND in undefined-behaviour territory (int overflow): {op} {case}: impl {impl}, model {got}")

    def strip_ideal(ans):
        """the model reports get_index twice: as executed (uint32) and on unbounded integers; within the limits they coincide"""
        if isinstance(ans, dict) and "index_ideal" in ans:
            ans = dict(ans); ans.pop("index_ideal")
        return ans

    def check_word_obs(obs, asc, case, what):
        """property-level expectations for a successfully built genotype with ascending alleles `asc` (within the limits)"""
        p = len(asc)
        exp = {"code": str(expected_code(asc[::-1], p)), "vector": asc[::-1], "index": rank(asc), "ploidy": p, "none": p == 0,
               "hom": p > 0 and len(set(asc)) == 1, "dipbi": p == 2 and max(asc) <= 1, "str": list(asc) if p else None}
        if obs != exp:
            diff = {k: (obs.get(k), exp[k]) for k in exp if obs.get(k) != exp[k]}
            ctx.fail(f"{what}: {diff} (observed, expected)", case, key="word-" + sorted(diff)[0])

    def do_binom32(n, k):
        """binomial_coefficient beyond the supported table: `int` wrap-around as executed"""
        case = {"kind": "binom32", "n": n, "k": k}
        v, v2 = binomial_coefficient(n, k), shim.binom(n, k)
        ctx.evaluated()
        if v != v2:
            ctx.observe(f"binomial_coefficient({n},{k}) = {v} in whatshap.core but {v2} in a separate compilation of binomial.cpp (undefined behaviour made visible)")
        peak = ctx.model.ask("c19.binom", n=n, k=k)["peak"] if abs(n) < 10 ** 6 and abs(k) < 10 ** 6 else 2 ** 31
        ans = ctx.model.ask("c19.binom32", n=n, k=k)
        differ("c19.binom32", case, v, ans, strict=(peak < 2 ** 31))

    def do_word(alleles):
        """vector constructor seen through the C++ interface: packed word, observers; tied to whatshap.core"""
        case = {"kind": "word", "alleles": list(alleles)}
        obs = shim.from_alleles(list(alleles))
        ctx.evaluated()
        p = len(alleles)
        if p < 15 and all(x < 16 for x in alleles):
            if "err" in obs:
                ctx.fail(f"Genotype({list(alleles)}) within the limits raised {obs}", case, key="geno-ctor")
            else:
                check_word_obs(obs, sorted(alleles), case, f"C++ Genotype({list(alleles)})")
                try:
                    g = Genotype(list(alleles))
                except RuntimeError as e:
                    ctx.fail(f"whatshap.core.Genotype({list(alleles)}) raised {e}, the separately compiled class did not", case, key="word-module")
                    return
                via_module = {"vector": list(g.as_vector()), "index": g.get_index(), "ploidy": g.get_ploidy(), "none": bool(g.is_none()),
                              "hom": bool(g.is_homozygous()), "dipbi": bool(g.is_diploid_and_biallelic()),
                              "str": None if str(g) == "." else [int(x) for x in str(g).split("/")], "hash": hash(g)}
                direct = {k: obs[k] for k in via_module if k != "hash"}
                direct["hash"] = hash(obs["index"])
                if via_module != direct:
                    ctx.fail(f"whatshap.core.Genotype({list(alleles)}) reports {via_module}, the C++ class {direct}", case, key="word-module")
                if len(set(alleles)) >= 2:
                    ctx.nontrivial(("w",) + tuple(sorted(alleles)))
        ask({"op": "c19.word", "alleles": list(alleles)}, case, obs, proj=strip_ideal)

    def do_fromindex(index, ploidy, n_alleles=None):
        """Genotype(uint64_t index, uint32_t ploidy); n_alleles: if given, index < count(ploidy, n_alleles)"""
        case = {"kind": "fromindex", "index": index, "ploidy": ploidy, "n_alleles": n_alleles}
        obs = shim.from_index(index, ploidy)
        ctx.evaluated()
        ctx.dist("index-ctor ploidy", ploidy)
        if n_alleles is not None and 1 <= ploidy <= 14 and n_alleles <= 16:
            if "err" in obs:
                ctx.fail(f"Genotype(index={index}, ploidy={ploidy}) raised {obs} although index < count({ploidy},{n_alleles})", case, key="fromindex-raise")
            else:
                asc = obs["vector"][::-1]
                if len(asc) != ploidy or asc != sorted(asc) or rank(asc) != index:
                    ctx.fail(f"Genotype(index={index}, ploidy={ploidy}) = {asc}: not the genotype of rank {index} (its rank: {rank(sorted(asc))})", case, key="fromindex-rank")
                elif asc and asc[-1] >= n_alleles:
                    ctx.fail(f"Genotype(index={index}, ploidy={ploidy}) uses allele {asc[-1]} >= {n_alleles}", case, key="fromindex-range")
                else:
                    check_word_obs(obs, asc, case, f"Genotype(index={index}, ploidy={ploidy})")
                    # the two coded directions meet: the vector constructor on these alleles builds the same word, and
                    # get_index of it is the index we started from
                    back = shim.from_alleles(asc)
                    if back != obs:
                        ctx.fail(f"Genotype(index={index}, ploidy={ploidy}) and Genotype({asc}) differ: {obs} vs {back}", case, key="fromindex-vs-vector")
                    if n_alleles <= 7 and ploidy <= 7 and asc != list(vcf_order(ploidy, n_alleles)[index]):
                        ctx.fail(f"Genotype(index={index}, ploidy={ploidy}) = {asc}, VCF order has {list(vcf_order(ploidy, n_alleles)[index])}", case, key="fromindex-enum")
                    if len(set(asc)) >= 2:
                        ctx.nontrivial(("fi", index, ploidy))
        answers.append(({"op": "c19.fromindex", "index": str(index), "ploidy": ploidy}, case, obs, defined_territory(index, ploidy)))
        if len(answers) >= 400:
            flush_answers()

    def do_genotypes(p, a):
        """PhredGenotypeLikelihoods(gl, p, a).genotypes(): the index constructor as reachable from Python"""
        from whatshap.core import PhredGenotypeLikelihoods
        case = {"kind": "genotypes", "ploidy": p, "alleles": a}
        size = binomial_coefficient(p + a - 1, a - 1)
        ctx.evaluated()
        if p <= 14 and 1 <= a <= 16 and size != n_multisets(p, a):
            ctx.fail(f"number of genotype likelihoods expected for ploidy {p}, {a} alleles is {size}, there are {n_multisets(p, a)} genotypes", case, key="genotypes-count")
            return
        try:
            gl = PhredGenotypeLikelihoods([0.0] * size, p, a)
        except RuntimeError as e:
            ctx.fail(f"PhredGenotypeLikelihoods of size {size} for ploidy {p}, {a} alleles raised {e}", case, key="genotypes-ctor")
            return
        try:
            obs = {"vectors": [list(g.as_vector()) for g in gl.genotypes()]}
        except RuntimeError as e:
            obs = shim_err(str(e))
        if 1 <= p <= 14 and 1 <= a <= 16:
            exp = [list(g[::-1]) for g in vcf_order(p, a)] if (p <= 7 and a <= 7) else None
            if "err" in obs:
                ctx.fail(f"genotypes() for ploidy {p}, {a} alleles raised {obs}", case, key="genotypes-raise")
            elif len(obs["vectors"]) != size or any(rank(v[::-1]) != i or v != sorted(v, reverse=True) for i, v in enumerate(obs["vectors"])) \
                    or (exp is not None and obs["vectors"] != exp):
                bad = next((i for i, v in enumerate(obs["vectors"]) if rank(sorted(v)) != i or v != sorted(v, reverse=True)), None)
                ctx.fail(f"genotypes() for ploidy {p}, {a} alleles is not the list of genotypes in index order "
                         f"(first wrong: position {bad}: {obs['vectors'][bad] if bad is not None else '-'})", case, key="genotypes-order")
            else:
                ctx.nontrivial(("gts", p, a))
        ask({"op": "c19.enumindex", "ploidy": p, "size": size}, case, obs)

    def do_cmpw(x, y):
        """==, !=, < between C++ genotypes of either origin: x, y = ["a", alleles] or ["i", index, ploidy]"""
        case = {"kind": "cmpw", "x": list(x), "y": list(y)}
        obs = shim.cmp(tuple(x), tuple(y))
        ctx.evaluated()
        req = {"op": "c19.cmpw"}
        sides = []
        for name, z in (("a", x), ("b", y)):
            if z[0] == "a":
                req[name] = list(z[1]); sides.append(sorted(z[1]) if len(z[1]) < 15 and all(v < 16 for v in z[1]) else None)
            else:
                req[name + "_index"] = [z[1], z[2]]
                sides.append(list(unrank(z[1], z[2])) if 1 <= z[2] <= 14 and z[1] < n_multisets(z[2], 16) else None)
        if None not in sides and "err" not in obs:
            sa, sb = sides
            if obs["ne"] == obs["eq"]:
                ctx.fail(f"{sa} == {sb} is {obs['eq']} but != is {obs['ne']}", case, key="cmp-ne")
            if obs["eq"] != (sa == sb):
                ctx.fail(f"{sa} == {sb} is {obs['eq']} (genotypes built by {x[0]}/{y[0]} constructors)", case, key="cmpw-eq")
            if len(sa) == len(sb):
                if obs["lt"] != (rank(sa) < rank(sb)):
                    ctx.fail(f"{sa} < {sb} is {obs['lt']} but indices are {rank(sa)}, {rank(sb)}", case, key="cmp-lt")
                # the documented order: the largest allele decides first = lexicographic on the descending vectors
                if obs["lt"] != (sa[::-1] < sb[::-1]):
                    ctx.fail(f"{sa} < {sb} is {obs['lt']}, the documented enumeration order says {sa[::-1] < sb[::-1]}", case, key="cmpw-lex")
                if len(set(sa)) >= 2 and len(set(sb)) >= 2:
                    ctx.nontrivial(("cw",) + tuple(sa) + (-1,) + tuple(sb))
            ask(req, case, dict(obs, lex=(sa[::-1] < sb[::-1])))
        else:
            ask(req, case, obs, proj=lambda a: {k: v for k, v in a.items() if k != "lex"})

    def do_convert(index, ploidy):
        """convert_index_to_alleles / __setstate__ with the index narrowed to 32 bits (index may exceed 2^32)"""
        case = {"kind": "convert", "index": index, "ploidy": ploidy}
        raw = shim.convert(index, ploidy)
        h = Genotype([])
        try:
            h.__setstate__((index, ploidy))
            geno = {"vector": list(h.as_vector()), "index": h.get_index(), "ploidy": h.get_ploidy()}
        except RuntimeError as e:
            immortal(h)
            geno = err_of(e)
        ctx.evaluated()
        if index >= U32 and 1 <= ploidy <= 14 and index % U32 < n_multisets(ploidy, 16) and "err" not in geno:
            ctx.observe("narrowing: __setstate__((i + k*2^32, ploidy)) silently restores the genotype of index i (uint64_t index is assigned "
                        "to uint32_t in convert_index_to_alleles, e.g. (4294967301, 3) -> 0/1/2); outside the supported range, equal to the model")
        answers.append(({"op": "c19.convert", "index": str(index), "ploidy": ploidy}, case, {"raw": raw, "geno": geno},
                        defined_territory(index, ploidy)))
        if len(answers) >= 400:
            flush_answers()

    def flush_answers():
        if not answers:
            return
        res = ctx.model.ask_many([a[0] for a in answers])
        for (req, case, impl, strict), ans in zip(answers, res):
            if req["op"] == "c19.convert":
                g = ans.get("geno", {})
                ans = {"raw": ans.get("raw"), "geno": g if "err" in g else {k: g.get(k) for k in ("vector", "index", "ploidy")}}
            else:
                ans = strip_ideal(ans)
            differ(req["op"], case, impl, ans, strict)
        answers.clear()

    # ---------------------------------------------------------------- replay / corpus
    if ctx.replay:
        do_case(json.load(open(ctx.replay))["case"]); flush(); flush_answers(); return
    for _, c in ctx.corpus():
        do_case(c)
    flush_answers()

    # ---------------------------------------------------------------- restore into used objects
    for _ in range((400 if ctx.quick else 6000) * ctx.scale):
        n = rng.randrange(2, 5)
        chain, queries = [], []
        for i in range(n):
            pl = rng.choice([1, 2, 2, 2, 3, 4, 6]) if rng.random() < 0.85 else rng.randrange(0, 15)
            na = rng.choice([2, 2, 3, 4, 6]) if rng.random() < 0.85 else rng.randrange(1, 17)
            al = [rng.randrange(na) for _ in range(pl)]
            rng.shuffle(al)
            chain.append(al)
            queries.append(rng.sample(["index", "hash", "state", "vector", "str"], rng.randrange(0, 4)))
        do_reuse(chain, queries[:-1])

    # ---------------------------------------------------------------- several objects alive: copies and restores (object independence)
    # exhaustive tiny: every genotype of ploidy <= 2 over 3 alleles, deep-copied, every other state of the same space restored
    # into the copy (and, the other way round, into the original)
    tiny = [g for p in (1, 2) for g in vcf_order(p, 3)]
    for x in tiny:
        for y in tiny:
            if x != y:
                into_copy = (rank(x) + rank(y)) % 2 == 0
                do_heap([{"op": "new", "alleles": list(x)}, {"op": "copy", "srcs": [0], "via": "each"},
                         {"op": "restore", "dst": 1 if into_copy else 0, "index": rank(y), "ploidy": len(y)}])
    for _ in range((400 if ctx.quick else 6000) * ctx.scale):
        if len(ctx.fails) > 300:
            break
        do_heap(gen_heap())
    flush()

    # ---------------------------------------------------------------- F10 observation: pickle / copy
    for al in ([0, 1], [2, 0, 1, 1], []):
        try:
            g = Genotype(al)
        except RuntimeError as e:
            ctx.fail(f"Genotype({al}) raised {e}", {"kind": "geno", "alleles": al}, key="geno-ctor")
            continue
        for name, f in (("pickle", lambda x: pickle.loads(pickle.dumps(x))), ("copy.copy", copy.copy), ("copy.deepcopy", copy.deepcopy)):
            try:
                h = f(g)
            except TypeError as e:
                ctx.observe(f"F10: {name} of a Genotype raises TypeError ({str(e)[:60]}); __getstate__/__setstate__ themselves work")
                continue
            if not (h == g) or list(h.as_vector()) != list(g.as_vector()):
                ctx.fail(f"{name} of Genotype({al}) gives {h}", {"kind": "geno", "alleles": al}, key="copy-" + name)

    # ---------------------------------------------------------------- binomial: whole supported table
    for n in range(-2, 32):
        for k in range(-2, 34):
            do_binom(n, k)

    # ---------------------------------------------------------------- genotypes: exhaustive small space
    EP, EA = (5, 5) if ctx.quick else (6, 6)
    small = []
    for p in range(0, EP + 1):
        for a in range(1, EA + 1):
            do_enum(p, a)
            cnt = n_multisets(p, a)
            for i in range(cnt):
                do_state(i, p, a)
        for g in vcf_order(p, EA):
            perm = list(g); rng.shuffle(perm)
            small.append((g, do_geno(perm)))
    ctx.extra["exhaustive_genotypes_ploidy_le_%d_alleles_le_%d" % (EP, EA)] = len(small)
    # all pairs (oracle), model on a sample
    n_model_pairs = (3000 if ctx.quick else 30000) * ctx.scale
    pairs = len(small) ** 2
    pm = min(1.0, n_model_pairs / pairs)
    for (a, ga) in small:
        for (b, gb) in small:
            do_cmp(a, b, ga, gb, model=(rng.random() < pm))
    ctx.extra["exhaustive_pairs"] = pairs

    def plenty():
        """a broken implementation is already demonstrated: stop generating (restores can take very long on broken code)"""
        return len(ctx.fails) > 300

    # ---------------------------------------------------------------- genotypes: sampled up to the limits
    n_big = (1500 if ctx.quick else 30000) * ctx.scale
    bigs = []
    for i in range(n_big):
        if plenty():
            break
        p = rng.randrange(0, MAXP + 1)
        a = rng.randrange(1, MAXA + 1)
        style = rng.random()
        if style < 0.15:
            al = [a - 1] * p                       # largest index of (p, a)
        elif style < 0.3:
            al = [rng.choice([0, a - 1]) for _ in range(p)]
        else:
            al = [rng.randrange(a) for _ in range(p)]
        g = do_geno(al)
        bigs.append((al, g))
        # restore from a random index below the count, and the last one
        cnt = n_multisets(p, a)
        do_state(rng.randrange(cnt), p, a)
        if i % 7 == 0:
            do_state(cnt - 1, p, a)
    for i in range(n_big if bigs else 0):
        (a, ga), (b, gb) = rng.choice(bigs), rng.choice(bigs)
        if rng.random() < 0.5:
            b = list(a); gb = None
            if b and rng.random() < 0.7:
                b[rng.randrange(len(b))] = rng.randrange(MAXA)
            rng.shuffle(b)
        do_cmp(a, b, ga, gb)
    # the limits themselves
    if not plenty():
        do_state(n_multisets(14, 16) - 1, 14, 16)
    do_geno([15] * 14); do_geno([0] * 14); do_geno([0] * 15); do_geno([16]); do_geno([3, 16, 1]); do_geno([0] * 16)
    do_state(15, 1, 16)
    # restore of a state OUTSIDE the limits (first genotype with allele 16; ploidy 15): not part of the property.
    # __setstate__ deletes thisptr before the constructor throws, so the object is left dangling and the process
    # aborts with a double free at dealloc -> run in a child process and record what happens (observation only).
    import subprocess
    for st in ((n_multisets(14, 16), 14), (16, 1), (0, 15)):
        code = ("from whatshap.core import Genotype\nh = Genotype([])\n"
                "try:\n h.__setstate__(%r)\n print('no-exception', h)\nexcept RuntimeError as e:\n print('RuntimeError')\n"
                "del h\nprint('alive')\n" % (st,))
        r = subprocess.run([sys.executable, "-c", code], capture_output=True, text=True)
        out = r.stdout.split()
        mdl = ctx.model.ask("c19.alleles", index=st[0], ploidy=st[1])["geno"]
        ctx.observe(f"outside the limits: __setstate__({st}) -> {out[0] if out else 'crash'}, then "
                    f"{'process survives' if 'alive' in out and r.returncode == 0 else 'process aborts (double free: thisptr deleted before the throwing constructor)'}; "
                    f"model: {mdl.get('err', 'ok')}")
    flush()

    # ---------------------------------------------------------------- deepening: index constructor, packed word, order, narrowing
    lim = ctx.model.ask("c19.limits")
    impl_lim = {"max_ploidy": whatshap.core.get_max_genotype_ploidy(), "max_alleles": whatshap.core.get_max_genotype_alleles()}
    if impl_lim != {"max_ploidy": shim.lib.c19_max_ploidy(), "max_alleles": shim.lib.c19_max_alleles()}:
        ctx.fail(f"whatshap.core reports limits {impl_lim}, genotype.cpp others", {"kind": "limits"}, key="limits-module")
    as_coded = {"max_ploidy": lim["max_ploidy"], "max_alleles": lim["max_alleles"]}
    repaired = {"max_ploidy": lim["max_ploidy_repaired"], "max_alleles": lim["max_alleles"]}      # fixes/F55.patch
    if impl_lim not in (as_coded, repaired):
        ctx.disagree("c19.limits", {"kind": "limits"}, impl_lim, [as_coded, repaired])
    if shim.lib.c19_empty_code() != 0:
        ctx.fail("Genotype() is not the zero word", {"kind": "limits"}, key="word-empty")
    # F55: is the advertised maximum ploidy constructible?  (vcf.py lets ploidy <= get_max_genotype_ploidy() through)
    mp = impl_lim["max_ploidy"]
    adv = shim.from_alleles([0] * mp)
    if "err" in adv:
        how = "?"
        wd = ctx.workdir()
        try:
            from whatshap.vcf import VcfReader
            path = os.path.join(wd, "f55.vcf")
            with open(path, "w") as f:
                f.write("##fileformat=VCFv4.2\n##contig=<ID=chr1,length=1000>\n##FORMAT=<ID=GT,Number=1,Type=String,Description=\"g\">\n"
                        "#CHROM\tPOS\tID\tREF\tALT\tQUAL\tFILTER\tINFO\tFORMAT\ts1\n"
                        "chr1\t100\t.\tA\tC\t.\t.\t.\tGT\t" + "/".join(["0"] * (mp - 1) + ["1"]) + "\n")
            try:
                for _ in VcfReader(path, ploidy=None):
                    pass
                how = "is read"
            except Exception as e:
                how = f"makes VcfReader raise {type(e).__name__}: {str(e)[:60]}"
        finally:
            import shutil
            shutil.rmtree(wd, ignore_errors=True)
        ctx.observe(f"F55: get_max_genotype_ploidy() = {mp} (used by vcf.py for its PloidyError), but Genotype([0]*{mp}) raises "
                    f"{adv['err']!r} (vector constructor: ploidy >= MAX_PLOIDY); Genotype(index, {mp}) is accepted: "
                    f"{'yes' if 'err' not in shim.from_index(0, mp) else 'no'}; a VCF with a GT of ploidy {mp} {how}; "
                    f"the limits the property names are 14/16; fixes/F55.patch makes the advertised limit {mp - 1}")
    else:
        for _ in range(20):
            do_word([rng.randrange(16) for _ in range(mp)])
            do_geno([rng.randrange(16) for _ in range(mp)])
    # exhaustive small space through both constructors
    n_fi = 0
    for p in range(0, EP + 1):
        for a in range(1, EA + 1):
            do_genotypes(p, a)
            cnt = n_multisets(p, a)
            for i in range(cnt):
                do_fromindex(i, p, a if p >= 1 else None); n_fi += 1
            for i in (cnt, cnt + 1):           # just beyond the genotypes over `a` alleles (still valid genotypes, over a+1 / a+2 alleles)
                do_fromindex(i, p, None)
        for g in vcf_order(p, EA):
            perm = list(g); rng.shuffle(perm)
            do_word(perm)
    ctx.extra["exhaustive_index_ctor_ploidy_le_%d_alleles_le_%d" % (EP, EA)] = n_fi
    words = [g for p in range(1, 4) for g in vcf_order(p, 4)]
    for x in words:                            # all pairs of a small space, mixed origin of the two objects
        for y in words:
            o = rng.randrange(4)
            X = ["a", list(x)] if o & 1 else ["i", rank(x), len(x)]
            Y = ["a", list(y)] if o & 2 else ["i", rank(y), len(y)]
            do_cmpw(X, Y)
    flush(); flush_answers()
    # sampled up to the limits; upper nibbles (ploidy 9..14 puts alleles above bit 32 of the word) get half of the weight
    n_deep = (2500 if ctx.quick else 40000) * ctx.scale
    pool = []
    for i in range(n_deep):
        if plenty():
            break
        p = rng.randrange(9, MAXP + 1) if rng.random() < 0.5 else rng.randrange(1, MAXP + 1)
        a = rng.randrange(1, MAXA + 1) if rng.random() < 0.7 else MAXA
        cnt = n_multisets(p, a)
        r = rng.random()
        idx = cnt - 1 if r < 0.1 else (rng.randrange(cnt) if r < 0.8 else int(cnt * rng.random() ** 3))
        do_fromindex(idx, p, a)
        al = list(unrank(idx, p)); rng.shuffle(al)
        do_word(al)
        pool.append((idx, p, al))
        if i % 3 == 0 and len(pool) > 1:
            (i1, p1, a1), (i2, p2, a2) = rng.choice(pool), rng.choice(pool)
            if rng.random() < 0.6:             # same ploidy, close by in the order
                p2 = p1; i2 = max(0, min(n_multisets(p1, 16) - 1, i1 + rng.randrange(-3, 4))); a2 = list(unrank(i2, p2))
            do_cmpw(["a", a1] if rng.random() < 0.5 else ["i", i1, p1], ["a", a2] if rng.random() < 0.5 else ["i", i2, p2])
    # genotypes() for larger (ploidy, alleles): whole index ranges through Genotype(i, ploidy)
    budget = (30000 if ctx.quick else 600000) * ctx.scale
    tries = 0
    while budget > 0 and tries < 400 and not plenty():
        tries += 1
        p, a = rng.randrange(1, MAXP + 1), rng.randrange(1, MAXA + 1)
        if n_multisets(p, a) <= min(budget, 60000):
            budget -= n_multisets(p, a) + 200
            do_genotypes(p, a)
    # the boundary of the representable range, and just beyond it
    for p in (1, 2, 7, 8, 9, 13, 14):
        c16 = n_multisets(p, 16)
        for i in (c16 - 1, c16, c16 + 1, c16 + 2, c16 - 1 + U32, c16 + U32, U32, 2 ** 63 + 5, 2 ** 64 - U32 + 3):
            do_fromindex(i, p, 16 if i < c16 else None)
            do_convert(i, p)
    for p in (0, 15, 16, 17, 18, 31, 32, 33):
        for i in (0, 1, 2, 3):
            do_fromindex(i, p, None)
    c15 = n_multisets(15, 15)
    for i in (c15 - 1, c15, 5 + U32, rng.randrange(c15), rng.randrange(c15), n_multisets(15, 16) - 1, n_multisets(15, 16)):
        do_fromindex(i, 15, None)
    for al in ([15] * 14, [0] * 14, [15] * 15, [0] * 15, [0] * 16, [16], [2 ** 32 - 1, 0], [15, 16], list(range(14)), list(range(2, 16))):
        do_word(al)
    do_genotypes(0, 3); do_genotypes(15, 1); do_genotypes(16, 1); do_genotypes(17, 1); do_genotypes(1, 17); do_genotypes(2, 17)
    do_genotypes(15, 2); do_genotypes(14, 1); do_genotypes(1, 16); do_genotypes(14, 2)
    for _ in range(40 if ctx.quick else 400):
        p = rng.randrange(1, MAXP + 1)
        do_convert(rng.randrange(n_multisets(p, 16)) + U32 * rng.randrange(0, 2 ** 32), p)
    # binomial_coefficient beyond the supported table (n <= 29 is all the genotype code needs)
    for n in range(28, 48):
        for k in range(-1, n + 2):
            do_binom32(n, k)
    for n, k in ((2 ** 31 - 1, 1), (2 ** 31 - 1, 2), (2 ** 31 - 1, 2 ** 31 - 2), (2 ** 31 - 1, 2 ** 31 - 1), (-2 ** 31, 0), (0, -2 ** 31),
                 (65536, 2), (65537, 2), (92682, 2), (2345, 3), (100000, 99997)):
        do_binom32(n, k)
    flush(); flush_answers()

    # ---------------------------------------------------------------- edit distance: exhaustive small pairs
    L2 = 5 if ctx.quick else 7
    words = [bytes(w) for n in range(L2 + 1) for w in itertools.product(b"AC", repeat=n)]
    cnt = 0
    for s in words:
        if len(ctx.fails) > 3000:
            break
        for t in words:
            do_edit(s, t, as_str=(cnt % 5 == 0)); cnt += 1
    ctx.extra["exhaustive_string_pairs_AC_len_le_%d" % L2] = cnt
    if not ctx.quick:
        words3 = [bytes(w) for n in range(5) for w in itertools.product(b"ACG", repeat=n)]
        for s in words3:
            for t in words3:
                do_edit(s, t); cnt += 1
        ctx.extra["exhaustive_string_pairs_ACG_len_le_4"] = len(words3) ** 2
        ctx.extra["exhaustive"] = True
    flush()

    # ---------------------------------------------------------------- edit distance: random longer
    n_rand = (4000 if ctx.quick else 60000) * ctx.scale

    def rand_word(n, alpha):
        return bytes(rng.choice(alpha) for _ in range(n))

    def mutate(s, k, alpha):
        s = bytearray(s)
        for _ in range(k):
            r = rng.random()
            pos = rng.randrange(len(s) + 1)
            if r < 0.34 and s:
                s[min(pos, len(s) - 1)] = rng.choice(alpha)
            elif r < 0.67 and s:
                del s[min(pos, len(s) - 1)]
            else:
                s.insert(pos, rng.choice(alpha))
        return bytes(s)

    for i in range(n_rand):
        if len(ctx.fails) > 3000:
            break
        alpha = rng.choice([b"AC", b"ACGT", b"ACGT", bytes(range(1, 256))])
        n = rng.choice([3, 7, 12, 20, 35, 60] if ctx.quick else [3, 7, 12, 20, 35, 60, 120])
        s = rand_word(rng.randrange(0, n + 1), alpha)
        style = rng.random()
        if style < 0.55:
            t = mutate(s, rng.randrange(0, 6), alpha)       # small distance: the band matters
        elif style < 0.7:
            core_s, core_t = rand_word(rng.randrange(0, 8), alpha), rand_word(rng.randrange(0, 8), alpha)
            pre, suf = rand_word(rng.randrange(0, 10), alpha), rand_word(rng.randrange(0, 10), alpha)
            s, t = pre + core_s + suf, pre + core_t + suf   # trimming
        elif style < 0.8:
            k = rng.randrange(0, len(s) + 1)
            t = s[k:] + s[:k]                               # rotation: long diagonal shifts
        else:
            t = rand_word(rng.randrange(0, n + 1), alpha)
        mx = max(len(s), len(t))
        if mx > 24:
            d = lev_naive(s, t)
            bands = sorted({-1, 0, 1, 2, d - 1, d, d + 1, abs(len(s) - len(t)), abs(len(s) - len(t)) + 1, mx, mx + 1,
                            rng.randrange(0, mx + 2), rng.randrange(0, mx + 2)} - {-2})
            bands = [e for e in bands if e >= -1]
        else:
            bands = None
        do_edit(s, t, as_str=(max(s + t + b"\0") < 128 and i % 3 == 0 and 0 not in s + t), bands=bands)
    flush()

"""C06 — allele detection never assigns the wrong allele to an error-free read.

Two layers on every run:

K  correspondence: the real functions (`_iterate_cigar`, `split_cigar_left/right`, `cigar_prefix_length`,
   `realign`, `detect_alleles_by_alignment`, `_detect_alleles`, `normalized`, `detect_non_overlapping_variants`,
   `create_read_from_group`) are called directly with synthetic inputs and, on every alignment of the generated
   BAMs, compared exactly with the Lean model (`whmodel`, ops `c06.*`).
O  oracle with ground truth: in-process `ReadSetReader.read` on generated BAM/FASTA/VCF (with and without a
   reference; reads spread over 1-3 BAM files with re-used read names, a read = (file, name)); for every (read, variant) of
   error-free reads with canonical CIGARs the recorded allele is compared with the allele the haplotype carries (definitions of *fully covers*, *isolated*, *normalised position* as fixed
   in DESIGN §5 C06).
"""
import json, logging, os, shutil
from types import SimpleNamespace

import pysam

from ..gen import sim
from ..gen import c06_gen as G
from ..gen import c06_filter as F
from ..gen import c06_mav as MV

RULE = ("(read, variant) pairs of error-free reads (exact copies of a haplotype, canonical CIGAR with indels at the "
        "normalised position; decorated with S/H clips, N skips, =/X, unrelated indels, mates) over random references "
        "(4- and 2-letter alphabets) with SNV/MNP/insertion/deletion variants, isolated and close (0–14 bp apart); the reads are "
        "distributed over 1-3 alignment files that number their reads independently (one name = unrelated molecules of either haplotype "
        "in different files, or the same molecule twice), a name shared WITHIN a file = mates or primary + supplementary alignment of "
        "one template; a read is identified by (file, name); reader with/without supplementary alignments, sample or all read groups; plus "
        "synthetic calls of the walker / prefix / split / realign / no-reference detector. A pair is non-trivial if the "
        "read overlaps the variant (or lies within 12 bp of it); a synthetic call is non-trivial if it yields or "
        "decides something. distinct = distinct (variant kind, allele, CIGAR around the variant, offsets to read "
        "start/end, mode) or distinct synthetic input. Modes: with reference (Levenshtein and affine gap costs), without. "
        "Filter stream: alignment records of 1-2 BAM files (flags, mapq around the threshold, read groups of three samples / "
        "none, SEQ '*', CIGAR '*', BX/HP/PS tags, supplementary alignments, poison copies carrying the opposite alleles under "
        "flags that must be filtered) under random reader configurations, samples and regions; a record is non-trivial if "
        "it is a poison record that must be dropped or a usable error-free alignment. Multi-allelic stream: VCF records with 1-4 ALT "
        "alleles (several SNVs; nested insertions = one ALT's inserted bases a proper prefix of another's, every listing order; "
        "unrelated / suffix-related insertions; nested deletions; SNV+insertion, SNV+deletion, insertion+deletion, MNP+deletion, "
        "mixed; bi-allelic neighbours) isolated, close (0-14 bp) and as twins, haplotypes (ploidy 2-4) carrying any allele, read through "
        "VcfReader(mav=True) and ReadSetReader.read with / without a reference (optionally restricted to the sample's genotype); "
        "distinct = distinct (mode, family, allele kinds and lengths, carried allele, CIGAR, offsets)")
MANIFEST = dict(
    text="Lean 4 theorems about a hand-written model of the CIGAR/variant lock-step walk, the CIGAR split and prefix "
         "arithmetic, the re-alignment decision and the no-reference detector: the walk equals the alignment's "
         "per-position coordinate map (each variant in M/=/X, D or at an I boundary exactly once, in order; none left/right "
         "of the span or inside N; the split re-assembles the CIGAR and its left part has the announced reference/query "
         "lengths); prefix lengths = bases of the longest column prefix ending after the k-th reference base (stops at N, "
         "truncated at the read end); strictly smaller edit distance => that allele, any returned allele is strictly "
         "closest, tie => none, query = padded allele => that allele; for an error-free read whose +-overhang window "
         "contains no other operation (or is cut by the read end) the extracted window IS left_pad+allele+right_pad for "
         "SNV/MNP, hence re-alignment returns the carried allele; the no-reference state machine on SNVs returns exactly "
         "the call demanded by the aligned query base for every CIGAR over the nine operators. The model is tied to the "
         "working tree by exact comparison of every modelled function on synthetic inputs and on every alignment of "
         "generated BAMs; a ground-truth oracle checks the property itself on ReadSetReader.read (with and without "
         "reference)",
    design_ref="DESIGN.md §5 C06, §6 F11 (+F12..F16 found by this check, fixes/F12..F16.patch)",
    note="trusted: Lean kernel, axioms ⊆ {propext, Classical.choice, Quot.sound}; the hand-written model (tied by "
         "differential testing); edit_distance = Levenshtein is C19's claim; the window lemma is proved for SNV/MNP only "
         "(insertions/deletions: differential + ground truth); the no-reference theorem covers SNVs (unshiftable indels: "
         "differential + ground truth); k-merald re-alignment and CRAM are not modelled; the model describes the "
         "code with fixes F12-F16 applied (each defect also modelled as-is, selectable, with a Lean witness). Deepened: "
         "edit_distance_affine_gap (three-table Gotoh DP + prefix/suffix shortcut) is modelled and proved to compute the minimum "
         "cost over all enumerated alignments — the DP for all costs, the whole function with its shortcut for "
         "gap_extend <= gap_start (also tested against two brute-force yard-sticks) —, the affine branch of realign gives "
         "the carried allele for error-free reads over isolated variants; ReadSetReader.read as a whole (fetch, sample "
         "selection, regions, _usable_alignments, variant pointer, missing SEQ/CIGAR/RG, grouping, create_read_from_group) is "
         "modelled: a primary alignment with mapq >= threshold is never filtered, the filter is an order-preserving, "
         "idempotent selection, secondary/unmapped/duplicate/low-mapq alignments never reach detection, every allele of every "
         "returned read was detected on a usable alignment of that name; F11 is characterised by a proved criterion for a "
         "second indel in the right half of the window",
    technique="Lean 4 proof (walker/prefix/split/decision/window lemma/no-reference SNV machine) + differential "
              "correspondence + ground-truth oracle",
)
ASSUMPTIONS = [
    "re-alignment by Levenshtein distance and by affine gap costs (whatshap genotype --affine-gap; in-process only: phase has "
    "no such option and genotype does not expose its reads), no k-merald, no CRAM; overhang 10 in the pipeline streams, 0–12 in "
    "synthetic calls",
    "affine DP: the code's float tables hold integers far below 2^24 (exact) and INT_MAX entries are never the minimum of a "
    "reachable cell (modelled as 'no value'); the prefix/suffix shortcut is minimal only for gap_extend <= gap_start "
    "(defaults 7 <= 10; a Lean witness shows it is not for 5 > 1)",
    "the alignments handed to the model are what pysam's fetch delivers (htslib's overlap test is trusted, reference_end is "
    "tied to the CIGAR on every record); with several BAM files the precedence between errors of different files is not "
    "modelled (error vs. no error is compared)",
    "variant positions unique and sorted (ReadSetReader.read asserts uniqueness; VCF order); multi-allelic records (read with "
    "VcfReader(mav=True)) in the ground-truth streams have 2-4 ALT alleles, each ONE simple change (SNV, MNP, unshiftable "
    "insertion / deletion directly behind the anchor base) so that the canonical alignment of a haplotype is unique; without a "
    "reference only 'carried allele or none' is demanded of them (records with an MNP allele: not claimed)",
    "edit_distance is true Levenshtein distance (property C19)",
    "reads carry a sequence (SEQ '*' is outside the property; the crash of read() on such a record is modelled as it is and "
    "reported as an observation, proposed finding F40)",
]

# The no-reference clause of C06 ("without one this holds for SNVs and unshiftable insertions/deletions ...") can be read
# as "always found" (True) or only as "never the wrong allele" (False).  With True a *not found* (never wrong) outcome
# without a reference is a property failure (this is what exposes F13; fixes/F13.patch repairs it); set to False to
# demand only "recorded allele in {carried allele, none}" without a reference (then such outcomes are observations).
NOREF_DEMANDS_FOUND = True
KEY_F11 = "second-nonref-allele-in-window"
KEY_F12 = "paired-end-opposite-orientation-mate-dropped"
KEY_F13 = "noref-multibase-allele-not-found"
KEY_CONFLICT = "noref-variant-discarded-as-conflicting"
KEY_SHARED_LOST = "detected-allele-missing-read-name-shared-between-files"
# development aid: C06_ASIS=F12,F13,F14,F15 compares with the model of the code as it was before the fixes
ASIS = [x for x in os.environ.get("C06_ASIS", "").split(",") if x]


def _exc(e):
    return type(e).__name__


# ------------------------------------------------------------------------------------------------
# K: direct calls
# ------------------------------------------------------------------------------------------------

def impl_iter(positions, j, start, cigar):
    from whatshap._variants import _iterate_cigar
    vs = [SimpleNamespace(position=p) for p in positions]
    out, err = [], None
    try:
        for y in _iterate_cigar(vs, j, SimpleNamespace(reference_start=start), cigar):
            out.append(list(y))
    except Exception as e:
        err = _exc(e)
    return {"yields": out, "err": err}


def py_locate(cigar, start, p):
    """independent brute-force coordinate map: walk the alignment base by base"""
    r, q = start, 0
    for i, (op, n) in enumerate(cigar):
        if op in (0, 7, 8):
            for c in range(n):
                if r + c == p:
                    return [i, c, q + c]
            r += n; q += n
        elif op == 1:
            if r == p:
                return [i, 0, q]
            q += n
        elif op == 2:
            for c in range(n):
                if r + c == p:
                    return [i, c, q]
            r += n
        elif op == 3:
            for c in range(n):
                if r + c == p:
                    return None
            r += n
        elif op == 4:
            q += n
    return None


def check_iter(ctx, cases):
    reqs = [dict(op="c06.iter", positions=c["positions"], j=c["j"], ref_start=c["start"], cigar=c["cigar"]) for c in cases]
    outs = ctx.model.ask_many(reqs)
    for c, m in zip(cases, outs):
        impl = impl_iter(c["positions"], c["j"], c["start"], [tuple(x) for x in c["cigar"]])
        ctx.evaluated()
        if impl != m:
            ctx.disagree("c06.iter", c, impl, m)
        ps = c["positions"]
        clean = all(a < b for a, b in zip(ps, ps[1:])) and all(op <= 8 for op, _ in c["cigar"])
        if clean:
            exp = []
            for k in range(c["j"], len(ps)):
                loc = py_locate(c["cigar"], c["start"], ps[k])
                if loc is not None:
                    exp.append([k] + loc)
            if impl["err"] is not None or impl["yields"] != exp:
                ctx.disagree("c06.iter-vs-coordinate-map", c, impl, {"yields": exp, "err": None})
        if impl["yields"]:
            ctx.nontrivial(("iter", json.dumps(c, sort_keys=True)))
        ctx.dist("iter.n_ops", len(c["cigar"]))
        ctx.dist("iter.outcome", impl["err"] or ("yields" if impl["yields"] else "nothing"))


def gen_iter_case(rng):
    cigar = G.random_cigar(rng, bad_op=0.01)
    start = rng.randrange(0, 30)
    span = G.cigar_ref_len(cigar)
    lo, hi = max(0, start - 3), start + span + 3
    n = rng.randrange(0, 8)
    ps = sorted(rng.sample(range(lo, hi + 1), min(n, hi + 1 - lo)))
    r = rng.random()
    if r < 0.04 and ps:
        ps.insert(rng.randrange(len(ps) + 1), rng.choice(ps))       # duplicate / unsorted
    elif r < 0.08:
        rng.shuffle(ps)
    return {"positions": ps, "j": rng.randrange(0, 3) if rng.random() < 0.2 else 0, "start": start, "cigar": [list(x) for x in cigar]}


def impl_prefix(cigar, k):
    from whatshap.variants import ReadSetReader
    try:
        return list(ReadSetReader.cigar_prefix_length(iter(cigar), k))
    except Exception as e:
        return {"err": _exc(e)}


def impl_split(cigar, i, consumed):
    from whatshap.variants import ReadSetReader
    out = {}
    for side, f in (("left", ReadSetReader.split_cigar_left), ("right", ReadSetReader.split_cigar_right)):
        try:
            out[side] = [list(x) for x in f(cigar, i, consumed) if x[1] > 0]   # zero-length pieces are not observable
        except Exception as e:
            out[side] = {"err": _exc(e)}
    return out


def py_prefix_spec(cigar, k):
    """independent base-by-base count: query bases consumed while consuming the first k reference bases;
    S/H ignored, stops at N (an N is the end of the read: truncated), truncated at the end. I directly after the k-th base is not counted.
    Mirrors the documented contract; k = 0 is the special case noted in notes/C06.md."""
    r = q = 0
    for op, n in cigar:
        if op in (0, 7, 8, 2):
            for _ in range(n):
                if r >= k:
                    break
                r += 1
                if op != 2:
                    q += 1
            if r >= k and n > 0:
                return [k, q]
            if r >= k and n == 0:
                return [k, q]
        elif op == 1:
            q += n
        elif op == 3:
            return [k, q] if "F14" in ASIS else [r, q]
        elif op in (4, 5):
            pass
        else:
            return {"err": "AssertionError"}
    return [r, q] if r < k else {"err": "AssertionError"}


def check_prefix_split(ctx, cases):
    reqs = []
    for c in cases:
        reqs.append(dict(op="c06.prefix", cigar=c["cigar"], k=c["k"], asis=ASIS))
        reqs.append(dict(op="c06.split", cigar=c["cigar"], i=c["i"], consumed=c["consumed"]))
    outs = ctx.model.ask_many(reqs)
    for n, c in enumerate(cases):
        cig = [tuple(x) for x in c["cigar"]]
        ip = impl_prefix(cig, c["k"]); mp = outs[2 * n]
        isp = impl_split(cig, c["i"], c["consumed"]); ms = outs[2 * n + 1]
        ctx.evaluated(2)
        if ip != mp:
            ctx.disagree("c06.prefix", c, ip, mp)
        if c["k"] > 0 and ip != py_prefix_spec(cig, c["k"]):
            ctx.disagree("c06.prefix-vs-base-count", c, ip, py_prefix_spec(cig, c["k"]))
        ms = {k: ([x for x in v if x[1] > 0] if isinstance(v, list) else v) for k, v in ms.items()}
        if isp != ms:
            ctx.disagree("c06.split", c, isp, ms)
        if isinstance(ip, list) and ip[1] > 0:
            ctx.nontrivial(("prefix", json.dumps(c, sort_keys=True)))
        ctx.dist("prefix.outcome", "ok" if isinstance(ip, list) else ip["err"])


def gen_prefix_case(rng):
    cigar = G.random_cigar(rng, ops=(0, 0, 0, 1, 2, 3, 4, 5, 6, 7, 8), bad_op=0.01)
    n = len(cigar)
    i = rng.randrange(0, n + 1) if n else 0
    ln = cigar[i][1] if i < n else 2
    return {"cigar": [list(x) for x in cigar], "k": rng.randrange(0, G.cigar_ref_len(cigar) + 4), "i": i,
            "consumed": rng.randrange(0, ln + 2) if rng.random() < 0.1 else rng.randrange(0, ln + 1)}


def _mk_variant(pos, ref, alts):
    from whatshap.vcf import BiallelicVcfVariant, MultiallelicVcfVariant
    if len(alts) == 1:
        return BiallelicVcfVariant(pos, ref, alts[0])
    return MultiallelicVcfVariant(pos, ref, alts)


def impl_realign(c):
    from whatshap.variants import ReadSetReader
    from whatshap.core import Genotype
    v = _mk_variant(*c["variant"])
    restricted = Genotype(c["restricted"]) if c["restricted"] is not None else None
    read = SimpleNamespace(query_sequence=c["query"])
    try:
        a, q = ReadSetReader.realign(v, restricted, read, [tuple(x) for x in c["cigar"]], c["i"], c["consumed"], c["query_pos"],
                                     c["reference"], c["overhang"], False, None, None, None, False, None, 7, 40, 25, None, None)
        if a is not None and q != 30:
            return {"err": f"quality {q}"}
        return a
    except Exception as e:
        return {"err": _exc(e)}


def gen_realign_case(rng):
    alphabet = rng.choice(["AC", "ACG", "ACGT"])
    L = rng.randrange(8, 50)
    reference = sim.random_seq(rng, L, alphabet)
    cigar = G.random_cigar(rng, max_ops=6, max_len=8, ops=(0, 0, 0, 0, 1, 2, 3, 4, 5, 7, 8))
    span = G.cigar_ref_len(cigar)
    start = rng.randrange(0, max(1, L - span + 1)) if span <= L else 0
    # query: copy of the reference along M, random elsewhere, a few substitutions
    q, r = [], start
    for op, n in cigar:
        if op in (0, 7, 8):
            q.append("".join(reference[r + k] if r + k < L and rng.random() < 0.9 else rng.choice(alphabet) for k in range(n))); r += n
        elif op in (1, 4):
            q.append(sim.random_seq(rng, n, alphabet))
        elif op in (2, 3):
            r += n
    query = "".join(q)
    pos = rng.randrange(start, start + span) if span else rng.randrange(0, L)
    kind = rng.random()
    rl = rng.choice([1, 1, 1, 2, 3, 4])
    ref = reference[pos:pos + rl] if rng.random() < 0.95 else sim.random_seq(rng, rl, alphabet)
    ref = ref or "A"
    n_alt = 1 if rng.random() < 0.85 else 2
    alts = []
    for _ in range(n_alt):
        r2 = rng.random()
        if r2 < 0.03:
            alts.append("<DEL>")
        elif r2 < 0.4:
            alts.append(sim.random_seq(rng, len(ref), alphabet))
        elif r2 < 0.7:
            alts.append(ref[0] + sim.random_seq(rng, rng.randrange(1, 5), alphabet))
        else:
            alts.append(ref[0])
    impl = impl_iter([pos], 0, start, cigar)
    if impl["yields"] and rng.random() < 0.9:
        _, i, consumed, qpos = impl["yields"][0]
    else:
        # arbitrary but *reachable* split point: the walker only reports consumed < length (0 for an insertion)
        i = rng.randrange(0, max(1, len(cigar)))
        ln = cigar[i][1] if i < len(cigar) else 1
        consumed = rng.randrange(0, max(1, ln)); qpos = rng.randrange(0, len(query) + 1)
    restricted = None
    if rng.random() < 0.1:
        restricted = rng.choice([[0, 0], [1, 1], [0, 1], [1, 2], [2, 2]])
    return {"variant": [pos, ref, alts], "restricted": restricted, "query": query, "cigar": [list(x) for x in cigar], "i": i,
            "consumed": consumed, "query_pos": qpos, "reference": reference, "overhang": rng.choice([0, 1, 2, 3, 5, 10, 10, 12])}


def check_realign(ctx, cases):
    reqs = [dict(op="c06.realign", variant=c["variant"], restricted=c["restricted"], query=c["query"], cigar=c["cigar"], i=c["i"],
                 consumed=c["consumed"], query_pos=c["query_pos"], reference=c["reference"], overhang=c["overhang"], asis=ASIS) for c in cases]
    outs = ctx.model.ask_many(reqs)
    for c, m in zip(cases, outs):
        impl = impl_realign(c)
        ctx.evaluated()
        if impl != m.get("allele"):
            ctx.disagree("c06.realign", c, impl, m)
        ctx.dist("realign.outcome", "none" if impl is None else (impl["err"] if isinstance(impl, dict) else "allele"))
        if isinstance(impl, int):
            ctx.nontrivial(("realign", json.dumps(c, sort_keys=True)))


def impl_normalize(vs):
    from whatshap.variants import ReadSetReader
    objs = [_mk_variant(*v) for v in vs]
    nvs = [o.normalized() for o in objs]
    valid = ReadSetReader.detect_non_overlapping_variants(None, nvs)
    return {"normalized": [[n.position, n.reference_allele, list(n.get_alt_allele_list())] for n in nvs], "valid": list(valid)}


def impl_noref(c, nvs=None):
    from whatshap.variants import ReadSetReader
    from whatshap._variants import _detect_alleles
    objs = [_mk_variant(*v) for v in c["variants"]]
    nvs = [o.normalized() for o in objs]
    valid = ReadSetReader.detect_non_overlapping_variants(None, nvs)
    vp = [ReadSetReader.build_var_progress(None, nvs, j) for j in valid]
    vp.sort(key=lambda x: x.variant_id)
    read = SimpleNamespace(reference_start=c["start"], cigartuples=[tuple(x) for x in c["cigar"]], query_sequence=c["query"],
                           query_qualities=c["quals"])
    out, err = [], None
    try:
        for t in _detect_alleles(nvs, vp, c["first"], read):
            out.append([int(x) for x in t])
    except Exception as e:
        err = _exc(e)
    return {"out": out, "err": err}


def impl_noref_singles(c):
    """the REAL detector on every variant ALONE (fresh progress objects, a walk of its own): the right-hand side of the
    theorem `noref_multi_variant_independent`"""
    from whatshap.variants import ReadSetReader
    from whatshap._variants import _detect_alleles
    objs = [_mk_variant(*v) for v in c["variants"]]
    nvs = [o.normalized() for o in objs]
    ids = sorted(ReadSetReader.detect_non_overlapping_variants(None, nvs))[c["first"]:]
    while ids and nvs[ids[0]].position < c["start"]:
        ids.pop(0)
    read = SimpleNamespace(reference_start=c["start"], cigartuples=[tuple(x) for x in c["cigar"]], query_sequence=c["query"],
                           query_qualities=c["quals"])
    out, clean = [], True
    for j in ids:
        try:
            for t in _detect_alleles(nvs, [ReadSetReader.build_var_progress(None, nvs, j)], 0, read):
                out.append([int(x) for x in t])
        except Exception:
            clean = False
    ps = [nvs[j].position for j in ids]
    return {"out": out, "clean": clean, "sorted": all(a < b for a, b in zip(ps, ps[1:])), "k": len(ids)}


def gen_noref_case(rng):
    alphabet = rng.choice(["AC", "ACG", "ACGT"])
    L = rng.randrange(10, 60)
    reference = sim.random_seq(rng, L, alphabet)
    cigar = G.random_cigar(rng, max_ops=7, max_len=7, ops=(0, 0, 0, 0, 1, 2, 3, 4, 5, 6, 7, 8), bad_op=0.005)
    span = G.cigar_ref_len(cigar)
    start = rng.randrange(0, max(1, L - span + 1)) if span <= L else 0
    q, r = [], start
    for op, n in cigar:
        if op in (0, 7, 8):
            q.append("".join(reference[r + k] if r + k < L and rng.random() < 0.85 else rng.choice(alphabet) for k in range(n))); r += n
        elif op in (1, 4):
            q.append(sim.random_seq(rng, n, alphabet))
        elif op in (2, 3):
            r += n
    query = "".join(q)
    vs, pos = [], max(0, start - 2)
    while pos < min(L - 1, start + span + 2) and len(vs) < 8:
        pos += rng.choice([0, 1, 1, 2, 3, 5, 9]) if vs else rng.randrange(0, 6)
        if pos >= L - 1:
            break
        rl = rng.choice([1, 1, 1, 2, 3, 4])
        ref = reference[pos:pos + rl] or "A"
        alts = []
        for _ in range(1 if rng.random() < 0.85 else 2):
            r2 = rng.random()
            if r2 < 0.4:
                alts.append(sim.random_seq(rng, len(ref), alphabet))
            elif r2 < 0.7:
                alts.append(ref[0] + sim.random_seq(rng, rng.randrange(1, 4), alphabet))
            elif r2 < 0.95:
                alts.append(ref[0])
            else:
                alts.append(sim.random_seq(rng, rng.randrange(1, 4), alphabet))
        vs.append([pos, ref, alts])
    quals = None if rng.random() < 0.3 else [rng.randrange(0, 60) for _ in query]
    return {"variants": vs, "first": 0 if rng.random() < 0.9 else rng.randrange(0, 3), "start": start, "cigar": [list(x) for x in cigar],
            "query": query, "quals": quals}


def check_noref_independent(ctx, c, impl, inorm, msingles, mfull):
    """independence of the variants of one no-reference call (theorem `noref_multi_variant_independent`): the real detector
    on every variant alone = the model on every variant alone (K); and where the theorem's hypotheses hold (normalised
    positions strictly increasing, no single walk fails, operators 0-8) the REAL call on all variants together must give
    exactly the concatenation of the real single-variant calls - else the variants of one call influence each other: an
    allele of an error-free read is then lost or changed by the mere presence of a neighbour (VIOLATION)."""
    ctx.evaluated()
    isingles = impl_noref_singles(c)
    gone = f126_unjudged(inorm["normalized"], c["start"], c["cigar"]) if "F126" in FIXED else []
    ms = dict(msingles)
    if gone:
        ms["out"] = [t for t in ms["out"] if t[0] not in gone]
    ps = [v[0] for v in inorm["normalized"]]
    if not (gone and ps != sorted(ps)) and isingles != ms:
        ctx.disagree("c06.noref_singles", c, isingles, ms)
    hyp = isingles["sorted"] and isingles["clean"] and all(op <= 8 for op, _ in c["cigar"])
    ctx.dist("noref.independent", ("hypotheses hold, k=%d" % min(isingles["k"], 4)) if hyp else "hypotheses do not hold")
    if not hyp:
        return
    if isingles["k"] >= 2 and isingles["out"]:
        ctx.nontrivial(("noref-multi", json.dumps(c, sort_keys=True)))
    # the theorem, executed on the model (as-is model of the unchanged detector: before the F126 adapter)
    if msingles["sorted"] and msingles["clean"] and not ASIS and {"out": msingles["out"], "err": None} != mfull:
        ctx.disagree("c06.noref_independent(theorem)", c, mfull, msingles)
    if impl != {"out": isingles["out"], "err": None}:
        ctx.fail("without a reference the variants of one call are not independent: _detect_alleles on all variants gives "
                 f"{impl}, on each variant alone {isingles['out']}",
                 {"stream": "noref-multi", "case": c}, key="noref-variants-of-one-call-not-independent")


def check_noref(ctx, cases):
    reqs = []
    for c in cases:
        reqs.append(dict(op="c06.detect_noref", variants=c["variants"], first=c["first"], ref_start=c["start"], cigar=c["cigar"],
                         query=c["query"], quals=c["quals"], asis=ASIS))
        reqs.append(dict(op="c06.normalize", variants=c["variants"]))
    sreqs = [dict(op="c06.noref_singles", variants=c["variants"], first=c["first"], ref_start=c["start"], cigar=c["cigar"],
                  query=c["query"], quals=c["quals"], asis=ASIS) for c in cases]
    souts = ctx.model.ask_many(sreqs)
    outs = ctx.model.ask_many(reqs)
    for n, c in enumerate(cases):
        ctx.evaluated(2)
        inorm = impl_normalize(c["variants"])
        if inorm != outs[2 * n + 1]:
            ctx.disagree("c06.normalize", c, inorm, outs[2 * n + 1])
        impl = impl_noref(c)
        check_noref_independent(ctx, c, impl, inorm, souts[n], outs[2 * n])
        if "F126" in FIXED and outs[2 * n].get("out"):
            gone = f126_unjudged(inorm["normalized"], c["start"], c["cigar"])
            outs[2 * n]["out"] = [t for t in outs[2 * n]["out"] if t[0] not in gone]
            ps = [v[0] for v in inorm["normalized"]]
            if gone and ps != sorted(ps):
                continue    # the adapter is exact for position-sorted lists only (VCF order); unsorted synthetic lists: not compared
        if impl != outs[2 * n]:
            ctx.disagree("c06.detect_noref", c, impl, outs[2 * n])
        if impl["out"]:
            ctx.nontrivial(("noref", json.dumps(c, sort_keys=True)))
        ctx.dist("noref.outcome", impl["err"] or f"{min(len(impl['out']), 4)} alleles")


def impl_group(c):
    from whatshap.variants import ReadSetReader, AlignedRead
    from whatshap.core import Read
    grp = []
    for a in c["group"]:
        r = Read("x", 60, 0, 0, a["start"])
        for p, al, q in a["variants"]:
            r.add_variant(p, al, q)
        grp.append(AlignedRead(r, a["supp"], a["rev"], a["start"], a["end"]))
    u = ReadSetReader.create_read_from_group(grp, c["threshold"])
    return None if u is None else [[v.position, v.allele, v.quality] for v in u]


def gen_group_case(rng):
    n = rng.choice([1, 1, 2, 2, 2, 3, 4])
    grp = []
    # half of the groups are error-free alignments of ONE template: every call is the allele `truth` of its haplotype
    truth = [rng.randrange(3) for _ in range(12)] if rng.random() < 0.5 else None
    for k in range(n):
        st = rng.randrange(0, 300)
        ps = sorted(rng.sample(range(0, 12), rng.randrange(0, 5)))
        grp.append({"supp": rng.random() < 0.3, "rev": rng.random() < 0.5, "start": st, "end": st + rng.randrange(1, 100),
                    "variants": [[p * 10, truth[p] if truth else rng.randrange(2), rng.choice([30, 30, 17])] for p in ps]})
    c = {"group": grp, "threshold": rng.choice([0, 50, 150, 100000])}
    if truth:
        c["truth"] = truth
    return c


def check_group(ctx, cases):
    outs = ctx.model.ask_many([dict(op="c06.group", group=c["group"], threshold=c["threshold"], asis=ASIS) for c in cases])
    for c, m in zip(cases, outs):
        ctx.evaluated()
        impl = impl_group(c)
        if impl != m:
            ctx.disagree("c06.group", c, impl, m)
        # property at this level: two primaries of one template (= mates) lose nothing but conflicting positions
        prim = [a for a in c["group"] if not a["supp"]]
        if len(prim) == 2 and len(c["group"]) == 2 and impl is not None:
            want = {}
            bad = set()
            for a in prim:
                for p, al, q in a["variants"]:
                    if p in want and want[p] != al:
                        bad.add(p)
                    want.setdefault(p, al)
            want = {p: a for p, a in want.items() if p not in bad}
            got = {p: a for p, a, _ in impl}
            if got != want:
                ctx.fail("create_read_from_group drops the alleles of a mate (two primary alignments of one template with "
                         f"different orientation or far apart): kept {sorted(got)} of {sorted(want)}",
                         {"stream": "group", "case": c}, key=KEY_F12)
        # theorem `merge_group_errfree(_mates)`: error-free alignments of one template - no wrong allele, and every call of
        # every primary alignment (mate) is in the merged read
        if c.get("truth") and impl is not None and 1 <= len(prim) <= 2:
            truth = c["truth"]
            got = {p: a for p, a, _ in impl}
            wrong = sorted(p for p, a in got.items() if a != truth[p // 10])
            lost = sorted({p for a in prim for p, _, _ in a["variants"]} - set(got))
            if wrong:
                ctx.fail(f"create_read_from_group records an allele none of the error-free alignments has, at {wrong}",
                         {"stream": "group", "case": c}, key="errfree-merge-wrong-allele")
            elif lost:
                ctx.fail(f"create_read_from_group drops alleles of an error-free mate at {lost} (kept {sorted(got)})",
                         {"stream": "group", "case": c}, key=KEY_F12 if len(prim) == 2 else "errfree-merge-loses-allele")
            ctx.dist("group.errfree", f"{len(prim)} primary, {len(c['group']) - len(prim)} supplementary")
        if impl:
            ctx.nontrivial(("group", json.dumps(c, sort_keys=True)))



# ------------------------------------------------------------------------------------------------
# K/O: affine gap costs (`edit_distance_affine_gap`, the `use_affine` branch of `realign`)
# ------------------------------------------------------------------------------------------------

AFFINE_DEFAULT = [10, 7, 15]     # gap_start, gap_extend, default_mismatch of ReadSetReader / `whatshap genotype --affine-gap`


def py_affine_brute(q, r, mm, gs, ge):
    """independent yard-stick: minimum cost over all alignments, by memoised recursion over (i, j, kind of the previous
    column); a gap column costs ge directly after a gap column of the same kind, else gs"""
    from functools import lru_cache

    @lru_cache(None)
    def go(i, j, st):
        if i == len(q) and j == len(r):
            return 0
        best = None
        if i < len(q) and j < len(r):
            best = (0 if q[i] == r[j] else mm[i]) + go(i + 1, j + 1, 0)
        if i < len(q):
            c = (ge if st == 1 else gs) + go(i + 1, j, 1)
            best = c if best is None else min(best, c)
        if j < len(r):
            c = (ge if st == 2 else gs) + go(i, j + 1, 2)
            best = c if best is None else min(best, c)
        return best
    return go(0, 0, 0)


def gen_affine_case(rng):
    al = rng.choice(["AC", "ACG", "ACGT"])
    n = rng.randrange(0, 14)
    q = "".join(rng.choice(al) for _ in range(n))
    if rng.random() < 0.6:
        r = list(q)
        for _ in range(rng.randrange(0, 4)):
            k = rng.random()
            if r and k < 0.3:
                a = rng.randrange(len(r)); del r[a:a + rng.randrange(1, 4)]
            elif k < 0.6:
                a = rng.randrange(len(r) + 1); r[a:a] = [rng.choice(al) for _ in range(rng.randrange(1, 4))]
            elif r:
                r[rng.randrange(len(r))] = rng.choice(al)
        r = "".join(r)
    else:
        r = "".join(rng.choice(al) for _ in range(rng.randrange(0, 14)))
    gs, ge = rng.choice([(10, 7), (10, 7), (10, 7), (1, 1), (3, 1), (5, 5), (4, 0), (12, 2), (1, 5), (2, 9), (0, 3)])
    mm = [rng.choice([15, 1, 2, 30, 7]) for _ in q] if rng.random() < 0.4 else [rng.choice([15, 15, 1, 3])] * len(q)
    return {"query": q, "ref": r, "mismatch": mm, "gs": gs, "ge": ge}


def check_affine(ctx, cases):
    from whatshap.align import edit_distance_affine_gap
    reqs = [dict(op="c06.affine", query=c["query"], ref=c["ref"], mismatch=c["mismatch"], gs=c["gs"], ge=c["ge"],
                 spec=(len(c["query"]) + len(c["ref"]) <= 11)) for c in cases]
    outs = ctx.model.ask_many(reqs)
    for c, m in zip(cases, outs):
        ctx.evaluated()
        try:
            impl = edit_distance_affine_gap(c["query"], c["ref"], c["mismatch"], c["gs"], c["ge"])
        except Exception as e:
            impl = {"err": _exc(e)}
        if impl != m.get("dist"):
            ctx.disagree("c06.affine", c, impl, m)
        if "spec" in m and m["spec"] != m["dp"]:
            # theorem affineDP_eq_spec: the three-table DP is the minimum over the enumerated alignments
            ctx.disagree("c06.affine-dp-vs-enumeration", c, m["dp"], m["spec"])
        if c["ge"] <= c["gs"]:
            want = py_affine_brute(c["query"], c["ref"], tuple(c["mismatch"]), c["gs"], c["ge"])
            if "spec" in m and m["spec"] != want:
                ctx.disagree("c06.affine-spec-vs-python", c, want, m["spec"])
            if impl != want:
                ctx.fail(f"edit_distance_affine_gap({c['query']!r}, {c['ref']!r}, gap_start={c['gs']}, gap_extend={c['ge']}) = {impl}, "
                         f"but the cheapest alignment costs {want}", {"stream": "affine", "case": c}, key="affine-distance-not-minimal")
        if impl:
            ctx.nontrivial(("affine", json.dumps(c, sort_keys=True)))
        ctx.dist("affine.params", f"gs={c['gs']},ge={c['ge']}")


def impl_realign_q(c):
    from whatshap.variants import ReadSetReader
    from whatshap.core import Genotype
    v = _mk_variant(*c["variant"])
    restricted = Genotype(c["restricted"]) if c["restricted"] is not None else None
    read = SimpleNamespace(query_sequence=c["query"])
    af = c["affine"]
    try:
        a, q = ReadSetReader.realign(v, restricted, read, [tuple(x) for x in c["cigar"]], c["i"], c["consumed"], c["query_pos"],
                                     c["reference"], c["overhang"], af is not None, af[0] if af else None, af[1] if af else None,
                                     af[2] if af else None, False, None, 7, 40, 25, None, None)
        return None if a is None else [int(a), int(q)]
    except Exception as e:
        return {"err": _exc(e)}


def check_realign_q(ctx, cases):
    reqs = [dict(op="c06.realign_q", variant=c["variant"], restricted=c["restricted"], query=c["query"], cigar=c["cigar"], i=c["i"],
                 consumed=c["consumed"], query_pos=c["query_pos"], reference=c["reference"], overhang=c["overhang"],
                 affine=_maff(c["affine"]), asis=ASIS) for c in cases]
    outs = ctx.model.ask_many(reqs)
    for c, m in zip(cases, outs):
        impl = impl_realign_q(c)
        ctx.evaluated()
        if impl != m:
            ctx.disagree("c06.realign_q", c, impl, m)
        if isinstance(impl, list):
            ctx.nontrivial(("realign_q", json.dumps(c, sort_keys=True)))
            if c["affine"] and impl[1] > 0 and len(c["variant"][2]) + 1 > 1 and c["restricted"] is None:
                ctx.observe("affine: positive quality (distances[0]-distances[1] > 0 after sorting?)")
            if c["affine"] and impl[1] < 0:
                ctx.dist("affine.quality-sign", "negative")


def gen_realign_q_case(rng):
    c = gen_realign_case(rng)
    c["affine"] = rng.choice([AFFINE_DEFAULT, AFFINE_DEFAULT, [3, 1, 2], [1, 1, 1], [5, 5, 9], None])
    return c


# ------------------------------------------------------------------------------------------------
# K/O: which alignments reach detection, and how their alleles become reads (`ReadSetReader.read` as a whole)
# ------------------------------------------------------------------------------------------------

KEY_FILTER_LOST = "usable-alignment-filtered"
KEY_FILTER_LEAK = "filtered-alignment-contributes"
# proposed repairs that change the modelled behaviour (see notes/C06.md): C06_FIXED=F40,F41 compares with the repaired model
FIXED = [x for x in os.environ.get("C06_FIXED", "F126").split(",") if x]     # F126 is repaired in /repo (28714ce)


def _maff(a):
    """affine parameters for the model: a fourth element 1 selects the repaired quality sign (proposed F42)"""
    return None if a is None else list(a[:3]) + ([1] if "F42" in FIXED else [])


def _tag(a, t, default):
    return a.get_tag(t) if a.has_tag(t) else default


def model_sources(bams):
    """the alignment records as pysam delivers them (independent of whatshap), in the shape of the `c06.read` op"""
    srcs = []
    for b in bams:
        with pysam.AlignmentFile(b) as af:
            rgs = [[g["ID"], g.get("SM")] for g in af.header.to_dict().get("RG", [])]
            alns = []
            for a in af.fetch("chr1"):
                ps = _tag(a, "PS", -1)
                try:
                    ps = int(ps)
                except ValueError:
                    ps = None
                alns.append({"name": a.query_name, "flag": a.flag, "mapq": a.mapping_quality, "rg": _tag(a, "RG", None),
                             "start": a.reference_start, "cigar": [list(x) for x in a.cigartuples] if a.cigartuples else None,
                             "query": a.query_sequence, "quals": list(a.query_qualities) if a.query_qualities is not None else None,
                             "bx": _tag(a, "BX", ""), "hp": _tag(a, "HP", -1), "ps": ps})
                if a.cigartuples is not None and not a.is_unmapped:
                    # the model computes reference_end = bam_endpos itself: tie it to pysam here
                    span = sum(n for op, n in a.cigartuples if op in (0, 2, 3, 7, 8))
                    assert a.reference_end == a.reference_start + max(1, span)
            srcs.append({"rgs": rgs, "alns": alns})
    return srcs


def py_must_drop(rec, cfg, sample, rgs):
    """independent reading of the filter: True = this record must not reach detection"""
    f = rec["flag"]
    if f & F.FLAG_SECONDARY or f & F.FLAG_UNMAPPED:
        return True
    if f & F.FLAG_DUP and not cfg["duplicates"]:
        return True
    if f & F.FLAG_SUPP and not cfg["supplementary"]:
        return True
    if rec["mapq"] < cfg["mapq"]:
        return True
    if sample is not None:
        sm = {i: s for i, s in rgs[rec["src"]]}
        if rec["rg"] is None or sm.get(rec["rg"]) != sample:
            return True
    return False


def run_filter_case(ctx, case, label):
    from whatshap.variants import ReadSetReader
    from whatshap.core import NumericSampleIds
    from whatshap.vcf import VcfReader
    from whatshap.utils import IndexedFasta
    d = os.path.join(ctx.workdir(), "flt")
    shutil.rmtree(d, ignore_errors=True)
    os.makedirs(d)
    try:
        fa, bams, vcf, hv, listed = F.write_case(d, case)
        if not listed:
            return
        tables = list(VcfReader(vcf, only_snvs=False))
        vlist = tables[0].variants if tables else []
        vjson = [[v.pos, v.ref, [v.alt]] for v in listed]
        cfg = case["cfg"]
        af = cfg["affine"]
        mode = case["mode"]
        sample = case["sample"]
        regions = [tuple(x) for x in case["regions"]] if case["regions"] is not None else None
        refseq = IndexedFasta(fa)["chr1"] if mode == "ref" else None
        kw = dict(mapq_threshold=cfg["mapq"], overhang=cfg["overhang"], duplicates=cfg["duplicates"],
                  use_supplementary=cfg["supplementary"], supplementary_distance_threshold=cfg["threshold"])
        if af:
            kw.update(affine=True, gap_start=af[0], gap_extend=af[1], default_mismatch=af[2])
        # ---- implementation
        impl_usable = {"usable": None, "err": None}
        reader = ReadSetReader(bams, reference=None, numeric_sample_ids=NumericSampleIds(), **kw)
        try:
            try:
                impl_usable["usable"] = [[a.source_id, a.bam_alignment.query_name, a.bam_alignment.reference_start, a.bam_alignment.flag]
                                         for a in reader._usable_alignments("chr1", sample, regions)]
            except Exception as e:
                impl_usable["err"] = _exc(e)
            try:
                rs = reader.read("chr1", vlist, sample, refseq, regions)
                impl = {"reads": [{"name": r.name, "source": r.source_id, "mapq": r.mapqs[0], "start": r.reference_start, "bx": r.BX_tag,
                                   "hp": r.HP_tag, "ps": r.PS_tag, "variants": [[v.position, v.allele, v.quality] for v in r]} for r in rs],
                        "err": None}
            except Exception as e:
                impl = {"reads": None, "err": _exc(e)}
        finally:
            reader.close()
        # ---- model
        mcfg = dict(cfg, affine=_maff(cfg["affine"]), skip_noseq="F40" in FIXED, tolerate_norg="F41" in FIXED)
        common = dict(cfg=mcfg, sources=model_sources(bams), sample=sample, regions=case["regions"], asis=ASIS)
        mu, mr = ctx.model.ask_many([dict(op="c06.usable", **common),
                                     dict(op="c06.read", variants=vjson, reference=case["ref"] if mode == "ref" else None, **common)])
        ctx.evaluated()
        where = {"label": label, "case": case}
        two_errors = case["n_src"] > 1     # error precedence between the merged streams of several files is not modelled
        if impl_usable["err"] is not None or mu.get("err") is not None:
            if (impl_usable["err"] is None) != (mu.get("err") is None) or (not two_errors and impl_usable["err"] != mu.get("err")):
                ctx.disagree("c06.usable", where, impl_usable, mu)
        elif impl_usable["usable"] != mu.get("usable"):
            ctx.disagree("c06.usable", where, impl_usable, mu)
        if impl["err"] is not None or mr.get("err") is not None:
            if (impl["err"] is None) != (mr.get("err") is None) or (not two_errors and impl["err"] != mr.get("err")):
                ctx.disagree("c06.read", where, impl, mr)
        elif impl["reads"] != mr.get("reads"):
            ctx.disagree("c06.read", where, impl, mr)
        ctx.dist("filter.outcome", impl["err"] or "reads")
        ctx.dist("filter.config", f"{mode}{'/affine' if af else ''}{'/regions' if regions else ''}/{case['n_src']}bam")
        roles = {r["role"] for r in case["records"]}
        if impl["err"] == "TypeError" and "no-seq" in roles:
            ctx.observe("F40 (proposed): ReadSetReader.read raises TypeError when a usable alignment without SEQ reaches a variant")
        if impl["err"] == "KeyError":
            ctx.observe("F41 (proposed): ReadSetReader.read raises KeyError for an alignment without RG tag when a sample is selected")
        if impl["err"] is not None or impl_usable["usable"] is None:
            return
        # ---- O: the filter itself, judged by an independent reading of its rules
        usable_keys = {(u[0], u[1], u[2], u[3]) for u in impl_usable["usable"]}
        got = {(r["source"], r["name"]): {p: a for p, a, _ in r["variants"]} for r in impl["reads"]}
        by_group = {}
        for r in case["records"]:
            by_group.setdefault((r["src"], r["name"]), []).append(r)
        for r in case["records"]:
            key = (r["src"], r["name"], r["start"], r["flag"])
            drop = py_must_drop(r, cfg, sample, case["rgs"])
            ctx.evaluated()
            ctx.dist("filter.role", r["role"] + ("/dropped" if drop else "/kept"))
            in_region = regions is None
            if drop and key in usable_keys and not any(o is not r and (o["src"], o["name"], o["start"], o["flag"]) == key and
                                                       not py_must_drop(o, cfg, sample, case["rgs"]) for o in case["records"]):
                ctx.fail(f"alignment {r['name']} ({r['role']}, flag {r['flag']}, mapq {r['mapq']}, RG {r['rg']}) reaches allele "
                         f"detection although it is secondary / unmapped / duplicate / supplementary / below the mapq threshold / of "
                         f"another sample", dict(where, record=r), key=KEY_FILTER_LEAK)
            if not drop and in_region and key not in usable_keys and r["cigar"] is not None and r["seq"] is not None:
                ctx.fail(f"alignment {r['name']} ({r['role']}, flag {r['flag']}, mapq {r['mapq']} >= {cfg['mapq']}) is filtered although "
                         f"it is a primary (or admitted) alignment of the sample", dict(where, record=r), key=KEY_FILTER_LOST)
            if r["role"].startswith("poison") and drop:
                ctx.nontrivial(("filter-poison", r["role"], r["name"].endswith("_px"), mode, bool(af), cfg["mapq"]))
                grp = [o for o in by_group[(r["src"], r["name"])] if not py_must_drop(o, cfg, sample, case["rgs"])]
                if not grp:
                    if (r["src"], r["name"]) in got:
                        ctx.fail(f"a read {r['name']} is built from alignments that are all to be filtered ({r['role']})",
                                 dict(where, record=r), key=KEY_FILTER_LEAK)
                elif len(grp) == 1 and grp[0]["role"] in ("good", "qcfail", "edge-mapq", "dup") and grp[0]["seq"] is not None and in_region:
                    # the good alignment of that name alone decides: the poison's flipped SNV alleles must not show
                    g = grp[0]
                    rec = got.get((r["src"], r["name"]), {})
                    for v in hv:
                        if v.listed and v.kind == "snv" and v.pos in rec:
                            k = _query_index(g, v.pos)
                            if k is not None and k == _query_index(r, v.pos):
                                carried = 0 if g["seq"][k] == v.ref else (1 if g["seq"][k] == v.alt else None)
                                if carried is not None and rec[v.pos] != carried:
                                    ctx.fail(f"allele {rec[v.pos]} recorded for {v!r} on read {r['name']}: that is the allele of the "
                                             f"filtered {r['role']} alignment, the usable alignment carries {carried}",
                                             dict(where, record=r), key=KEY_FILTER_LEAK)
            if r["role"] in ("good", "qcfail") and not drop and in_region and mode == "ref" and len(by_group[(r["src"], r["name"])]) == 1:
                ctx.nontrivial(("filter-good", r["role"], r["flag"], mode, bool(af)))
    finally:
        shutil.rmtree(d, ignore_errors=True)


def _query_index(rec, pos):
    """query index of reference position `pos` inside an M/=/X block of the record, else None"""
    if rec["cigar"] is None:
        return None
    r, q = rec["start"], 0
    for op, n in rec["cigar"]:
        if op in (0, 7, 8):
            if r <= pos < r + n:
                return q + pos - r
            r += n; q += n
        elif op in (1, 4):
            q += n
        elif op in (2, 3):
            r += n
    return None

# ------------------------------------------------------------------------------------------------
# O: ground truth through ReadSetReader.read on BAM / FASTA / VCF
# ------------------------------------------------------------------------------------------------

def write_inputs(d, case):
    contigs = {"chr1": case["ref"]}
    hv = [G.HVar.from_list(l) for l in case["hvars"]]
    listed = [(i, v) for i, v in enumerate(hv) if v.listed]
    fa, vcf = (os.path.join(d, "in" + e) for e in (".fasta", ".vcf"))
    sim.write_fasta(fa, contigs)
    bams = []
    for f in range(case.get("n_files", 1)):
        # one alignment file per source; a read name means something only within its file
        reads = [{"name": r["name"], "chrom": "chr1", "start": r["start"], "cigar": [tuple(x) for x in r["cigar"]], "seq": r["seq"],
                  "flag": r["flag"], "rg": "rg1", "mapq": 60, "qual": 30} for r in case["reads"] if r.get("src", 0) == f]
        if not reads:
            # a BAM without any record is refused (EmptyAlignmentFileError): a decoy that every configuration filters
            reads.append({"name": "decoy", "chrom": "chr1", "start": 0, "cigar": [(0, 5)], "seq": case["ref"][:5],
                          "flag": F.FLAG_SECONDARY, "rg": "rg1", "mapq": 0, "qual": 30})
        bam = os.path.join(d, f"in{f}.bam")
        sim.write_bam(bam, contigs, reads, [("rg1", "S1")])
        bams.append(bam)
    sim.write_vcf(vcf, contigs, ["S1"], [{"chrom": "chr1", "pos": v.pos, "ref": v.ref, "alts": [v.alt], "calls": [{"GT": "0/1"}],
                                           "format": ["GT"]} for _, v in listed])
    return fa, bams, vcf, hv, listed


def akey(m):
    """identity of one alignment record of a generated case: (file, read name, flag, start) - mates differ by flag, a
    supplementary alignment by flag 0x800"""
    return (m.get("src", 0), m["name"], m["flag"], m["start"])


def run_scenario(ctx, case, label):
    """runs the real ReadSetReader in both modes on the case, checks oracle + correspondence"""
    from whatshap.variants import ReadSetReader
    from whatshap.core import NumericSampleIds
    from whatshap.vcf import VcfReader
    from whatshap.utils import IndexedFasta
    d = os.path.join(ctx.workdir(), "scn")
    shutil.rmtree(d, ignore_errors=True)
    os.makedirs(d)
    try:
        fa, bams, vcf, hv, listed = write_inputs(d, case)
        if not listed:
            return
        rcfg = case.get("cfg") or {}
        use_supp, supp_thr = bool(rcfg.get("supplementary", False)), rcfg.get("threshold", 100000)
        sample = rcfg.get("sample", "S1")        # None = --ignore-read-groups: every record of every file is the sample's
        tables = list(VcfReader(vcf, only_snvs=False))
        vlist = tables[0].variants if tables else []
        if [(v.position, v.reference_allele) for v in vlist] != [(v.pos, v.ref) for _, v in listed]:
            ctx.disagree("c06.vcf-roundtrip", {"label": label}, [repr(v) for v in vlist], [repr(v) for _, v in listed])
            return
        fasta = IndexedFasta(fa)
        reads = G.case_reads(case)
        # a read (template) is identified by (file, name): the same name in another file is another molecule
        by_name = {}
        for r in reads:
            by_name.setdefault((r["src"], r["name"]), []).append(r)
        names_of = {}
        for (f_, n_) in by_name:
            names_of.setdefault(n_, set()).add(f_)
        ctx.dist("scenario.files", f"{len(bams)} file(s), " + ("names shared between files" if any(len(x) > 1 for x in names_of.values())
                                                               else "names unique"))
        # alignments exactly as whatshap fetches them (file by file; a supplementary record only if the reader admits them)
        alns = []
        for f_, b_ in enumerate(bams):
            with pysam.AlignmentFile(b_) as af:
                alns += [(f_, a) for a in af.fetch("chr1") if not a.is_secondary and (use_supp or not a.is_supplementary)]
        vjson = [[v.pos, v.ref, [v.alt]] for _, v in listed]
        for mode in ("ref", "noref", "affine"):
            # "affine": the re-alignment of `whatshap genotype --affine-gap` (default costs); there is no such option in
            # `whatshap phase`, and genotype does not expose its reads, so this stream runs in-process only
            refarg = fasta["chr1"] if mode != "noref" else None
            akw = dict(affine=True, gap_start=AFFINE_DEFAULT[0], gap_extend=AFFINE_DEFAULT[1],
                       default_mismatch=AFFINE_DEFAULT[2]) if mode == "affine" else {}
            reader = ReadSetReader(bams, reference=None, numeric_sample_ids=NumericSampleIds(), use_supplementary=use_supp,
                                   supplementary_distance_threshold=supp_thr, **akw)
            try:
                rs = reader.read("chr1", vlist, sample, refarg)
            except Exception as e:  # a crash on error-free reads with valid CIGARs: nothing is recorded at all
                ctx.evaluated()
                ctx.fail(f"{mode}: ReadSetReader.read raised {_exc(e)} on error-free reads with canonical CIGARs",
                         {"label": label, "mode": mode, "case": case}, key=f"crash-{_exc(e)}")
                continue
            finally:
                reader.close()
            got = {}
            for r in rs:
                got[(r.source_id, r.name)] = [[v.position, v.allele, v.quality] for v in r]
            # ---- K: per alignment model, then group model
            reqs = []
            for _, a in alns:
                if mode == "ref":
                    reqs.append(dict(op="c06.detect_ref", variants=vjson, j=0, ref_start=a.reference_start, cigar=[list(x) for x in a.cigartuples],
                                     query=a.query_sequence, reference=case["ref"], overhang=10, asis=ASIS))
                elif mode == "affine":
                    reqs.append(dict(op="c06.detect_ref_q", variants=vjson, restricted=None, j=0, ref_start=a.reference_start,
                                     cigar=[list(x) for x in a.cigartuples], query=a.query_sequence, reference=case["ref"], overhang=10,
                                     affine=_maff(AFFINE_DEFAULT), asis=ASIS))
                else:
                    reqs.append(dict(op="c06.detect_noref", variants=vjson, first=0, ref_start=a.reference_start,
                                     cigar=[list(x) for x in a.cigartuples], query=a.query_sequence,
                                     quals=list(a.query_qualities) if a.query_qualities is not None else None, asis=ASIS))
            outs = ctx.model.ask_many(reqs)
            per_aln = {}
            per_aln_model = {}
            groups = {}
            order = []
            for (src, a), m in zip(alns, outs):
                impl = impl_detect(mode, vlist, a, case["ref"])
                ctx.evaluated()
                mm = {"out": m.get("out"), "err": m.get("err")}
                if impl != mm:
                    ctx.disagree(f"c06.detect_{mode}", {"label": label, "read": a.query_name, "src": src, "start": a.reference_start,
                                                        "cigar": a.cigarstring, "query": a.query_sequence, "variants": vjson,
                                                        "reference": case["ref"] if mode != "noref" else None}, impl, mm)
                det = [[vjson[i][0], al, q] for i, al, q in (impl["out"] or [])]
                ak = (src, a.query_name, a.flag, a.reference_start)
                per_aln[ak] = {p: al for p, al, _ in det}
                per_aln_model[ak] = {vjson[i][0]: al for i, al, q in (mm["out"] or [])}
                if det:
                    gk = (src, a.query_name)
                    if gk not in groups:
                        order.append(gk)
                    groups.setdefault(gk, []).append({"supp": a.is_supplementary, "rev": a.is_reverse, "start": a.reference_start,
                                                      "end": a.reference_end, "variants": det})
            if mode == "affine":
                # qualities are differences of distances (<= 0): the merge of mates is compared by the filter stream (`c06.read`)
                gouts, exp = [], got
            else:
                gouts = ctx.model.ask_many([dict(op="c06.group", group=groups[n], threshold=supp_thr, asis=ASIS) for n in order])
                exp = {n: g for n, g in zip(order, gouts) if g is not None}
            if exp != got:
                diff = sorted(n for n in set(exp) | set(got) if exp.get(n) != got.get(n))
                ctx.disagree(f"c06.readset_{mode}", {"label": label, "names": [list(n) for n in diff[:5]], "case": case},
                             {f"{n[0]}:{n[1]}": got.get(n) for n in diff[:5]}, {f"{n[0]}:{n[1]}": exp.get(n) for n in diff[:5]})
            # ---- O: ground truth
            valid = None
            if mode == "noref":
                valid = set(impl_normalize(vjson)["valid"])
            oracle(ctx, case, label, mode, hv, listed, by_name, got, per_aln, valid, per_aln_model)
    finally:
        shutil.rmtree(d, ignore_errors=True)


def impl_detect(mode, vlist, aln, reference):
    from whatshap.variants import ReadSetReader
    from whatshap._variants import _detect_alleles
    out, err = [], None
    try:
        if mode == "ref":
            for t in ReadSetReader.detect_alleles_by_alignment(vlist, None, 0, aln, reference, 10):
                out.append([int(x) for x in t])
        elif mode == "affine":
            for t in ReadSetReader.detect_alleles_by_alignment(vlist, None, 0, aln, reference, 10, True, *AFFINE_DEFAULT):
                out.append([int(x) for x in t])
        else:
            nvs = [v.normalized() for v in vlist]
            valid = ReadSetReader.detect_non_overlapping_variants(None, nvs)
            vp = [ReadSetReader.build_var_progress(None, nvs, j) for j in valid]
            vp.sort(key=lambda x: x.variant_id)
            for t in _detect_alleles(nvs, vp, 0, aln):
                out.append([int(x) for x in t])
    except Exception as e:
        err = _exc(e)
    return {"out": out, "err": err}


def oracle(ctx, case, label, mode, hv, listed, by_name, got, per_aln, valid=None, per_aln_model=None):
    vidx = {i: n for n, (i, _) in enumerate(listed)}     # index into the VCF variant list
    shared = {}
    for (src, name) in by_name:
        shared[name] = shared.get(name, 0) + 1
    # a Read that belongs to no generated template (a name/file combination that was never written)
    for k in got:
        if k not in by_name:
            ctx.evaluated()
            ctx.fail(f"{mode}: the ReadSet contains a read {k[1]!r} with source id {k[0]}, but file {k[0]} has no alignment of that name",
                     {"label": label, "mode": mode, "read": k[1], "src": k[0], "case": case}, key="read-of-unknown-template")
    for (src, name), mates in by_name.items():
        rec = {p: a for p, a, _ in got.get((src, name), [])}
        multi = ("/shared-name" if shared[name] > 1 else "") + ("/supplementary" if any(m["supp"] for m in mates) else "")
        for i, v in listed:
            ts = [m["truth"][i] for m in mates]
            overlap = any(t["overlap"] for t in ts)
            fulls = [t for t in ts if t["full"]]
            # "always found" is demanded of the primary alignments (mates); whether a supplementary alignment is used at all is
            # the reader's business (option, strand, distance): for a variant only it covers the demand is "carried or none"
            prim_full = any(m["truth"][i]["full"] for m in mates if not m["supp"])
            partial = any(t["overlap"] and not t["full"] for t in ts)
            g = rec.get(v.pos)
            near = min((abs(m["start"] - v.pos) for m in mates), default=99)
            if not overlap and g is None and near > 40:
                continue  # trivial: far away
            ctx.evaluated()
            ctx.dist(f"pairs.{mode}", f"{v.kind}:{'full' if fulls else ('partial' if partial else 'no-overlap')}")
            if multi:
                ctx.dist(f"pairs.templates", f"{'overlap' if overlap else 'no-overlap'}{multi}")
            def where():
                return {"label": label, "mode": mode, "read": name, "src": src, "variant": repr(v), "kind": v.kind, "recorded": g,
                        "mates": [{"start": m["start"], "cigar": m["cigar"], "flag": m["flag"], "truth": m["truth"][i]} for m in mates],
                        "case": case}
            if not overlap:
                if g is not None:
                    others = [f"file {f}: " + ", ".join(f"{m['start']}..{m['start'] + G.cigar_ref_len(m['cigar'])} (haplotype {m['hap']})"
                                                         for m in ms) for (f, n), ms in by_name.items() if n == name and f != src]
                    ctx.fail(f"allele {g} recorded for variant {v!r} the read does not overlap ({mode})"
                             + (f"; read {name!r} of file {src} aligns to " + ", ".join(f"{m['start']}..{m['start'] + G.cigar_ref_len(m['cigar'])}"
                                                                                         for m in mates)
                                + "; a different molecule of the same name exists in " + "; ".join(others) if others else ""), where(),
                             key="allele-for-non-overlapped-variant")
                continue
            if not fulls or partial:
                # read ends on / inside the variant: outside the property, observation only
                if g is not None and fulls == [] and g != ts[0]["allele"]:
                    ctx.observe(f"{mode}: wrong allele for a read ending on the variant ({v.kind}; not fully covering, outside C06)")
                continue
            a = fulls[0]["allele"]
            isolated = all(t["isolated"] for t in fulls)
            near_n = min((t["near_n"] for t in fulls if t["near_n"] is not None), default=None)
            demanded_noref = v.kind == "snv" or (v.kind in ("ins", "del") and not v.shiftable)
            ctx.nontrivial((mode, v.kind, a, len(v.ref), len(v.alt), isolated, near_n if near_n is not None and near_n < 12 else -1, multi,
                            tuple(tuple(m["cigar"]) for m in mates) if len(str(mates[0]["cigar"])) < 60 else len(mates[0]["cigar"]),
                            tuple(v.pos - m["start"] for m in mates)))
            if g == a:
                continue
            if g is None and len(mates) > 1:
                # mates that disagree make the merged read drop the position: judge the mate that saw the other allele
                seen = [per_aln.get(akey(m), {}).get(v.pos) for m in mates if m["truth"][i]["full"]]
                wrong = [d for d in seen if d is not None and d != a]
                if wrong:
                    g = wrong[0]
            if g is None:
                # not found
                found_by_mate = any(per_aln.get(akey(m), {}).get(v.pos) == a for m in mates if m["truth"][i]["full"] and not m["supp"])
                if not prim_full:
                    ctx.observe(f"{mode}: no allele for a variant only a supplementary alignment of the template covers (carried or none)")
                elif found_by_mate and shared[name] > 1:
                    ctx.fail(f"{mode}: allele {a} of {v!r} is detected on the alignment of read {name!r} of file {src} but the ReadSet has "
                             + ("no read of that name and source id" if (src, name) not in got else "it not on that read")
                             + f": the name {name!r} also denotes a different molecule in {shared[name] - 1} other file(s)", where(),
                             key=KEY_SHARED_LOST)
                elif len(mates) > 1 and found_by_mate:
                    ctx.fail(f"{mode}: allele {a} of {v!r} detected on a mate but missing from the merged read "
                             f"({mates[0]['paired']} pair)", where(), key=KEY_F12)
                elif mode in ("ref", "affine"):
                    if isolated:
                        ctx.fail(f"{mode}: allele {a} of {v!r} not found for an error-free, fully covering read (isolated variant"
                                 + (f", {near_n} bp from an N skip" if near_n is not None and near_n < 12 else "") + ")", where(),
                                 key=f"{mode}-allele-not-found-isolated" + ("-near-refskip" if near_n is not None and near_n < 12 else ""))
                    else:
                        ctx.observe(f"{mode}: no allele (tie) for a fully covering read with a second non-REF allele in the window")
                elif valid is not None and vidx[i] not in valid:
                    # detect_non_overlapping_variants drops variants that share a (normalised) position with an earlier one
                    # or lie inside a deletion: by design nothing is ever recorded for them without a reference
                    if NOREF_DEMANDS_FOUND and (v.kind == "snv" or demanded_noref):
                        ctx.fail(f"noref: {v.kind} {v!r} is discarded as conflicting with a neighbouring variant (same normalised "
                                 f"position / inside a deletion): no allele is ever recorded", where(), key=KEY_CONFLICT)
                    else:
                        ctx.observe("noref: variant discarded as conflicting (same normalised position / inside a deletion)")
                elif not NOREF_DEMANDS_FOUND:
                    ctx.observe(f"noref: allele not found for {v.kind} (never wrong; 'found' not demanded: NOREF_DEMANDS_FOUND=False)")
                else:
                    if v.kind == "snv":
                        ctx.fail(f"noref: allele {a} of SNV {v!r} not found", where(), key="noref-snv-not-found")
                    elif demanded_noref:
                        multibase = (v.kind == "del" and len(v.ref) > 2)
                        ctx.fail(f"noref: allele {a} of unshiftable {v.kind} {v!r} placed at its normalised position not found",
                                 where(), key=KEY_F13 if (multibase and a == 0) else "noref-indel-not-found")
                    else:
                        ctx.observe(f"noref: allele not found for {v.kind}{' (shiftable)' if v.shiftable else ''} (not claimed)")
                continue
            # wrong allele
            if mode == "noref" and not demanded_noref:
                ctx.observe(f"noref: wrong allele for {v.kind}{' (shiftable)' if v.shiftable else ''} (not claimed without a reference)")
                continue
            # F11 is the behaviour of the window re-alignment *as specified* (the Lean model of the unchanged algorithm gives
            # the same wrong allele for this alignment); a wrong allele the algorithm's model does not give is a new failure
            inherent = per_aln_model is None or any(
                per_aln_model.get(akey(m), {}).get(v.pos) == g for m in mates if m["truth"][i]["full"])
            if mode in ("ref", "affine") and not isolated and not inherent:
                ctx.fail(f"{mode}: WRONG allele {g} (carried: {a}) for {v!r} on an error-free, fully covering read; the window "
                         f"re-alignment as modelled gives {[per_aln_model.get(akey(m), {}).get(v.pos) for m in mates]} "
                         f"here, so this is not the known limitation F11", where(), key=f"wrong-allele-{mode}-close-not-inherent")
            elif mode in ("ref", "affine") and not isolated:
                ctx.fail(f"{mode}: WRONG allele {g} (carried: {a}) for {v!r}: second non-REF allele of the same haplotype inside "
                         f"the ±10 bp window", where(), key=KEY_F11)
            else:
                ctx.fail(f"{mode}: WRONG allele {g} (carried: {a}) for {v!r} on an error-free, fully covering read"
                         + (f", {near_n} bp from an N skip" if near_n is not None and near_n < 12 else ""), where(),
                         key=f"wrong-allele-{mode}" + ("-isolated" if isolated else "-close")
                             + ("-near-refskip" if near_n is not None and near_n < 12 else ""))


# ------------------------------------------------------------------------------------------------
# O: MULTI-ALLELIC records with ground truth (VcfReader(mav=True) -> ReadSetReader.read; the path of polyphase / haplotagphase)
# ------------------------------------------------------------------------------------------------

def write_mav_inputs(d, case):
    contigs = {"chr1": case["ref"]}
    sites = [MV.MSite.from_list(l) for l in case["sites"]]
    listed = [(i, s) for i, s in enumerate(sites) if s.listed]
    fa, vcf, bam = (os.path.join(d, "in" + e) for e in (".fasta", ".vcf", ".bam"))
    sim.write_fasta(fa, contigs)
    reads = [{"name": r["name"], "chrom": "chr1", "start": r["start"], "cigar": [tuple(x) for x in r["cigar"]], "seq": r["seq"],
              "flag": r["flag"], "rg": "rg1", "mapq": 60, "qual": 30} for r in case["reads"]]
    sim.write_bam(bam, contigs, reads, [("rg1", "S1")])
    sim.write_vcf(vcf, contigs, ["S1"], [{"chrom": "chr1", "pos": s.pos, "ref": s.ref, "alts": s.alt_seqs(),
                                           "calls": [{"GT": "/".join(str(h[i]) for h in case["haps"])}], "format": ["GT"]}
                                          for i, s in listed])
    return fa, bam, vcf, sites, listed


def run_mav_scenario(ctx, case, label):
    """multi-allelic (and neighbouring bi-allelic) records read by the real VcfReader with mav=True, alleles detected by the real
    ReadSetReader with / without a reference (Levenshtein, affine; optionally restricted to the sample's genotype as
    haplotagphase does); oracle: recorded allele of an error-free fully covering read = carried allele, or none"""
    from whatshap.variants import ReadSetReader
    from whatshap.core import NumericSampleIds
    from whatshap.vcf import VcfReader
    from whatshap.utils import IndexedFasta
    d = os.path.join(ctx.workdir(), "mav")
    shutil.rmtree(d, ignore_errors=True)
    os.makedirs(d)
    try:
        fa, bam, vcf, sites, listed = write_mav_inputs(d, case)
        if not listed:
            return
        with VcfReader(vcf, only_snvs=False, mav=True) as vr:
            tables = list(vr)
        table = tables[0] if tables else None
        vlist = table.variants if table else []
        vjson = [[s.pos, s.ref, s.alt_seqs()] for _, s in listed]
        if [[v.position, v.reference_allele, list(v.get_alt_allele_list())] for v in vlist] != vjson:
            ctx.evaluated()
            ctx.fail("VcfReader(mav=True) does not deliver the records of the VCF (multi-allelic record lost or altered)",
                     {"label": label, "got": [repr(v) for v in vlist], "want": vjson, "case": case}, key="mav-vcf-record-lost")
            return
        genotypes = [sorted(g.as_vector()) for g in table.genotypes_of("S1")]
        want_gt = [sorted(h[i] for h in case["haps"]) for i, _ in listed]
        if genotypes != want_gt:
            ctx.disagree("c06.mav-genotypes", {"label": label}, genotypes, want_gt)
        restricted = table.genotypes_of("S1") if (case.get("cfg") or {}).get("restricted") else None
        rjson = want_gt if restricted is not None else None
        fasta = IndexedFasta(fa)
        reads = G.case_reads(case)
        by_name = {}
        for r in reads:
            by_name.setdefault(r["name"], []).append(r)
        with pysam.AlignmentFile(bam) as af:
            alns = list(af.fetch("chr1"))
        for mode in ("ref", "noref", "affine"):
            refarg = fasta["chr1"] if mode != "noref" else None
            akw = dict(affine=True, gap_start=AFFINE_DEFAULT[0], gap_extend=AFFINE_DEFAULT[1],
                       default_mismatch=AFFINE_DEFAULT[2]) if mode == "affine" else {}
            reader = ReadSetReader([bam], reference=None, numeric_sample_ids=NumericSampleIds(), **akw)
            try:
                rs = reader.read("chr1", vlist, "S1", refarg, None, restricted if mode != "noref" else None)
            except Exception as e:
                ctx.evaluated()
                ctx.fail(f"{mode}: ReadSetReader.read raised {_exc(e)} on error-free reads over multi-allelic records",
                         {"label": label, "mode": mode, "case": case}, key=f"mav-crash-{_exc(e)}")
                continue
            finally:
                reader.close()
            got = {r.name: {v.position: v.allele for v in r} for r in rs}
            # ---- K: per alignment, the Lean model of the detector on the same (multi-allelic) variant list
            reqs = []
            for a in alns:
                common = dict(variants=vjson, ref_start=a.reference_start, cigar=[list(x) for x in a.cigartuples], query=a.query_sequence,
                              asis=ASIS)
                if mode == "noref":
                    reqs.append(dict(op="c06.detect_noref", first=0, quals=list(a.query_qualities) if a.query_qualities is not None else None,
                                     **common))
                else:
                    reqs.append(dict(op="c06.detect_ref_q", restricted=rjson, j=0, reference=case["ref"], overhang=10,
                                     affine=_maff(AFFINE_DEFAULT) if mode == "affine" else None, **common))
            outs = ctx.model.ask_many(reqs)
            per_aln, per_aln_model = {}, {}
            nvjson = impl_normalize(vjson)["normalized"] if mode == "noref" else None
            for a, m in zip(alns, outs):
                impl = impl_detect_mav(mode, vlist, a, case["ref"], restricted)
                ctx.evaluated()
                mm = {"out": m.get("out"), "err": m.get("err")}
                if mode == "noref" and "F126" in FIXED and mm["out"]:
                    gone = f126_unjudged(nvjson, a.reference_start, a.cigartuples)
                    mm["out"] = [t for t in mm["out"] if t[0] not in gone]
                if impl != mm:
                    ctx.disagree(f"c06.mav.detect_{mode}", {"label": label, "read": a.query_name, "start": a.reference_start,
                                                            "cigar": a.cigarstring, "query": a.query_sequence, "variants": vjson,
                                                            "restricted": rjson if mode != "noref" else None,
                                                            "reference": case["ref"] if mode != "noref" else None}, impl, mm)
                ak = (0, a.query_name, a.flag, a.reference_start)
                per_aln[ak] = {vjson[i][0]: al for i, al, q in (impl["out"] or [])}
                per_aln_model[ak] = {vjson[i][0]: al for i, al, q in (mm["out"] or [])}
            valid = set(impl_normalize(vjson)["valid"]) if mode == "noref" else None
            mav_oracle(ctx, case, label, mode, listed, by_name, got, per_aln, per_aln_model, valid, restricted is not None)
    finally:
        shutil.rmtree(d, ignore_errors=True)


def impl_detect_mav(mode, vlist, aln, reference, restricted):
    from whatshap.variants import ReadSetReader
    from whatshap._variants import _detect_alleles
    out, err = [], None
    try:
        if mode == "noref":
            nvs = [v.normalized() for v in vlist]
            valid = ReadSetReader.detect_non_overlapping_variants(None, nvs)
            vp = [ReadSetReader.build_var_progress(None, nvs, j) for j in valid]
            vp.sort(key=lambda x: x.variant_id)
            it = _detect_alleles(nvs, vp, 0, aln)
        elif mode == "affine":
            it = ReadSetReader.detect_alleles_by_alignment(vlist, restricted, 0, aln, reference, 10, True, *AFFINE_DEFAULT)
        else:
            it = ReadSetReader.detect_alleles_by_alignment(vlist, restricted, 0, aln, reference, 10)
        for t in it:
            out.append([int(x) for x in t])
    except Exception as e:
        err = _exc(e)
    return {"out": out, "err": err}


def mav_oracle(ctx, case, label, mode, listed, by_name, got, per_aln, per_aln_model, valid, restricted):
    vidx = {i: n for n, (i, _) in enumerate(listed)}
    for name in got:
        if name not in by_name:
            ctx.evaluated()
            ctx.fail(f"{mode}: the ReadSet contains a read {name!r} that was never written", {"label": label, "mode": mode, "case": case},
                     key="read-of-unknown-template")
    for name, mates in by_name.items():
        rec = got.get(name, {})
        for i, s in listed:
            ts = [m["truth"][i] for m in mates]
            overlap = any(t["overlap"] for t in ts)
            fulls = [t for t in ts if t["full"]]
            partial = any(t["overlap"] and not t["full"] for t in ts)
            g = rec.get(s.pos)
            near = min((abs(m["start"] - s.pos) for m in mates), default=99)
            if not overlap and g is None and near > 40:
                continue
            ctx.evaluated()
            multi = len(s.alts) > 1
            fam = s.family + ("" if len(s.alts) < 3 else f"/{len(s.alts)}alts")
            ctx.dist(f"mav.pairs.{mode}", f"{fam}:{'full' if fulls else ('partial' if partial else 'no-overlap')}")

            def where():
                return {"label": label, "mode": mode, "read": name, "variant": repr(s), "family": s.family, "recorded": g,
                        "mates": [{"start": m["start"], "cigar": m["cigar"], "flag": m["flag"], "truth": m["truth"][i]} for m in mates],
                        "case": case}
            if not overlap:
                if g is not None:
                    ctx.fail(f"allele {g} recorded for the record {s!r} the read does not overlap ({mode})", where(),
                             key="allele-for-non-overlapped-variant")
                continue
            if not fulls or partial:
                continue
            a = fulls[0]["allele"]
            carried = s.kind_of(a)
            isolated = all(t["isolated"] for t in fulls)
            near_n = min((t["near_n"] for t in fulls if t["near_n"] is not None), default=None)
            near_skip = near_n is not None and near_n < 12
            kinds = {x[1] for x in s.alts}
            # the no-reference clause of C06 speaks of SNVs and unshiftable insertions/deletions (every indel allele generated here is
            # unshiftable and placed at its own normalised position); records with an MNP allele are outside it
            demanded_noref = "mnp" not in kinds
            ctx.nontrivial(("mav", mode, s.family, tuple(x[1] for x in s.alts), tuple(len(x[0]) for x in s.alts), len(s.ref), a, isolated,
                            near_n if near_skip else -1, restricted,
                            tuple(tuple(m["cigar"]) for m in mates) if len(str(mates[0]["cigar"])) < 60 else len(mates[0]["cigar"]),
                            tuple(s.pos - m["start"] for m in mates)))
            ctx.dist(f"mav.carried.{mode}", f"{s.family}:{carried}:" + ("found" if g == a else ("none" if g is None else "WRONG")))
            if g == a:
                continue
            if g is None and len(mates) > 1:
                seen = [per_aln.get(akey(m), {}).get(s.pos) for m in mates if m["truth"][i]["full"]]
                wrong = [x for x in seen if x is not None and x != a]
                if wrong:
                    g = wrong[0]
            what = (f"{'multi-allelic ' if multi else ''}record {s!r} ({s.family}: alleles 0={s.ref} " +
                    " ".join(f"{k + 1}={x[0]}" for k, x in enumerate(s.alts)) + ")")
            if g is None:
                if mode in ("ref", "affine") and isolated and not any(per_aln.get(akey(m), {}).get(s.pos) == a for m in mates
                                                                     if m["truth"][i]["full"]):
                    ctx.fail(f"{mode}: allele {a} ({carried}) of {what} not found for an error-free, fully covering read (isolated"
                             + (f", {near_n} bp from an N skip" if near_skip else "") + ")", where(),
                             key=f"mav-{mode}-allele-not-found-isolated" + ("-near-refskip" if near_skip else ""))
                elif mode == "noref" and valid is not None and vidx[i] not in valid:
                    ctx.observe("noref: multi-allelic record discarded as conflicting (same normalised position / inside a deletion)")
                else:
                    ctx.observe(f"{mode}: no allele recorded for a fully covering read over a {s.family} record (carried or NONE: allowed)")
                continue
            msg = (f"{mode}: WRONG allele {g} ({s.kind_of(g)}, {s.ref if g == 0 else s.alts[g - 1][0]}) recorded, the read's haplotype carries "
                   f"allele {a} ({carried}, {s.ref if a == 0 else s.alts[a - 1][0]}) of {what}; error-free, fully covering read, indel at the "
                   f"allele's normalised position" + (f", {near_n} bp from an N skip" if near_skip else ""))
            if mode == "noref":
                if not demanded_noref:
                    ctx.observe("noref: wrong allele for a record with an MNP allele (not claimed without a reference)")
                    continue
                ctx.fail(msg, where(), key=mav_noref_key(s, a, g, isolated))
                continue
            inherent = any(per_aln_model.get(akey(m), {}).get(s.pos) == g for m in mates if m["truth"][i]["full"])
            if not isolated and inherent:
                ctx.fail(msg + "; second non-REF allele of the same haplotype inside the ±10 bp window", where(), key=KEY_F11)
            elif not isolated:
                ctx.fail(msg + "; not what the window re-alignment as modelled gives (not F11)", where(),
                         key=f"mav-wrong-allele-{mode}-close-not-inherent")
            else:
                ctx.fail(msg, where(), key=f"mav-wrong-allele-{mode}-isolated" + ("-near-refskip" if near_skip else ""))


KEY_F126 = "mav-noref-insertion-allele-called-ref-at-ins-del-site"


def mav_noref_key(s, a, g, isolated):
    kinds = {x[1] for x in s.alts}
    if g == 0 and s.kind_of(a) == "ins" and "del" in kinds and kinds <= {"ins", "del"}:
        # F126: every ALT keeps the anchor base, so the joint normalisation of the multi-allelic record strips it; the insertion
        # allele becomes "inserted bases + rest of REF", which the allele tracker (matches first, then insertions) cannot follow, the
        # I operation in front of the (shifted) record is ignored and the bases behind it match REF
        return KEY_F126
    return f"mav-wrong-allele-noref-{s.family}" + ("" if isolated else "-close")


def f126_unjudged(nvjson, start, cigar):
    """proposed repair fixes/F126.patch, as an adapter on the model of the unchanged detector (C06_FIXED=F126): a record with
    a non-empty normalised REF and an ALT longer than it is not judged on an alignment with an I operation directly in front of
    it (removing one entry of the queue changes nothing for the others: every entry is advanced by every operation on its own)"""
    ipos, r = set(), start
    for op, n in cigar:
        if op == 1:
            ipos.add(r)
        elif op in (0, 2, 3, 7, 8):
            r += n
    return {k for k, (p, ref, alts) in enumerate(nvjson) if len(ref) > 0 and p in ipos and any(len(x) > len(ref) for x in alts)}


# ------------------------------------------------------------------------------------------------
# exhaustive small space (thorough tier)
# ------------------------------------------------------------------------------------------------

def exhaustive_iter(ctx, max_ops, max_len, ops):
    import itertools
    choices = [(op, n) for op in ops for n in range(1, max_len + 1)]
    batch = []
    for k in range(0, max_ops + 1):
        for cig in itertools.product(choices, repeat=k):
            span = G.cigar_ref_len(cig)
            batch.append({"positions": list(range(4, 5 + span + 2)), "j": 0, "start": 5, "cigar": [list(x) for x in cig]})
            if len(batch) >= 2000:
                check_iter(ctx, batch); batch = []
    if batch:
        check_iter(ctx, batch)


def exhaustive_prefix(ctx, max_ops, max_len, ops):
    import itertools
    choices = [(op, n) for op in ops for n in range(1, max_len + 1)]
    batch = []
    for k in range(0, max_ops + 1):
        for cig in itertools.product(choices, repeat=k):
            span = G.cigar_ref_len(cig)
            for kk in range(0, span + 2):
                batch.append({"cigar": [list(x) for x in cig], "k": kk, "i": min(kk, max(0, len(cig) - 1)), "consumed": kk % (max_len + 1)})
            if len(batch) >= 2000:
                check_prefix_split(ctx, batch); batch = []
    if batch:
        check_prefix_split(ctx, batch)


# ------------------------------------------------------------------------------------------------

def run(ctx):
    try:
        _run(ctx)
    finally:
        shutil.rmtree(ctx.workdir(), ignore_errors=True)


def _run(ctx):
    rng = ctx.rng
    logging.getLogger("whatshap").setLevel(logging.CRITICAL)   # "Unsupported CIGAR operation" etc. are provoked on purpose
    if ctx.replay:
        c = ctx.replay
        if isinstance(c, str):     # a path: a replay file written by a failed run ({"case": ...}) or a corpus file (the case itself)
            c = json.load(open(c))
            if isinstance(c.get("case"), dict) and "property" in c:
                c = c["case"]
        replay_case(ctx, c, "replay")
        return
    for name, c in ctx.corpus():
        replay_case(ctx, c, "corpus:" + name)
    q = ctx.quick
    s = ctx.scale
    n_syn = (2500 if q else 40000) * s
    for mk, chk in ((gen_iter_case, check_iter), (gen_prefix_case, check_prefix_split), (gen_realign_case, check_realign),
                    (gen_noref_case, check_noref), (gen_group_case, check_group), (gen_affine_case, check_affine),
                    (gen_realign_q_case, check_realign_q)):
        cases = [mk(rng) for _ in range(n_syn if mk not in (gen_group_case, gen_realign_q_case) else n_syn // 3)]
        for k in range(0, len(cases), 500):
            chk(ctx, cases[k:k + 500])
    if not q:
        exhaustive_iter(ctx, 3, 2, (0, 1, 2, 3, 4, 5, 6, 7, 8))
        exhaustive_iter(ctx, 4, 2, (0, 1, 2, 3, 4))
        exhaustive_prefix(ctx, 3, 2, (0, 1, 2, 3, 4, 5, 7))
        ctx.extra["exhaustive_note"] = ("walker: all CIGARs of <= 3 ops over all nine operators (<= 4 ops over MIDNS), lengths 1-2, "
                                        "a variant at every reference position; prefix/split: <= 3 ops, every k")
    n_flt = (60 if q else 1500) * s
    for k in range(n_flt):
        case = F.make_case(rng)
        if k < 1:
            ctx.sample({"stream": "filter", "cfg": case["cfg"], "sample": case["sample"], "regions": case["regions"], "mode": case["mode"],
                        "records": [{kk: r_[kk] for kk in ("name", "flag", "mapq", "rg", "role", "src")} for r_ in case["records"][:6]]})
        run_filter_case(ctx, case, f"filter#{k}")
    n_scn = (120 if q else 3000) * s
    for k in range(n_scn):
        r = rng.random()
        stream = "isolated" if r < 0.55 else ("close" if r < 0.85 else "twins")
        alphabet = "ACGT" if rng.random() < 0.7 else rng.choice(["AC", "ACG"])
        # the reads of a sample usually come from several alignment files (runs, lanes, technologies) that number their
        # reads independently: 1-3 files, names reused between files for unrelated molecules (or unique), the same molecule in
        # two files, and - within ONE file - the legitimate sharing of a name: mates, primary + supplementary alignment
        n_files = rng.choice([1, 1, 2, 2, 3])
        sc = G.C06Scenario(rng, stream=stream, n_reads=rng.randrange(30, 70), alphabet=alphabet,
                           allow_shiftable=(rng.random() < 0.3), decorations=(rng.random() < 0.85),
                           paired=rng.choice([0.0, 0.0, 0.3]), n_files=n_files, reuse_names=(rng.random() < 0.75),
                           same_molecule=rng.choice([0.0, 0.1]), supplementary=rng.choice([0.0, 0.0, 0.25]))
        case = sc.to_case()
        case["cfg"] = {"supplementary": rng.random() < 0.6, "threshold": rng.choice([100000, 100000, 150, 0]),
                       "sample": rng.choice(["S1", "S1", None])}
        ctx.dist("scenario.stream", stream + ("/" + alphabet if alphabet != "ACGT" else ""))
        if k < 2:
            ctx.sample({"stream": stream, "variants": [repr(v) for v in sc.hvars][:6],
                        "reads": [{"start": r_["start"], "cigar": sim_cigar(r_["cigar"]), "hap": r_["hap"]} for r_ in sc.reads[:3]]})
        run_scenario(ctx, case, f"{stream}#{k}")
    # multi-allelic records in the ground-truth streams (after the older streams: their PRNG sequence is unchanged)
    n_mav = (70 if q else 2000) * s
    for k in range(n_mav):
        case = gen_mav_case(rng)
        if k < 2:
            ctx.sample({"stream": case["stream"], "sites": [repr(MV.MSite.from_list(x)) for x in case["sites"]][:6], "haps": [h[:6] for h in case["haps"]],
                        "reads": [{"start": r_["start"], "cigar": sim_cigar(r_["cigar"]), "hap": r_["hap"]} for r_ in case["reads"][:3]]})
        run_mav_scenario(ctx, case, f"{case['stream']}#{k}")


def gen_mav_case(rng):
    r = rng.random()
    stream = "isolated" if r < 0.5 else ("close" if r < 0.85 else "twins")
    alphabet = "ACGT" if rng.random() < 0.7 else rng.choice(["AC", "ACG"])
    sc = MV.MavScenario(rng, stream=stream, n_reads=rng.randrange(30, 70), alphabet=alphabet, ploidy=rng.choice([2, 2, 2, 3, 4]),
                        decorations=(rng.random() < 0.85), paired=rng.choice([0.0, 0.0, 0.3]), p_multi=rng.choice([0.5, 0.8, 1.0]))
    case = sc.to_case()
    case["cfg"] = {"restricted": rng.random() < 0.4}
    return case


def sim_cigar(c):
    return "".join(f"{n}{'MIDNSHP=X'[op]}" for op, n in c)


def replay_case(ctx, c, label):
    kind = c.get("stream") or c.get("kind")
    if "label" in c and isinstance(c.get("case"), dict) and "sites" in c["case"]:
        run_mav_scenario(ctx, minimal(c), label)
    elif "label" in c and "case" in c and isinstance(c["case"], dict) and "reads" in c["case"]:
        run_scenario(ctx, minimal(c), label)
    elif kind == "filter" and "records" in c:
        run_filter_case(ctx, c, label)
    elif kind == "filter" or ("label" in c and isinstance(c.get("case"), dict) and c["case"].get("stream") == "filter"):
        run_filter_case(ctx, c["case"], label)
    elif kind and kind.startswith("mav-"):
        run_mav_scenario(ctx, c, label)
    elif kind in ("isolated", "close", "twins"):
        run_scenario(ctx, c, label)
    elif kind == "affine":
        check_affine(ctx, [c["case"]])
    elif "mismatch" in c:
        check_affine(ctx, [c])
    elif "variant" in c and "affine" in c:
        check_realign_q(ctx, [c])
    elif kind == "group":
        check_group(ctx, [c["case"]])
    elif kind == "iter":
        check_iter(ctx, [c["case"]])
    elif kind == "prefix":
        check_prefix_split(ctx, [c["case"]])
    elif kind == "realign":
        check_realign(ctx, [c["case"]])
    elif kind == "noref":
        check_noref(ctx, [c["case"]])
    elif "positions" in c:
        check_iter(ctx, [c])
    elif "k" in c and "consumed" in c:
        check_prefix_split(ctx, [c])
    elif "variant" in c:
        check_realign(ctx, [c])
    elif "variants" in c and "quals" in c:
        check_noref(ctx, [c])
    elif "group" in c:
        check_group(ctx, [c])


def minimal(w):
    """a failure's `where()` record -> scenario case restricted to the failing read (and its mate)"""
    case = dict(w["case"])
    if "read" in w:
        case["reads"] = [r for r in case["reads"] if r["name"] == w["read"]]
    return case

"""C04 — the phased VCF is the input VCF plus phase information and nothing else.

Every case is one real `whatshap phase` CLI run over a generated "rich" variant file (harness/gen/c04_vcf.py) with
a random --sample / --chromosome selection, either tag, optionally --only-snvs / --distrust-genotypes.

Oracle (text level, independent of whatshap and of the Lean model): the output is compared line by line with the
input *as htslib itself re-serialises it unmodified* (a pysam copy of the input — so float formatting and
padding are the same on both sides): record count and order, the 8 site columns, the FORMAT keys, every sample
value other than GT/PS/HP of target samples on selected chromosomes, allele multisets of target genotypes
(unless --distrust-genotypes), phase marks only on supported heterozygous calls that the run phased, and the
header definitions.  Correspondence: parsed output records == Lean `c04.write` (repaired writer) applied to the
parsed input records with the traced super-reads/components; output header == Lean `c04.header`.

Since round E04 (Model/C04File.lean) also at file level: `c04.file` runs the model of reader (`groupby`, row selection), augmenter
(look-ahead streaming) and chromosome loop over the TEXT of htslib's copy of the input: tables, every output line's FORMAT and
sample columns byte for byte, the reader's rows against the real VcfReader, header (incl. Number/Type of FORMATs), refusals
(VcfError, unknown sample) both ways, sample selection; plus in-process stream cases (arbitrary `write` call sequences on the
real PhasedVcfWriter) and reader cases (record lists with every skipped kind, unsorted positions, odd ploidies).
"""
import gzip, json, os, random, re, shutil

import pysam

from harness.gen import sim
from harness.gen import c04_records as R
from harness.gen import c04_file as F
from harness.gen.c04_vcf import gen_case, build_inputs
from harness.props.c09 import eligible_first, expected_phases

RULE = ("one `whatshap phase` CLI run over a generated multi-sample, multi-chromosome VCF with random INFO/FORMAT fields "
        "(Integer/Float/String/Flag, Number 1/A/R/G/.), ID/QUAL/FILTER values, missing/partial genotypes, records without "
        "GT / without ALT, multi-ALT, symbolic ALT, duplicate positions (every skipped kind — indel, MNP, multi-ALT, >=16 ALT, no ALT, "
        "symbolic, other SNV — in front of and behind a phasable record of the same position, heterozygous calls in every textual form), "
        "pre-existing PS/HP phase, optional missing contig "
        "lines and mis-declared predefined FORMATs; random --sample/--chromosome selection, both tags, optional --only-snvs, "
        "--distrust-genotypes, chromosome names coming back later in the file, >=16-ALT records, undeclared predefined INFOs, refused "
        "inputs, output to file/stdout/.gz/over an existing file; plus in-process cases without BAM: `write` call sequences on "
        "the real PhasedVcfWriter (non-trivial: a chromosome comes back) and record lists for the real VcfReader (non-trivial: "
        "some record is no table row). CLI runs non-trivial: at least one call was phased and the file has at least one record the writer must "
        "skip or one non-target sample/chromosome; distinct = distinct (generator seed, options)")
MANIFEST = dict(
    text="Lean 4 theorems about a record-level model of PhasedVcfWriter.write and of the header pipeline "
         "(untouched_outside_targets, only_phase_fields_change, alleles_preserved, phased_only_if_het_supported, "
         "header_superset) and of the file level around it (reader row selection, groupby, augmenter look-ahead, chromosome loop, "
         "header scan, column text: stream_lockstep, file_untouched_outside_selection, writer_reader_agree, "
         "alleles_preserved_from_table, header_covers_body, text_nothing_else); tied to the working tree by real CLI runs: the parsed output must equal the model applied to the "
         "parsed input with the traced super-reads/components, and an independent line-by-line oracle compares the output "
         "with htslib's own unmodified re-serialisation of the input",
    design_ref="DESIGN.md §5 C04",
    note="trusted: Lean kernel; hand-written model (differential: quick 30 CLI runs + 300 in-process cases, thorough 300 + 3000); htslib parsing and "
         "serialisation (the oracle's baseline is a pysam copy of the input). phased_only_if_het_supported needs the "
         "tag-independent removal of fixes/F4.patch; on the unpatched repo --tag HP leaves stale phase marks of the input "
         "(reported, key stale-mark) and can write a NUL byte as HP value (F21, key output-unparsable)",
    technique="Lean 4 proof on a record-level writer/header model + differential correspondence + text-level diff oracle on CLI runs",
)
ASSUMPTIONS = [
    "htslib/pysam parse and re-serialise a record they do not modify in the same way inside whatshap and in the harness",
    "trusted-genotype mode: the traced super-read alleles equal the input genotype (C01 admissibility) — checked on every run, a "
    "violation is reported as a C04 failure",
]
STRUCT = ("contig", "INFO", "FILTER", "FORMAT", "ALT")


def header_lines(path):
    out = []
    with open(path) as f:
        for line in f:
            if line.startswith("##"):
                out.append(line.rstrip("\n"))
            else:
                break
    return out


def parse_hline(line):
    m = re.match(r"##([^=]+)=(.*)$", line)
    key, val = m.group(1), m.group(2)
    if val.startswith("<") and val.endswith(">"):
        d = dict(re.findall(r'(\w+)=("[^"]*"|[^,>]*)', val[1:-1]))
        if "ID" in d:
            return {"key": key, "id": d["ID"], "number": d.get("Number", ""), "type": d.get("Type", ""), "text": ""}
    return {"key": key, "id": None, "number": "", "type": "", "text": val}


def pysam_copy(src, dst):
    """htslib's own re-serialisation of the unmodified input.  Contigs / predefined FORMATs that the input uses
    without declaring them are declared first (as whatshap does), otherwise htslib refuses to write the records."""
    from harness.gen.c04_vcf import FMT_DEFS, INFO_DEFS
    hdr, recs = sim.read_vcf_text(src)
    with pysam.VariantFile(src) as vf:
        header = vf.header
        have_c, have_f, have_i = set(header.contigs), set(header.formats), set(header.info)
        for fixed, fmt, _ in recs:
            for name in fixed[6].split(";"):
                if name != "." and name not in header.filters:
                    header.filters.add(name, None, None, name)
            if fixed[0] not in have_c:
                header.contigs.add(fixed[0]); have_c.add(fixed[0])
            for k in (fmt.split(":") if fmt else []):
                if k not in have_f and k in FMT_DEFS:
                    header.add_line(FMT_DEFS[k]); have_f.add(k)
            # (htslib wants the END definition for a symbolic ALT allele even when the record has no END)
            for kv in fixed[7].split(";") + (["END"] if "<" in fixed[4] else []):
                k = kv.split("=")[0]
                if k != "." and k not in have_i and k in INFO_DEFS:
                    header.add_line(INFO_DEFS[k]); have_i.add(k)
        with pysam.VariantFile(dst, "w", header=header) as out:
            for rec in vf:
                out.write(rec)


def field_map(fmt, col):
    keys = fmt.split(":") if fmt else []
    vals = col.split(":")
    return {k: (vals[i] if i < len(vals) else ".") for i, k in enumerate(keys)}


def is_missing(v):
    return v is None or v == "." or v == "" or set(v) <= set(".,")


def alleles_of(gt):
    return sorted(re.split(r"[/|]", gt))


def is_supported_kind(r, only_snvs):
    """one ALT allele, an SNV under --only-snvs (what the property calls a supported variant type; independent of position)"""
    return len(r["alts"]) == 1 and (not only_snvs or (len(r["ref"]) == 1 and len(r["alts"][0]) == 1))


def file_request(path, samples, hin, fc, phasing):
    """`c04.file` over the text of `path`"""
    _, trecs = sim.read_vcf_text(path)
    return {"op": "c04.file", "fc": fc, "phasing": phasing, "header": hin, "commandLine": True,
            "records": [F.text_frec(fixed, fmt, cols, samples) for fixed, fmt, cols in trecs]}


def run_case(ctx, case, n):
    o, v = case["opts"], case["vcf"]
    d = os.path.join(ctx.workdir(), f"case{n}")
    shutil.rmtree(d, ignore_errors=True)
    fa, bam, vcf, sc = build_inputs(case, d)
    samples = list(sc.samples)
    r2 = random.Random(case["gen_seed"] ^ 0x5e1)
    chroms = list(sc.contigs)
    sel_s = sorted(r2.sample(samples, r2.randrange(1, len(samples) + 1))) if (o["sample_sel"] and len(samples) > 1) else None
    sel_c = sorted(r2.sample(chroms, r2.randrange(1, len(chroms) + 1))) if (o["chrom_sel"] and len(chroms) > 1) else None
    out = os.path.join(d, "out.vcf")
    out_kind = o.get("out_kind", "file")
    out_arg = out + ".gz" if out_kind == "gz" else out
    if out_kind == "preexisting":
        with open(out, "w") as f:           # longer than any output: `-o` must replace the file, not overwrite its beginning
            f.write("##stale\n" + "stale line of a previous run\n" * 20000)
    a = ["phase", "--reference", fa, "--tag", o["tag"]] + ([] if out_kind == "stdout" else ["-o", out_arg])
    a += ["--distrust-genotypes"] if o["distrust"] else []
    a += ["--only-snvs"] if o["only_snvs"] else []
    a += ["--include-homozygous"] if o.get("include_hom") else []
    a += ["--ped", os.path.join(d, "in.ped")] if o.get("ped") else []
    a += ["--use-ped-samples"] if o.get("use_ped_samples") else []
    for s in sel_s or []:
        a += ["--sample", s]
    if o.get("bad_sample"):
        a += ["--sample", "NoSuchSample"]
    for c in sel_c or []:
        a += ["--chromosome", c]
    rc, so, se, trace = R.run_whatshap(ctx, a + [vcf, bam], trace=os.path.join(d, "trace.jsonl"))
    ctx.evaluated()
    ctx.dist("tag", o["tag"]); ctx.dist("pre", v["pre"]); ctx.dist("selection", ("S" if sel_s else "-") + ("C" if sel_c else "-"))
    ctx.dist("mode", ("distrust" if o["distrust"] else "trust") + ("+hom" if o.get("include_hom") else "") + ("+ped" if o.get("ped") else "")
             + ("+snvs" if o["only_snvs"] else ""))
    ctx.dist("output", out_kind)
    ctx.dist("file_shape", ("split " if v.get("split_chrom") else "") + ("manyALT " if v.get("many_alts") else "")
             + ("oddTagDefs " if v.get("odd_tag_defs") else "") + ("undeclInfo " if v.get("undeclared_info") else "") + ("undeclFILTER " if v.get("undeclared_filter") else "") + (v.get("refused") or "") + (" badSample" if o.get("bad_sample") else "")
             + (" pedSamples" if o.get("use_ped_samples") else "") + (f" edge:{v['edge']}" if v.get("edge") else "") or "plain")
    hin = [parse_hline(l) for l in header_lines(vcf)]
    fails = []

    def fail(what, key):
        if key not in fails:
            ctx.fail(what, case, key=key)
        fails.append(key)

    # what the model says about refusing the input: sample selection and header pipeline
    ped_samples = sorted({x for t in sc.trios for x in t}) if o.get("use_ped_samples") else None
    sel_ans, hdr_ans = ctx.model.ask_many([
        {"op": "c04.select", "header": samples, "sampleOpt": (sel_s or []) + (["NoSuchSample"] if o.get("bad_sample") else []),
         "ped": ped_samples},
        file_request(vcf, samples, hin, {"tag": o["tag"], "onlySnvs": o["only_snvs"], "samples": samples, "order": [],
                                         "chromosomes": []}, [])])
    refusal = ("unknown sample " + sel_ans["error"]) if "error" in sel_ans else ("VcfError" if "headerError" in hdr_ans else None)
    if rc != 0:
        last = (se.strip().splitlines() or ["?"])[-1][:300]
        if "Traceback" in se or rc < 0:
            # (the generator avoids the one known robustness crash: a missing PL value under --distrust-genotypes)
            fail("whatshap phase crashed instead of writing the output: " + last, "crash")
        else:
            ctx.observe("clean command-line error: " + last[:90])
            if refusal is None:
                ctx.disagree("c04.refusal", case, "command-line error: " + last, "the model accepts sample selection and header")
            elif out_kind == "preexisting" and not open(out).read().startswith("##stale"):
                # (the writer is opened before the samples are checked; nothing C04 says anything about)
                ctx.observe("a refused run (unknown --sample) had already replaced the existing output file")
        shutil.rmtree(d, ignore_errors=True)
        return
    if refusal is not None:
        ctx.disagree("c04.refusal", case, "run succeeded", refusal)
        shutil.rmtree(d, ignore_errors=True)
        return
    if out_kind == "stdout":
        with open(out, "w") as f:
            f.write(so)
    elif out_kind == "gz":
        raw = open(out_arg, "rb").read()
        if raw[:4] != b"\x1f\x8b\x08\x04":
            fail("-o with a .gz name did not produce bgzip-compressed output", "output-not-bgzf")
        with open(out, "wb") as f:
            f.write(gzip.decompress(raw) if raw[:2] == b"\x1f\x8b" else raw)
    if sel_s is None and ped_samples is not None:
        sel_s = ped_samples
    base = os.path.join(d, "base.vcf")
    pysam_copy(vcf, base)
    _, brecs = sim.read_vcf_text(base)
    ohdr, orecs_t = sim.read_vcf_text(out)
    try:
        # the input is parsed from htslib's own copy: same records, but with the header declarations whatshap adds for
        # undeclared predefined FORMATs, so that e.g. an undeclared GQ is an Integer on both sides
        _, _, rin = R.load_vcf(base)
        _, osamples, rout = R.load_vcf(out)
    except (OSError, ValueError) as e:
        nul = bytes([0]) in open(out, "rb").read()
        fail(f"output VCF cannot be parsed by htslib ({e}); NUL byte in the file: {nul}", "output-unparsable")
        shutil.rmtree(d, ignore_errors=True)
        return
    ctx.validated(len(trace))
    targets = sel_s or samples
    processed = set(sel_c or chroms)
    exp = expected_phases(trace)
    elig = eligible_first(rin, o["only_snvs"])
    tag = o["tag"]

    # which skipped kinds stand next to "the variant" of their position, on which side, and whether that variant got phased
    first_elig = {(rin[i]["chrom"], rin[i]["pos"]): i for i in sorted(elig, reverse=True)}
    for i, r in enumerate(rin):
        j = first_elig.get((r["chrom"], r["pos"]))
        if j is None or i == j or r["chrom"] not in processed:
            continue
        n_alt = len(r["alts"])
        kind = ("noALT" if n_alt == 0 else "manyALT" if n_alt >= 16 else "multiALT" if n_alt > 1 else "symbolic" if r["alts"][0].startswith("<")
                else "snv" if len(r["ref"]) == 1 and len(r["alts"][0]) == 1 else "del" if len(r["alts"][0]) == 1 else
                "ins" if len(r["ref"]) == 1 else "mnp/complex")
        got = any((r["chrom"], r["pos"]) in exp.get(s, {}) for s in targets)
        ctx.dist(f"colocated {'in front' if i < j else 'behind'}{' --only-snvs' if o['only_snvs'] else ''} {tag}", kind + ("" if got else " (variant unphased)"))
        # coordinate boundaries: the same at the first (POS 1, 0-based 0) / last base of the contig
        at = "first base" if r["pos"] == 0 else "last base" if r["pos"] == len(sc.contigs[r["chrom"]]) - 1 else None
        if at:
            ctx.dist("contig boundary", f"{at}: {kind} {'in front' if i < j else 'behind'}" + ("" if got else " (variant unphased)"))
    for i in sorted(elig):
        r = rin[i]
        if r["chrom"] in processed and r["pos"] in (0, len(sc.contigs[r["chrom"]]) - 1):
            got = any((r["chrom"], r["pos"]) in exp.get(s, {}) for s in targets)
            ctx.dist("contig boundary", ("first" if r["pos"] == 0 else "last") + " base: the variant itself " + ("phased" if got else "unphased"))
    # ------------------------------------------------------------- text-level oracle
    if osamples != samples:
        fail(f"sample columns changed: {samples} -> {osamples}", "samples")
    if len(orecs_t) != len(brecs):
        fail(f"record count changed: {len(brecs)} -> {len(orecs_t)}", "record-count")
    n_phased = n_skipped = 0
    for i, ((bfix, bfmt, bcols), (ofix, ofmt, ocols)) in enumerate(zip(brecs, orecs_t)):
        where = f"record {i} {bfix[0]}:{bfix[1]}"
        if ofix != bfix:
            col = next(j for j in range(8) if ofix[j] != bfix[j])
            fail(f"{where}: column {['CHROM', 'POS', 'ID', 'REF', 'ALT', 'QUAL', 'FILTER', 'INFO'][col]} changed: {bfix[col]!r} -> {ofix[col]!r}", "site-column")
        bkeys = bfmt.split(":") if bfmt else []
        okeys = ofmt.split(":") if ofmt else []
        on_selected = bfix[0] in processed
        if not (okeys == bkeys or (on_selected and okeys == bkeys + [tag] and tag not in bkeys)):
            fail(f"{where}: FORMAT keys changed: {bkeys} -> {okeys}", "format-keys")
        if i not in elig:
            n_skipped += 1
        for si, s in enumerate(samples):
            if si >= len(bcols) or si >= len(ocols):
                continue
            b, oo = field_map(bfmt, bcols[si]), field_map(ofmt, ocols[si])
            is_target = on_selected and s in targets
            for k in bkeys:
                if is_target and k in ("GT", "PS", "HP"):
                    continue
                if b.get(k, ".") != oo.get(k, ".") and not (is_missing(b.get(k)) and is_missing(oo.get(k))):
                    fail(f"{where} sample {s}: value of {k} changed: {b.get(k)!r} -> {oo.get(k)!r}"
                         + ("" if is_target else " (sample/chromosome not selected)"), "format-value" if is_target else "untouched")
            if not is_target:
                for k in okeys:
                    if k not in bkeys and not is_missing(oo.get(k)):
                        fail(f"{where} sample {s} (not selected): new key {k} has value {oo.get(k)!r}", "untouched")
                continue
            # target sample on a selected chromosome
            if "GT" in bkeys:
                if not o["distrust"] and alleles_of(b["GT"]) != alleles_of(oo.get("GT", ".")):
                    fail(f"{where} sample {s}: alleles changed without --distrust-genotypes: {b['GT']} -> {oo.get('GT')}", "alleles")
            gt = oo.get("GT", ".")
            # "marked phased": a phased GT or an HP value (a PS number next to an unphased GT says nothing)
            marked = ("|" in gt) or not is_missing(oo.get("HP"))
            if marked:
                n_phased += 1
                al = re.split(r"[/|]", gt)
                want = exp.get(s, {}).get((rin[i]["chrom"], rin[i]["pos"])) if i in elig else None
                why = None
                if i not in elig:
                    why = "the record is not a supported variant (no/several ALT alleles, duplicate position, or not an SNV under --only-snvs)"
                elif "." in al or len(set(al)) < 2:
                    why = f"the genotype {gt} is not heterozygous"
                elif want is None:
                    why = "the position was not phased for this sample in this run"
                if why:
                    stale = ((("|" in b.get("GT", "")) or not is_missing(b.get("HP")))
                             and all(oo.get(k, ".") == b.get(k, ".") for k in ("GT", "PS", "HP")))
                    # a record of a supported kind that is left out only because an earlier record already stands for its
                    # position (wherever that position is: POS 1 is 0-based 0): the phase written belongs to the other record
                    dup = i not in elig and is_supported_kind(rin[i], o["only_snvs"])
                    if dup:
                        why = ("it is a further record at a position that an earlier record already stands for (duplicate position"
                               + (", at the first base of the contig: 0-based position 0" if rin[i]["pos"] == 0 else "") + ")")
                    fail(f"{where} sample {s}: call {ocols[si]!r} (FORMAT {ofmt}) carries a phase mark although {why}; input call was {bcols[si]!r}",
                         # stale = the input's own mark left standing; a mark with another value was written by this run
                         "stale-mark" if stale else "duplicate-position-mark" if dup else "phase-mark")
    # trusted mode: super-read genotype = input genotype (hypothesis of alleles_preserved)
    if not o["distrust"]:
        for t in trace:
            for s in t["family"]:
                si = samples.index(s)
                sr = t["superreads"][s]
                gts = {(r["chrom"], r["pos"]): R.gt_code(r["calls"][si].get("GT")) for i, r in enumerate(rin) if i in elig}
                for v0, v1 in zip(sr[0]["variants"], sr[1]["variants"]):
                    if v0[1] in (0, 1) and v1[1] in (0, 1) and sorted((v0[1], v1[1])) != gts.get((t["chromosome"], v0[0])):
                        fail(f"super-read genotype {v0[1]}/{v1[1]} of {s} at {t['chromosome']}:{v0[0] + 1} differs from the input genotype "
                             f"{gts.get((t['chromosome'], v0[0]))} without --distrust-genotypes", "superread-genotype")
    # ------------------------------------------------------------- header
    hout = [parse_hline(l) for l in ohdr if l.startswith("##")]
    defs_out = {(h["key"], h["id"]) for h in hout if h["id"] is not None}
    gen_out = [(h["key"], h["text"]) for h in hout if h["id"] is None]
    for h in hin:
        if h["id"] is not None and h["key"] in STRUCT and (h["key"], h["id"]) not in defs_out:
            fail(f"header: {h['key']} {h['id']} of the input is no longer defined", "header-def")
        if h["id"] is None and h["key"] != "phasing" and (h["key"], h["text"]) not in gen_out:
            fail(f"header: line ##{h['key']}={h['text']} of the input disappeared", "header-line")

    # ------------------------------------------------------------- correspondence: records
    tabs = F.tables([r["chrom"] for r in rin])
    per_table = F.assign_trace(trace, tabs, processed)
    if per_table is None:
        ctx.disagree("c04.trace-shape", case, [t["chromosome"] for t in trace], "one trace record per (processed table, family): "
                     + str([c for c, _ in tabs if c in processed]))
        shutil.rmtree(d, ignore_errors=True)
        return
    reqs, meta = [], []
    for (chrom, idxs), ts in zip(tabs, per_table):
        cfg = {"tag": tag, "onlySnvs": o["only_snvs"], "mav": False, "repaired": True, "samples": samples,
               "targets": R.targets_from_trace(ts)}
        reqs.append({"op": "c04.write", "cfg": cfg, "records": [R.model_record(rin[i], samples) for i in idxs]})
        meta.append(idxs)
    # the whole file through the model of reader, augmenter and chromosome loop, on the TEXT of htslib's copy of the input
    orders = [[x["name"] for x in R.targets_from_trace(ts)] for (c, _), ts in zip(tabs, per_table) if c in processed]
    order = orders[0] if orders else sorted(targets)
    if any(x != order for x in orders):
        ctx.disagree("c04.order", case, orders, "the same samples in the same order for every table")
    if sorted(order) != sorted(sel_ans["samples"]):
        ctx.disagree("c04.select", case, sorted(order), sorted(sel_ans["samples"]))
    freq = file_request(base, samples, hin, {"tag": tag, "onlySnvs": o["only_snvs"], "samples": samples, "order": order,
                                             "chromosomes": sel_c or []},
                        [R.targets_from_trace(ts) for ts in per_table])
    reqs.append(freq)
    # header request
    used_contigs, used_formats, used_infos = [], [], set()
    for r in rin:
        used_contigs.append(r["chrom"]); used_formats += r["format"]; used_infos |= set(r["info"])
        if any(x.startswith("<") for x in r["alts"]):
            used_infos.add("END")
    reqs.append({"op": "c04.header", "tag": tag, "commandLine": True, "header": hin, "contigs": used_contigs, "formats": used_formats,
                 "infos": sorted(used_infos)})
    answers = ctx.model.ask_many(reqs)
    fans, hans = answers[-2], answers[-1]
    if len(rout) == len(rin) and not fails:
        for idxs, ans in zip(meta, answers[:-2]):
            if "records" not in ans:
                ctx.disagree("c04.write", case, "ok", ans); continue
            for i, mrec in zip(idxs, ans["records"]):
                impl = R.model_record(rout[i], samples)
                diff = record_diff(impl, mrec)
                if diff:
                    ctx.disagree("c04.write", case, {"record": i, "site": impl["site"], "impl": diff[0]}, {"model": diff[1]})
                    break
    # file level: tables, text of every line, reader rows
    if "blocks" not in fans:
        ctx.disagree("c04.file", case, "run succeeded", {k: fans.get(k) for k in ("error", "tables")})
    elif not fails:
        mt = [(t["chrom"], t["n"]) for t in fans["tables"]]
        if mt != [(c, len(ix)) for c, ix in tabs]:
            ctx.disagree("c04.file(tables)", case, [(c, len(ix)) for c, ix in tabs], mt)
        mlines = [o_["columns"] for b in fans["blocks"] for o_ in b]
        if len(mlines) != len(orecs_t):
            ctx.disagree("c04.file(record count)", case, len(orecs_t), len(mlines))
        for i, (m, (ofix, ofmt, ocols)) in enumerate(zip(mlines, orecs_t)):
            impl = [ofmt] + ocols
            if ofmt is not None and m != impl:
                j = next((k for k in range(min(len(m), len(impl))) if m[k] != impl[k]), min(len(m), len(impl)))
                ctx.disagree("c04.file(text)", case, {"record": i, "site": "\t".join(ofix[:5]), "column": j, "impl": impl[j:j + 1]},
                             {"model": m[j:j + 1]})
                break
        if any(o_["err"] for b in fans["blocks"] for o_ in b):
            ctx.disagree("c04.file(KeyError)", case, "run succeeded", "the model reaches call['GT'] on a record without GT")
        real_rows = F.real_reader_rows(vcf, o["only_snvs"])
        model_rows = F.model_rows(fans, freq["records"])
        if real_rows != model_rows:
            ctx.disagree("c04.file(reader rows)", case, real_rows, model_rows)
        elif not isinstance(real_rows, str):
            ctx.dist("table_rows", min(sum(len(r) for _, r in real_rows), 40) // 10 * 10)
    ctx.dist("tables", len(tabs))
    for opname, ans in (("c04.header", hans), ("c04.file(header)", fans)):
        if "header" in ans and not fails:
            mdefs = {(h["key"], h["id"]) for h in ans["header"] if h["id"] is not None}
            # htslib always defines FILTER PASS; contigs it adds while parsing undeclared records are modelled by `contigs`
            # (and, with fixes/F60.patch, the FILTERs the body uses without declaring them: not part of the header model)
            declared = {h["id"] for h in hin if h["key"] == "FILTER"}
            undeclared = {("FILTER", x) for fixed, _, _ in brecs for x in fixed[6].split(";") if x not in declared}
            idefs = {x for x in defs_out if x != ("FILTER", "PASS")} - undeclared
            mdefs = {x for x in mdefs if x != ("FILTER", "PASS")}
            if idefs != mdefs:
                ctx.disagree(opname, case, sorted(map(str, idefs - mdefs)), sorted(map(str, mdefs - idefs)))
            mgen = sorted((h["key"], h["text"]) for h in ans["header"] if h["id"] is None and h["key"] != "commandline")
            igen = sorted(x for x in gen_out if x[0] != "commandline")
            if mgen != igen:
                ctx.disagree(opname + "(lines)", case, igen, mgen)
            # Number/Type of the FORMAT definitions the pipeline (re)writes
            mform = {h["id"]: (h["number"], h["type"]) for h in ans["header"] if h["key"] == "FORMAT"}
            iform = {h["id"]: (h["number"], h["type"]) for h in hout if h["key"] == "FORMAT"}
            if mform != iform:
                ctx.disagree(opname + "(FORMAT types)", case, sorted(set(iform.items()) - set(mform.items())),
                             sorted(set(mform.items()) - set(iform.items())))
        elif "header" not in ans:
            ctx.disagree(opname, case, "run succeeded", {k: v_ for k, v_ in ans.items() if k in ("error", "headerError")})
    if "header" in fans and (["commandline" in [h["key"] for h in hout]] != ["commandline" in [h["key"] for h in fans["header"]]]):
        ctx.disagree("c04.file(commandline)", case, [h["key"] for h in hout].count("commandline"), "one ##commandline line")
    if n_phased and (n_skipped or sel_s or sel_c):
        ctx.nontrivial((case["gen_seed"], json.dumps(o, sort_keys=True), json.dumps(v, sort_keys=True)))
    ctx.dist("phased_calls", min(n_phased, 30) // 5 * 5); ctx.dist("skipped_records", min(n_skipped, 12))
    ctx.sample({"case": case, "records": len(rin), "phased_calls": n_phased, "skipped_records": n_skipped, "fails": fails})
    shutil.rmtree(d, ignore_errors=True)


def record_diff(impl, model):
    if impl["format"] != model["format"]:
        return ({"format": impl["format"]}, {"format": model["format"]})
    for ci, cm in zip(impl["calls"], model["calls"]):
        fi = {k: v for k, v in ci["fields"] if v is not None}
        fm = {k: v for k, v in cm["fields"] if v is not None}
        if ci["gt"] != cm["gt"] or ci["phased"] != cm["phased"] or fi != fm:
            return ({"sample": ci["name"], "gt": ci["gt"], "phased": ci["phased"], "fields": fi},
                    {"sample": cm["name"], "gt": cm["gt"], "phased": cm["phased"], "fields": fm})
    return None


def run_stream_case(ctx, case, n):
    """the augmenter's look-ahead: arbitrary `write` call sequences on the real PhasedVcfWriter vs `streamCalls`"""
    d = os.path.join(ctx.workdir(), f"stream{n}")
    real, written = F.run_stream_real(case, d)
    shutil.rmtree(d, ignore_errors=True)
    ans = ctx.model.ask_many([{"op": "c04.stream", "chroms": case["chroms"], "calls": case["calls"]}])[0]
    ctx.evaluated()
    ctx.dist("stream_mode", case["mode"])
    for r, _ in real:
        ctx.dist("stream_result", r)
    if real != ans:
        ctx.disagree("c04.stream", case, real, ans)
        return
    expect = [c for c, (r, k) in zip(case["calls"], real) for _ in range(k)]
    if written != expect:
        ctx.disagree("c04.stream(output)", case, written, expect)
    # oracle, independent of the model: driven table by table (what run_whatshap does), the output is the input
    if case["calls"] == [c for c, _ in F.tables(case["chroms"])]:
        if written != case["chroms"] or any(r != "ok" for r, _ in real):
            ctx.fail(f"write() called once per chromosome block did not reproduce the records in order: CHROM column {case['chroms']} -> "
                     f"{written}, results {real}", case, key="stream-order")
        if len(set(case["chroms"])) < len(F.tables(case["chroms"])):
            ctx.nontrivial(("stream", tuple(case["chroms"])))


def run_reader_case(ctx, case, n):
    """which records become table rows: the real VcfReader vs `readFile`"""
    d = os.path.join(ctx.workdir(), f"reader{n}")
    os.makedirs(d, exist_ok=True)
    path = os.path.join(d, "r.vcf")
    F.write_reader_vcf(case, path)
    real = F.real_reader_rows(path, case["only_snvs"])
    _, trecs = sim.read_vcf_text(path)
    frecs = [F.text_frec(fixed, fmt, cols, case["samples"]) for fixed, fmt, cols in trecs]
    shutil.rmtree(d, ignore_errors=True)
    ans = ctx.model.ask_many([{"op": "c04.reader", "onlySnvs": case["only_snvs"], "records": frecs}])[0]
    model = F.model_rows(ans, frecs)
    ctx.evaluated()
    ctx.dist("reader_shape", case["shape"] + (" snvs" if case["only_snvs"] else ""))
    ctx.dist("reader_result", real if isinstance(real, str) else "ok")
    if real != model:
        ctx.disagree("c04.reader", case, real, model)
    elif not isinstance(real, str) and sum(len(r) for _, r in real) < len(frecs):
        ctx.nontrivial(("reader", json.dumps(case["records"], sort_keys=True), case["only_snvs"]))


def run(ctx):
    cases = [c for _, c in ctx.corpus()]
    if ctx.replay:
        cases = [json.load(open(ctx.replay))["case"]]
    n = 0
    for c in cases:
        kind = c.get("kind", "c04")
        (run_stream_case if kind == "stream" else run_reader_case if kind == "reader" else run_case)(ctx, c, n); n += 1
    if ctx.replay:
        return
    for _ in range((150 if ctx.quick else 1500) * ctx.scale):
        run_stream_case(ctx, F.gen_stream_case(ctx.rng), n); n += 1
    for _ in range((150 if ctx.quick else 1500) * ctx.scale):
        run_reader_case(ctx, F.gen_reader_case(ctx.rng), n); n += 1
    for _ in range((40 if ctx.quick else 300) * ctx.scale):
        run_case(ctx, gen_case(ctx.rng, scale=1 if ctx.quick else 2), n); n += 1
    try:
        os.rmdir(ctx.workdir())
    except OSError:
        pass

"""C04 — the phased VCF is the input VCF plus phase information and nothing else.

Every case is one real `whatshap phase` CLI run over a generated "rich" variant file (harness/gen/c04_vcf.py) with
a random --sample / --chromosome selection, either tag, optionally --only-snvs / --distrust-genotypes.

Oracle (text level, independent of whatshap and of the Lean model): the output is compared line by line with the
input *as htslib itself re-serialises it unmodified* (a pysam copy of the input — so float formatting and
padding are the same on both sides): record count and order, the 8 site columns, the FORMAT keys, every sample
value other than GT/PS/HP of target samples on selected chromosomes, allele multisets of target genotypes
(unless --distrust-genotypes), phase marks only on supported heterozygous calls that the run phased, and the
header definitions.  Correspondence: parsed output records == Lean `c04.write` (repaired writer) applied to the
parsed input records with the traced super-reads/components; output header == Lean `c04.header`.
"""
import json, os, random, re, shutil

import pysam

from harness.gen import sim
from harness.gen import c04_records as R
from harness.gen.c04_vcf import gen_case, build_inputs
from harness.props.c09 import eligible_first, expected_phases

RULE = ("one `whatshap phase` CLI run over a generated multi-sample, multi-chromosome VCF with random INFO/FORMAT fields "
        "(Integer/Float/String/Flag, Number 1/A/R/G/.), ID/QUAL/FILTER values, missing/partial genotypes, records without "
        "GT / without ALT, multi-ALT, symbolic ALT, duplicate positions, pre-existing PS/HP phase, optional missing contig "
        "lines and mis-declared predefined FORMATs; random --sample/--chromosome selection, both tags, optional --only-snvs, "
        "--distrust-genotypes. Non-trivial: at least one call was phased and the file has at least one record the writer must "
        "skip or one non-target sample/chromosome; distinct = distinct (generator seed, options)")
MANIFEST = dict(
    text="Lean 4 theorems about a record-level model of PhasedVcfWriter.write and of the header pipeline "
         "(untouched_outside_targets, only_phase_fields_change, alleles_preserved, phased_only_if_het_supported, "
         "header_superset); tied to the working tree by real CLI runs: the parsed output must equal the model applied to the "
         "parsed input with the traced super-reads/components, and an independent line-by-line oracle compares the output "
         "with htslib's own unmodified re-serialisation of the input",
    design_ref="DESIGN.md §5 C04",
    note="trusted: Lean kernel; hand-written model (differential: quick 30 CLI runs, thorough 300); htslib parsing and "
         "serialisation (the oracle's baseline is a pysam copy of the input). phased_only_if_het_supported needs the "
         "tag-independent removal of fixes/F4.patch; on the unpatched repo --tag HP leaves stale phase marks of the input "
         "(reported, key stale-mark) and can write a NUL byte as HP value (F21, key output-unparsable)",
    technique="Lean 4 proof on a record-level writer/header model + differential correspondence + text-level diff oracle on CLI runs",
)
ASSUMPTIONS = [
    "htslib/pysam parse and re-serialise a record they do not modify in the same way inside whatshap and in the harness",
    "trusted-genotype mode: the traced super-read alleles equal the input genotype (C01 admissibility) — checked on every run, a "
    "violation is reported as a C04 failure",
]
STRUCT = ("contig", "INFO", "FILTER", "FORMAT", "ALT")


def header_lines(path):
    out = []
    with open(path) as f:
        for line in f:
            if line.startswith("##"):
                out.append(line.rstrip("\n"))
            else:
                break
    return out


def parse_hline(line):
    m = re.match(r"##([^=]+)=(.*)$", line)
    key, val = m.group(1), m.group(2)
    if val.startswith("<") and val.endswith(">"):
        d = dict(re.findall(r'(\w+)=("[^"]*"|[^,>]*)', val[1:-1]))
        if "ID" in d:
            return {"key": key, "id": d["ID"], "number": d.get("Number", ""), "type": d.get("Type", ""), "text": ""}
    return {"key": key, "id": None, "number": "", "type": "", "text": val}


def pysam_copy(src, dst):
    """htslib's own re-serialisation of the unmodified input.  Contigs / predefined FORMATs that the input uses
    without declaring them are declared first (as whatshap does), otherwise htslib refuses to write the records."""
    from harness.gen.c04_vcf import FMT_DEFS, INFO_DEFS
    hdr, recs = sim.read_vcf_text(src)
    with pysam.VariantFile(src) as vf:
        header = vf.header
        have_c, have_f, have_i = set(header.contigs), set(header.formats), set(header.info)
        for fixed, fmt, _ in recs:
            if fixed[0] not in have_c:
                header.contigs.add(fixed[0]); have_c.add(fixed[0])
            for k in (fmt.split(":") if fmt else []):
                if k not in have_f and k in FMT_DEFS:
                    header.add_line(FMT_DEFS[k]); have_f.add(k)
            for kv in fixed[7].split(";"):
                k = kv.split("=")[0]
                if k != "." and k not in have_i and k in INFO_DEFS:
                    header.add_line(INFO_DEFS[k]); have_i.add(k)
        with pysam.VariantFile(dst, "w", header=header) as out:
            for rec in vf:
                out.write(rec)


def field_map(fmt, col):
    keys = fmt.split(":") if fmt else []
    vals = col.split(":")
    return {k: (vals[i] if i < len(vals) else ".") for i, k in enumerate(keys)}


def is_missing(v):
    return v is None or v == "." or v == "" or set(v) <= set(".,")


def alleles_of(gt):
    return sorted(re.split(r"[/|]", gt))


def run_case(ctx, case, n):
    o, v = case["opts"], case["vcf"]
    d = os.path.join(ctx.workdir(), f"case{n}")
    shutil.rmtree(d, ignore_errors=True)
    fa, bam, vcf, sc = build_inputs(case, d)
    samples = list(sc.samples)
    r2 = random.Random(case["gen_seed"] ^ 0x5e1)
    chroms = list(sc.contigs)
    sel_s = sorted(r2.sample(samples, r2.randrange(1, len(samples) + 1))) if (o["sample_sel"] and len(samples) > 1) else None
    sel_c = sorted(r2.sample(chroms, r2.randrange(1, len(chroms) + 1))) if (o["chrom_sel"] and len(chroms) > 1) else None
    out = os.path.join(d, "out.vcf")
    a = ["phase", "-o", out, "--reference", fa, "--tag", o["tag"]]
    a += ["--distrust-genotypes"] if o["distrust"] else []
    a += ["--only-snvs"] if o["only_snvs"] else []
    a += ["--include-homozygous"] if o.get("include_hom") else []
    a += ["--ped", os.path.join(d, "in.ped")] if o.get("ped") else []
    for s in sel_s or []:
        a += ["--sample", s]
    for c in sel_c or []:
        a += ["--chromosome", c]
    rc, so, se, trace = R.run_whatshap(ctx, a + [vcf, bam], trace=os.path.join(d, "trace.jsonl"))
    ctx.evaluated()
    ctx.dist("tag", o["tag"]); ctx.dist("pre", v["pre"]); ctx.dist("selection", ("S" if sel_s else "-") + ("C" if sel_c else "-"))
    ctx.dist("mode", ("distrust" if o["distrust"] else "trust") + ("+hom" if o.get("include_hom") else "") + ("+ped" if o.get("ped") else "")
             + ("+snvs" if o["only_snvs"] else ""))
    fails = []

    def fail(what, key):
        if key not in fails:
            ctx.fail(what, case, key=key)
        fails.append(key)

    hin = [parse_hline(l) for l in header_lines(vcf)]
    if rc != 0:
        last = (se.strip().splitlines() or ["?"])[-1][:300]
        if "Traceback" in se or rc < 0:
            # (the generator avoids the one known robustness crash: a missing PL value under --distrust-genotypes)
            fail("whatshap phase crashed instead of writing the output: " + last, "crash")
        else:
            ctx.observe("clean command-line error: " + last[:90])
        shutil.rmtree(d, ignore_errors=True)
        return
    base = os.path.join(d, "base.vcf")
    pysam_copy(vcf, base)
    _, brecs = sim.read_vcf_text(base)
    ohdr, orecs_t = sim.read_vcf_text(out)
    try:
        # the input is parsed from htslib's own copy: same records, but with the header declarations whatshap adds for
        # undeclared predefined FORMATs, so that e.g. an undeclared GQ is an Integer on both sides
        _, _, rin = R.load_vcf(base)
        _, osamples, rout = R.load_vcf(out)
    except (OSError, ValueError) as e:
        nul = bytes([0]) in open(out, "rb").read()
        fail(f"output VCF cannot be parsed by htslib ({e}); NUL byte in the file: {nul}", "output-unparsable")
        shutil.rmtree(d, ignore_errors=True)
        return
    ctx.validated(len(trace))
    targets = sel_s or samples
    processed = set(sel_c or chroms)
    exp = expected_phases(trace)
    elig = eligible_first(rin, o["only_snvs"])
    tag = o["tag"]

    # ------------------------------------------------------------- text-level oracle
    if osamples != samples:
        fail(f"sample columns changed: {samples} -> {osamples}", "samples")
    if len(orecs_t) != len(brecs):
        fail(f"record count changed: {len(brecs)} -> {len(orecs_t)}", "record-count")
    n_phased = n_skipped = 0
    for i, ((bfix, bfmt, bcols), (ofix, ofmt, ocols)) in enumerate(zip(brecs, orecs_t)):
        where = f"record {i} {bfix[0]}:{bfix[1]}"
        if ofix != bfix:
            col = next(j for j in range(8) if ofix[j] != bfix[j])
            fail(f"{where}: column {['CHROM', 'POS', 'ID', 'REF', 'ALT', 'QUAL', 'FILTER', 'INFO'][col]} changed: {bfix[col]!r} -> {ofix[col]!r}", "site-column")
        bkeys = bfmt.split(":") if bfmt else []
        okeys = ofmt.split(":") if ofmt else []
        on_selected = bfix[0] in processed
        if not (okeys == bkeys or (on_selected and okeys == bkeys + [tag] and tag not in bkeys)):
            fail(f"{where}: FORMAT keys changed: {bkeys} -> {okeys}", "format-keys")
        if i not in elig:
            n_skipped += 1
        for si, s in enumerate(samples):
            if si >= len(bcols) or si >= len(ocols):
                continue
            b, oo = field_map(bfmt, bcols[si]), field_map(ofmt, ocols[si])
            is_target = on_selected and s in targets
            for k in bkeys:
                if is_target and k in ("GT", "PS", "HP"):
                    continue
                if b.get(k, ".") != oo.get(k, ".") and not (is_missing(b.get(k)) and is_missing(oo.get(k))):
                    fail(f"{where} sample {s}: value of {k} changed: {b.get(k)!r} -> {oo.get(k)!r}"
                         + ("" if is_target else " (sample/chromosome not selected)"), "format-value" if is_target else "untouched")
            if not is_target:
                for k in okeys:
                    if k not in bkeys and not is_missing(oo.get(k)):
                        fail(f"{where} sample {s} (not selected): new key {k} has value {oo.get(k)!r}", "untouched")
                continue
            # target sample on a selected chromosome
            if "GT" in bkeys:
                if not o["distrust"] and alleles_of(b["GT"]) != alleles_of(oo.get("GT", ".")):
                    fail(f"{where} sample {s}: alleles changed without --distrust-genotypes: {b['GT']} -> {oo.get('GT')}", "alleles")
            gt = oo.get("GT", ".")
            # "marked phased": a phased GT or an HP value (a PS number next to an unphased GT says nothing)
            marked = ("|" in gt) or not is_missing(oo.get("HP"))
            if marked:
                n_phased += 1
                al = re.split(r"[/|]", gt)
                want = exp.get(s, {}).get((rin[i]["chrom"], rin[i]["pos"])) if i in elig else None
                why = None
                if i not in elig:
                    why = "the record is not a supported variant (no/several ALT alleles, duplicate position, or not an SNV under --only-snvs)"
                elif "." in al or len(set(al)) < 2:
                    why = f"the genotype {gt} is not heterozygous"
                elif want is None:
                    why = "the position was not phased for this sample in this run"
                if why:
                    fail(f"{where} sample {s}: call {ocols[si]!r} (FORMAT {ofmt}) carries a phase mark although {why}; input call was {bcols[si]!r}",
                         "stale-mark" if (("|" in b.get("GT", "")) or not is_missing(b.get("HP"))) else "phase-mark")
    # trusted mode: super-read genotype = input genotype (hypothesis of alleles_preserved)
    if not o["distrust"]:
        for t in trace:
            for s in t["family"]:
                si = samples.index(s)
                sr = t["superreads"][s]
                gts = {(r["chrom"], r["pos"]): R.gt_code(r["calls"][si].get("GT")) for i, r in enumerate(rin) if i in elig}
                for v0, v1 in zip(sr[0]["variants"], sr[1]["variants"]):
                    if v0[1] in (0, 1) and v1[1] in (0, 1) and sorted((v0[1], v1[1])) != gts.get((t["chromosome"], v0[0])):
                        fail(f"super-read genotype {v0[1]}/{v1[1]} of {s} at {t['chromosome']}:{v0[0] + 1} differs from the input genotype "
                             f"{gts.get((t['chromosome'], v0[0]))} without --distrust-genotypes", "superread-genotype")
    # ------------------------------------------------------------- header
    hout = [parse_hline(l) for l in ohdr if l.startswith("##")]
    defs_out = {(h["key"], h["id"]) for h in hout if h["id"] is not None}
    gen_out = [(h["key"], h["text"]) for h in hout if h["id"] is None]
    for h in hin:
        if h["id"] is not None and h["key"] in STRUCT and (h["key"], h["id"]) not in defs_out:
            fail(f"header: {h['key']} {h['id']} of the input is no longer defined", "header-def")
        if h["id"] is None and h["key"] != "phasing" and (h["key"], h["text"]) not in gen_out:
            fail(f"header: line ##{h['key']}={h['text']} of the input disappeared", "header-line")

    # ------------------------------------------------------------- correspondence: records
    by_chrom = {}
    for t in trace:
        by_chrom.setdefault(t["chromosome"], []).append(t)
    reqs, meta = [], []
    for chrom, idxs in R.chrom_blocks(rin):
        ts = by_chrom.get(chrom, []) if chrom in processed else []
        cfg = {"tag": tag, "onlySnvs": o["only_snvs"], "mav": False, "repaired": True, "samples": samples,
               "targets": R.targets_from_trace(ts)}
        reqs.append({"op": "c04.write", "cfg": cfg, "records": [R.model_record(rin[i], samples) for i in idxs]})
        meta.append(idxs)
    # header request
    used_contigs, used_formats, used_infos = [], [], set()
    for r in rin:
        used_contigs.append(r["chrom"]); used_formats += r["format"]; used_infos |= set(r["info"])
        if any(x.startswith("<") for x in r["alts"]):
            used_infos.add("END")
    reqs.append({"op": "c04.header", "tag": tag, "commandLine": True, "header": hin, "contigs": used_contigs, "formats": used_formats,
                 "infos": sorted(used_infos)})
    answers = ctx.model.ask_many(reqs)
    if len(rout) == len(rin) and not fails:
        for idxs, ans in zip(meta, answers[:-1]):
            if "records" not in ans:
                ctx.disagree("c04.write", case, "ok", ans); continue
            for i, mrec in zip(idxs, ans["records"]):
                impl = R.model_record(rout[i], samples)
                diff = record_diff(impl, mrec)
                if diff:
                    ctx.disagree("c04.write", case, {"record": i, "site": impl["site"], "impl": diff[0]}, {"model": diff[1]})
                    break
    hans = answers[-1]
    if "header" in hans and not fails:
        mdefs = {(h["key"], h["id"]) for h in hans["header"] if h["id"] is not None}
        # htslib always defines FILTER PASS; contigs it adds while parsing undeclared records are modelled by `contigs`
        idefs = {x for x in defs_out if x != ("FILTER", "PASS")}
        mdefs = {x for x in mdefs if x != ("FILTER", "PASS")}
        if idefs != mdefs:
            ctx.disagree("c04.header", case, sorted(map(str, idefs - mdefs)), sorted(map(str, mdefs - idefs)))
        mgen = sorted((h["key"], h["text"]) for h in hans["header"] if h["id"] is None and h["key"] != "commandline")
        igen = sorted(x for x in gen_out if x[0] != "commandline")
        if mgen != igen:
            ctx.disagree("c04.header(lines)", case, igen, mgen)
    elif "error" in hans:
        ctx.disagree("c04.header", case, "run succeeded", hans)
    if n_phased and (n_skipped or sel_s or sel_c):
        ctx.nontrivial((case["gen_seed"], json.dumps(o, sort_keys=True), json.dumps(v, sort_keys=True)))
    ctx.dist("phased_calls", min(n_phased, 30) // 5 * 5); ctx.dist("skipped_records", min(n_skipped, 12))
    ctx.sample({"case": case, "records": len(rin), "phased_calls": n_phased, "skipped_records": n_skipped, "fails": fails})
    shutil.rmtree(d, ignore_errors=True)


def record_diff(impl, model):
    if impl["format"] != model["format"]:
        return ({"format": impl["format"]}, {"format": model["format"]})
    for ci, cm in zip(impl["calls"], model["calls"]):
        fi = {k: v for k, v in ci["fields"] if v is not None}
        fm = {k: v for k, v in cm["fields"] if v is not None}
        if ci["gt"] != cm["gt"] or ci["phased"] != cm["phased"] or fi != fm:
            return ({"sample": ci["name"], "gt": ci["gt"], "phased": ci["phased"], "fields": fi},
                    {"sample": cm["name"], "gt": cm["gt"], "phased": cm["phased"], "fields": fm})
    return None


def run(ctx):
    cases = [c for _, c in ctx.corpus()]
    if ctx.replay:
        cases = [json.load(open(ctx.replay))["case"]]
    n = 0
    for c in cases:
        run_case(ctx, c, n); n += 1
    if ctx.replay:
        return
    for _ in range((30 if ctx.quick else 300) * ctx.scale):
        run_case(ctx, gen_case(ctx.rng, scale=1 if ctx.quick else 2), n); n += 1
    try:
        os.rmdir(ctx.workdir())
    except OSError:
        pass

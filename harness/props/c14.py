"""C14 — split distributes every read to exactly the outputs its haplotype entry selects.

Per generated case (reads file FASTQ / FASTQ.gz / BAM x haplotag list x ploidy 2-4 x option combination) the REAL CLI
`whatshap split` is run and every requested output and the histogram are read back independently.
  * oracle (Python, from the property text, independent of Lean): each requested output holds exactly — unmodified, in input
    order — the input reads whose list entry selects it (tagged -> its haplotype; untagged/unlisted -> untagged output, every
    output with --add-untagged, nowhere when unknown and --discard-unknown-reads; --only-largest-block: reads outside the
    largest block of their chromosome count as untagged, ties admit either block); with all outputs requested and no
    --add-untagged the outputs partition the (known) input; the histogram has one row per length and column k counts, per
    length, the reads written to output k;
  * correspondence: written read indices per requested output and the histogram rows equal the Lean model of the repaired
    code (`splitFix`, `histRowsFix`); where they do not, the faithful model of HEAD (`splitCur`, `histRowsCur`) decides
    whether this is the known defect (F7a early exit, F7c duplicated histogram rows) or something else; rejected inputs
    (model: ValueError / KeyError / AssertionError) must be rejected by the CLI with the same exception class.
  * text level (`c14.run`: `runSplit` = `validate`/output options -> `parseText` on the bytes of the list file -> table ->
    pass -> `histText`): the list file is written verbatim (line ends, white space, blank lines, extra/short lines, header
    variants, gz), the output options may be anomalous, outputs may pre-exist; compared: acceptance / exception class / exit
    status 2, ploidy and requested outputs, written indices, the histogram file byte for byte, column sums = records per
    output, the option table read off the list lines (`prescribedByList`) = the oracle's;
  * in-process: `check_haplotag_list_information` + `process_haplotag_list_file` on many more list texts (`c14.list`: parser
    choice, the dict, `known_reads`, exception class), `_bam_iterator` / `_fastq_string_iterator` lengths (`c14.bamlen`),
    `initialize_io_files` format decision on files of every kind `detect_file_format` distinguishes (`c14.detect`).
"""
import collections, concurrent.futures, contextlib, gzip, itertools, json, os, re, shutil

from harness.gen import sim
from harness.gen import c14_split as G

RULE = ("case = reads file (FASTQ, gzipped FASTQ or BAM; 0-30*scale reads, duplicate names, BAM reads without sequence / "
        "mapped / unmapped) x haplotag list (2 or 4 columns, with or without header, none entries, absent names, rarely "
        "duplicate names, unknown haplotype names or empty; in half of the cases read names (in the reads and in the list, "
        "also names absent from the reads) are drawn from everything SAM QNAME / a FASTQ title allow: leading / trailing "
        "punctuation (# @ : / | = + …), names that look like a list header, a SAM header, `none`/`Hk`, numbers, up to 254 "
        "characters, with a #-name moved to the first / second / last list line; 35% written with one of 21 layout perturbations: line ends, white space, "
        "blank / short / wide lines, header variants; 25% gzipped) x ploidy 2-4 (rarely 1) x (--output-h1/-h2 | -o... | rarely "
        "anomalous output options) x --output-untagged x pre-existing output files x "
        "--add-untagged x --discard-unknown-reads x --only-largest-block; non-trivial iff the CLI accepted the input and at "
        "least two reads were written to requested outputs; distinct = distinct (reads, list, options)")
MANIFEST = dict(
    text="Lean 4 theorems about a model of split.py (list processing incl. largest-block selection, the single pass as the "
         "sequence of write calls and histogram increments, the histogram writer; HEAD and repaired variants): every requested "
         "output receives exactly, once and in input order, the reads the option table prescribes; all outputs requested => "
         "partition; histogram column = reads written (without --add-untagged) with one row per length. Tied to the working "
         "tree by running the real CLI on generated FASTQ/BAM x list x option cases, reading all outputs back independently, "
         "comparing with the model and evaluating the three predicates with a Python oracle. Deepened: the model starts at the "
         "text of the list file and the output options (strip/split/universal newlines, header test, validate), covers read "
         "length extraction, input format decision and the histogram file; end-to-end theorem from list text to outputs, "
         "largest-block selection and histogram column sums proved; list functions, iterators and format decision also compared "
         "in-process",
    design_ref="DESIGN.md §5 C14",
    note="trusted: Lean kernel, axioms ⊆ {propext, Classical.choice, Quot.sound}; hand-written model; pysam/htslib/xopen I/O "
         "and file-format detection are outside the model; a read is identified by its input index, 'unmodified' is judged on "
         "the record text (FASTQ) / SAM text (BAM) by the harness; malformed list lines are outside the quantifier",
    technique="Lean 4 model of the write-call sequence + induction over the read list + CLI differential run with oracle",
)
ASSUMPTIONS = [
    "lists are well-formed (every line has the 2 resp. 4 columns of the first line); FASTQ records are in pysam's canonical "
    "spelling ('+' line empty, non-empty sequence) so that 'unmodified' can be judged on text",
    "with duplicate read names in the *list* the entry of a read is its last tagged line (what the dict does); the property "
    "text does not define it, so such cases are checked against the model only",
]
WORKERS = 6


def err_class(stderr):
    for line in stderr.strip().splitlines()[::-1]:
        m = re.match(r"^(?:\w+\.)*(\w+(?:Error|Exception))\b", line.strip())
        if m:
            return m.group(1)
    return "unknown"


def model_request(case, lens):
    rows = ([case["header"].split("\t")] if case["header"] is not None else []) + case["rows"]
    return {"op": "c14.split", "ploidy": case["ploidy"], "requested": case["requested"], "add": case["add"],
            "discard": case["discard"], "largest": case["largest"], "rows": rows,
            "reads": [[r["name"], L] for r, L in zip(case["reads"], lens)]}


def run_request(case, lens):
    return {"op": "c14.run", "args": G.out_args(case), "add": case["add"], "discard": case["discard"],
            "largest": case["largest"], "text": G.list_text(case),
            "reads": [[r["name"], L] for r, L in zip(case["reads"], lens)]}


def data_rows(case):
    """the data rows of the list as the oracle reads them (lines split at \\n, \\r\\n, \\r; a first line starting with
    '#' is the header; columns = tab-separated fields of the line without surrounding white space)"""
    lines = re.split(r"\r\n|\r|\n", G.list_text(case))
    if lines and lines[-1] == "":
        lines.pop()
    if lines and lines[0].startswith("#"):
        lines = lines[1:]
    return [l.strip().split("\t") for l in lines]


def hash_name_lines(case, names):
    """where in the list file (1-based physical line classes) a read of the input whose name starts with '#' is named"""
    lines = re.split(r"\r\n|\r|\n", G.list_text(case))
    if lines and lines[-1] == "":
        lines.pop()
    have = set(names)
    out = set()
    for i, l in enumerate(lines):
        c = l.strip().split("\t")
        if c[0].startswith("#") and c[0] in have and len(c) > 1:
            pos = "line1" if i == 0 else "line2" if i == 1 else "last" if i == len(lines) - 1 else "middle"
            out.add(pos + ("-none" if c[1] == "none" else "-tagged"))
    return out


def admissible_tables(case):
    """independent reading of the list per the property text: yields dict name -> haplotype (tagged only) for every
    admissible choice of largest blocks (several only on ties)"""
    entries = data_rows(case)
    hap = {}
    for row in entries:
        if row[1] != "none":
            hap[row[0]] = int(row[1][1:])            # last tagged line wins (only relevant with duplicate names)
    if not case["largest"]:
        yield hap
        return
    sizes = collections.defaultdict(collections.Counter)
    members = collections.defaultdict(set)
    for row in entries:
        if row[1] != "none":
            sizes[row[3]][row[2]] += 1
            members[(row[3], row[2])].add(row[0])
    choices = []
    for chrom, cnt in sizes.items():
        best = max(cnt.values())
        choices.append([(chrom, ps) for ps, c in cnt.items() if c == best])
    for pick in itertools.product(*choices):
        sel = set().union(*[members[b] for b in pick]) if pick else set()
        yield {n: h for n, h in hap.items() if n in sel}


def prescribed(case, table, listed, name):
    req = case["requested"]
    if case["discard"] and name not in listed:
        return set()
    h = table.get(name, 0)
    if h:
        target = {h}
    elif case["add"]:
        target = set(range(case["ploidy"] + 1))
    else:
        target = {0}
    return {k for k in target if k < len(req) and req[k]}


def parse_hist(path):
    if not os.path.exists(path):
        return None, None
    lines = open(path, encoding="utf-8", errors="replace").read().split("\n")
    header = lines[0].split("\t")
    try:
        rows = [[int(x) for x in l.split("\t")] for l in lines[1:] if l]
    except ValueError:                   # e.g. a pre-existing file the run did not replace
        return ["<not a histogram>"], []
    return header, rows


def run(ctx):
    wd = ctx.workdir()
    try:
        _run(ctx, wd)
    finally:
        shutil.rmtree(wd, ignore_errors=True)


def _run(ctx, wd):
    rng = ctx.rng
    if ctx.replay:
        cases = [json.load(open(ctx.replay))["case"]]
    else:
        cases = [c for _, c in ctx.corpus()]
        n = (80 if ctx.quick else 1008) * ctx.scale
        for i in range(n):
            cases.append(G.gen_case(rng, scale=1 if ctx.quick else rng.choice([1, 1, 3]), combo=i % 16))

    def execute(idx_case):
        idx, case = idx_case
        d = os.path.join(wd, f"c{idx}")
        os.makedirs(d, exist_ok=True)
        rp, lp = G.write_inputs(case, d)
        inp = G.read_records(rp, "bam" if case["fmt"] == "bam" else "fastq")
        args, paths, hist = G.cli_args(case, d, rp, lp)
        rc, out, err, _ = sim.whatshap(args, ctx.overlay)
        if rc != 0:                      # nothing to read back (pre-existing files may still be there)
            paths, hist = {}, os.path.join(d, "no-such-file")
        res = {"rc": rc, "err": err, "input": inp,
               "outputs": {k: G.read_records(p, "bam" if case["fmt"] == "bam" else "fastq") for k, p in paths.items()},
               "hist": parse_hist(hist), "hist_text": open(hist, encoding="utf-8", errors="replace").read() if os.path.exists(hist) else None,
               "iter_lens": iterator_lengths(rp, case["fmt"])}
        shutil.rmtree(d, ignore_errors=True)
        return res

    with concurrent.futures.ThreadPoolExecutor(WORKERS) as pool:
        results = list(pool.map(execute, enumerate(cases)))

    def ask(reqs):
        out = []
        for i in range(0, len(reqs), 20):
            out += ctx.model.ask_many(reqs[i:i + 20])
        return out
    runs = ask([run_request(c, [L for _, L in r["input"]]) for c, r in zip(cases, results)])
    plain = [i for i, c in enumerate(cases) if c.get("text") is None and not c.get("args")]
    olds = dict(zip(plain, ask([model_request(cases[i], [L for _, L in results[i]["input"]]) for i in plain])))
    # read lengths: `_bam_iterator` / `_fastq_string_iterator` (in-process) = model = the harness' own measure
    bam = [i for i, c in enumerate(cases) if c["fmt"] == "bam"]
    blens = dict(zip(bam, ask([{"op": "c14.bamlen", "recs": [[len(r["seq"]) if r["seq"] else 0,
                                                                 (r.get("cigar") or [[0, r["cigar_len"]]]) if r["mapped"] else []]
                                                                for r in cases[i]["reads"]]} for i in bam])))

    for idx, (case, res, run) in enumerate(zip(cases, results, runs)):
        ctx.evaluated()
        n0 = len(ctx.fails)
        mine = [L for _, L in res["input"]]
        if res["iter_lens"] != mine:
            ctx.fail(f"read lengths seen by split's iterator {res['iter_lens'][:8]} differ from the records' lengths {mine[:8]}",
                     case, key="iterator-length")
        if idx in blens and blens[idx] != res["iter_lens"]:
            ctx.disagree("c14.bamlen", case, res["iter_lens"], blens[idx])
        judge(ctx, case, res, merge_models(ctx, case, run, olds.get(idx)))
        for _, _, key in ctx.fails[n0:]:
            ctx.dist("finding", key)
    if not ctx.replay:
        list_level(ctx, cases, wd)
        detect_level(ctx, wd)


def iterator_lengths(rp, fmt):
    """lengths as `run_split`'s input iterators report them (real code, in-process)"""
    import pysam
    import whatshap.cli.split as S
    if fmt == "bam":
        with pysam.AlignmentFile(rp, "rb", check_sq=False) as f:
            return [L for _, L, _ in S._bam_iterator(f)]
    with pysam.FastxFile(rp) as f:
        return [L for _, L, _ in S._fastq_string_iterator(f)]


def merge_models(ctx, case, run, old):
    """`fix` = the text-level model (`runSplit`); `cur` = the faithful model of the pre-fix code (only for lists given as rows).
    For such lists both levels must agree (what `list_text_roundtrip` proves)."""
    if "error" in run:
        return run
    if "argerr" in run:
        return {"fix": run, "cur": {}, "run": run}
    fix = {"err": run["err"]} if "err" in run else {"written": run["written"], "hist": run["hist"]}
    m = {"fix": fix, "cur": {}, "run": run, "prescribed": None}
    if old is not None and "error" not in old:
        if old["fix"] != fix:
            ctx.disagree("c14.text-vs-rows", case, fix, old["fix"])
        m["cur"] = old["cur"]; m["prescribed"] = old.get("prescribed")
    return m


def real_list(path, ploidy, discard, largest):
    """the real list functions in-process, with the two checks `run_split` makes around them"""
    import whatshap.cli.split as S
    try:
        with contextlib.ExitStack() as st:
            hl, has_chrom, parser = S.check_haplotag_list_information(path, st)
            if largest and not has_chrom:
                raise ValueError("no chromosome information")
            table, known = S.process_haplotag_list_file(hl, parser, largest, discard, ploidy)
            if discard:
                assert len(known) > 0, "No known reads"
            return {"four": parser is S._four_column_parser, "hap": sorted([k, v] for k, v in dict(table).items() if v),
                    "known": sorted(known)}
    except (ValueError, IndexError, KeyError, AssertionError) as e:
        return {"err": type(e).__name__}


def list_level(ctx, cases, wd):
    """many more list texts through the real parser/table functions in-process"""
    import logging
    logging.disable(logging.CRITICAL)            # the real functions log every rejected haplotype name
    try:
        _list_level(ctx, cases, wd)
    finally:
        logging.disable(logging.NOTSET)


def _list_level(ctx, cases, wd):
    rng = ctx.rng
    jobs = []
    n = (400 if ctx.quick else 4000) * ctx.scale
    for i in range(n):
        c = G.gen_case(rng, combo=rng.randrange(16))
        if rng.random() < 0.7:
            c["text"], c["quirk"] = G.perturb_text(rng, c)
        jobs.append(c)
    jobs += [c for c in cases if not c.get("args")]
    reqs, reals = [], []
    d = os.path.join(wd, "lists"); os.makedirs(d, exist_ok=True)
    for i, c in enumerate(jobs):
        lp = os.path.join(d, f"l{i}.tsv" + (".gz" if c.get("list_gz") else ""))
        with (gzip.open(lp, "wb") if c.get("list_gz") else open(lp, "wb")) as f:
            f.write(G.list_text(c).encode("utf-8"))
        reals.append(real_list(lp, c["ploidy"], c["discard"], c["largest"]))
        os.remove(lp)
        reqs.append({"op": "c14.list", "ploidy": c["ploidy"], "discard": c["discard"], "largest": c["largest"],
                     "text": G.list_text(c)})
    answers = []
    for i in range(0, len(reqs), 50):
        answers += ctx.model.ask_many(reqs[i:i + 50])
    for c, real, model in zip(jobs, reals, answers):
        ctx.dist("list_quirk", c.get("quirk", "-"))
        if "err" in model:
            model = {"err": model["err"].split(":")[0]}
        ctx.dist("list_outcome", real.get("err", "ok"))
        if real != model:
            ctx.disagree("c14.list", {"text": G.list_text(c), "ploidy": c["ploidy"], "discard": c["discard"],
                                      "largest": c["largest"], "gz": bool(c.get("list_gz"))}, real, model)


DETECT = [  # (magic class, content factory, file names)
    ("other", lambda: b"@r\nACGT\n+\nIIII\n", ["r.fastq", "r.fq", "r.txt", "r.fastq.gzip", "r.fq.gzip", "r.fastq.gzipfq", "r.bam"]),
    ("other", lambda: gzip.compress(b"@r\nACGT\n+\nIIII\n"), ["r.fastq.gz", "r.fq.gz", "r.fastq", "r.gz", "x.fq.gzfq.gzip"]),
    ("other", lambda: b"@HD\tVN:1.6\nr\t4\t*\t0\t0\t*\t*\t0\t0\tACGT\tIIII\n", ["r.sam", "r.fastq"]),
    ("other", lambda: b"", ["empty.fastq", "empty.bam"]),
    ("cram", lambda: b"CRAM\x03\x00" + b"\0" * 40, ["r.cram", "r.fastq"]),
    ("vcf", lambda: b"##fileformat=VCFv4.2\n#CHROM\tPOS\n", ["r.vcf", "r.fastq"]),
    ("gzvcf", lambda: gzip.compress(b"##fileformat=VCFv4.2\n#CHROM\tPOS\n"), ["r.vcf.gz", "r.fastq.gz"]),
    ("bam", None, ["r.bam", "r.fastq", "r.fastq.gz", "r"]),
]


def detect_level(ctx, wd):
    """`initialize_io_files`: which reader a reads file gets, by content and by name"""
    import pysam
    import whatshap.cli.split as S
    d = os.path.join(wd, "detect"); os.makedirs(d, exist_ok=True)
    reqs, reals, what = [], [], []
    for magic, content, names in DETECT:
        for nm in names:
            path = os.path.join(d, nm)
            if content is None:
                with pysam.AlignmentFile(path, "wb", header={"HD": {"VN": "1.6"}, "SQ": [{"SN": "chr1", "LN": 100}]}):
                    pass
            else:
                open(path, "wb").write(content())
            try:
                with contextlib.ExitStack() as st:
                    _, it, _ = S.initialize_io_files(path, [None, None, None], st)
                    real = {"_bam_iterator": "BAM", "_fastq_string_iterator": "FASTQ"}[it.__name__]
            except ValueError:
                real = "ValueError"
            os.remove(path)
            reals.append(real); what.append((magic, nm))
            reqs.append({"op": "c14.detect", "magic": magic, "path": path})
    for (magic, nm), real, model in zip(what, reals, ctx.model.ask_many(reqs)):
        ctx.dist("detect", f"{magic}:{nm.split('.', 1)[-1]}->{real}")
        intended = magic == "other" and nm.endswith(("fq", "fq.gz", "fastq.gzip", "fq.gzip"))
        if real != model and intended and real == "FASTQ":
            ctx.observe(f"{nm}: accepted as FASTQ (the extension list of initialize_io_files lacks two commas in the modelled "
                        "code; accepting these names is the evident intention)")
        elif real != model:
            ctx.disagree("c14.detect", {"magic": magic, "name": nm}, real, model)


def judge(ctx, case, res, model):
    inp = res["input"]
    n = len(inp)
    opts = "+".join(k for k in ("add", "discard", "largest") if case[k]) or "plain"
    ctx.dist("format", case["fmt"]); ctx.dist("options", opts); ctx.dist("ploidy", case["ploidy"])
    ctx.dist("reads", min(n, 40) // 5 * 5)
    names = [r["name"] for r in case["reads"]]
    dup_reads = len(set(names)) < len(names)
    ctx.dist("quirk", case.get("quirk", "-")); ctx.dist("list_gz", bool(case.get("list_gz")))
    ctx.dist("preexisting_outputs", bool(case.get("pre")))
    ctx.dist("names", case.get("names", "plain"))
    for nm in set(names):
        ctx.dist("name_first_char", nm[0] if not nm[0].isalnum() else "alnum")
        ctx.dist("name_last_char", nm[-1] if not nm[-1].isalnum() else "alnum")
        ctx.dist("name_looks_like", "header" if nm.startswith("#readname") else "none/Hk" if re.fullmatch(r"(?i)none|H\d*", nm)
                 else "sam-header" if re.fullmatch(r"@(HD|SQ)", nm) else "long" if len(nm) > 100 else "-")
    for pos in hash_name_lines(case, names) or {"-"}:
        ctx.dist("hash_name_listed_at", pos)
        if pos.startswith("line1") and case.get("header") is None and case.get("quirk") not in ("leading-space", "blank-line"):
            ctx.observe("a headerless list whose first line names a read starting with '#': the line is taken for the header "
                        "(documented rule for line 1), the read counts as unlisted")
    if case["fmt"] == "bam":
        ctx.dist("bam_flags", sum(1 for r in case["reads"] if r.get("flag")) > 0)
        ctx.dist("bam_cigar_ops", "".join(sorted({"MIDNSHP=X"[op] for r in case["reads"] for op, _ in (r.get("cigar") or [])})) or "-")
    if "error" in model:
        ctx.disagree("c14.split", case, "input not accepted by the driver", model)
        return
    fix, cur = model["fix"], model["cur"]
    # ---- anomalous output options: `validate` (exit status 2) / `len(None)`
    if "argerr" in fix:
        ctx.dist("outcome", "args-" + fix["argerr"])
        if fix["argerr"] == "usage":
            if res["rc"] != 2 or "error:" not in res["err"]:
                ctx.disagree("c14.run.args", case, {"rc": res["rc"], "stderr": res["err"][-200:]}, fix)
        elif res["rc"] == 0 or err_class(res["err"]) != fix["argerr"]:
            ctx.disagree("c14.run.args", case, {"rc": res["rc"], "raised": err_class(res["err"])}, fix)
        return
    if case.get("args"):
        ctx.disagree("c14.run.args", case, {"rc": res["rc"]}, "model accepts the output options")
        return
    rows_data = data_rows(case) if "err" not in fix else []
    dup_list = len({r[0] for r in rows_data}) < len(rows_data)
    ctx.dist("dup_read_names", dup_reads); ctx.dist("list_cols", len(rows_data[0]) if rows_data else 0)
    run = model.get("run") or {}
    if "ploidy" in run and (run["ploidy"] != case["ploidy"] or run["requested"] != case["requested"][:case["ploidy"] + 1]):
        ctx.disagree("c14.run.outputs", case, {"ploidy": case["ploidy"], "requested": case["requested"]},
                     {"ploidy": run["ploidy"], "requested": run["requested"]})
    # ---- rejected inputs
    if "err" in fix:
        want = fix["err"].split(":")[0]
        ctx.dist("outcome", "rejected-" + want)
        if res["rc"] == 0:
            ctx.disagree("c14.split", case, "CLI accepted the input", fix)
        elif err_class(res["err"]) != want:
            ctx.disagree("c14.split", case, {"raised": err_class(res["err"])}, fix)
        return
    if res["rc"] != 0:
        ec = err_class(res["err"])
        ctx.dist("outcome", "crash-" + ec)
        ctx.fail(f"`whatshap split` fails with {ec} on an input the model accepts: {res['err'].strip().splitlines()[-1][:160]}",
                 case, key=f"split-raises-{ec}")
        ctx.disagree("c14.split", case, {"raised": ec}, "ok")
        return
    ctx.dist("outcome", "ok")
    outs = res["outputs"]
    req_sinks = sorted(outs)
    if any(outs[k] is None for k in req_sinks):
        ctx.fail("a requested output file was not created", case, key="output-missing")
        return
    n_written = sum(len(outs[k]) for k in req_sinks)
    if n_written >= 2:
        ctx.nontrivial(json.dumps(case, sort_keys=True))
    ctx.dist("written", min(n_written, 40) // 5 * 5)

    # ---- correspondence: written indices per requested sink
    def expected(written):
        return {k: [inp[i][0] for i in written[k]] for k in req_sinks}
    actual = {k: [t for t, _ in outs[k]] for k in req_sinks}
    is_fix = actual == expected(fix["written"])
    is_cur = actual == expected(cur["written"]) if "written" in cur else False
    early_exit = (not is_fix) and is_cur
    if not is_fix and not is_cur:
        ctx.disagree("c14.split.written", case, {k: [t.split("\n")[0][:30] for t in v] for k, v in actual.items()},
                     {"fix": fix["written"], "cur": cur.get("written")})

    # ---- oracle 1: routed_exactly (independent reading of the list)
    listed = {r[0] for r in rows_data}
    if dup_list:
        ctx.dist("oracle", "skipped-duplicate-list-names")
    else:
        ok_any, first_diff = False, None
        tables = list(admissible_tables(case))
        ctx.dist("largest_block_ties", len(tables) > 1)
        for table in tables:
            exp = {k: [inp[i][0] for i in range(n) if k in prescribed(case, table, listed, names[i])] for k in req_sinks}
            if exp == actual:
                ok_any = True
                break
            if first_diff is None:
                k = next(k for k in req_sinks if exp[k] != actual[k])
                first_diff = (k, len(exp[k]), len(actual[k]))
        if not ok_any:
            k, ne, na = first_diff
            what = (f"output {'untagged' if k == 0 else 'H%d' % k} holds {na} reads, the option table prescribes {ne} "
                    f"(options {opts}, {n} input reads, duplicate read names: {dup_reads})")
            if early_exit and case["discard"]:
                ctx.fail("F7a: --discard-unknown-reads stops after len(known_reads) processed reads: " + what, case,
                         key="F7a-discard-unknown-early-exit")
            else:
                ctx.fail("routed_exactly: " + what, case, key="routed-wrong")
        # ---- oracle 2: partition when all outputs are requested
        if all(case["requested"][:case["ploidy"] + 1]) and len(case["requested"]) >= case["ploidy"] + 1 and not case["add"]:
            keep = [inp[i][0] for i in range(n) if not (case["discard"] and names[i] not in listed)]
            got = collections.Counter(t for k in req_sinks for t in actual[k])
            if got != collections.Counter(keep) and not (early_exit and case["discard"]):
                ctx.fail(f"partition: {sum(got.values())} reads in all outputs together, {len(keep)} (known) input reads", case,
                         key="not-a-partition")
    # ---- oracle 3: histogram
    header, rows = res["hist"]
    if header is None:
        ctx.fail("histogram file was not written", case, key="histogram-missing")
        return
    exp_header = ["#length", "count-untagged"] + [f"count-h{i}" for i in range(1, case["ploidy"] + 1)]
    if header != exp_header:
        ctx.fail(f"histogram header {header} != {exp_header}", case, key="histogram-header")
        return
    lens_seen = [r[0] for r in rows]
    dup_rows = len(set(lens_seen)) < len(lens_seen)
    if dup_rows:
        ctx.fail("F7c: the histogram lists a read length in several rows (once per column that counts it), so column sums "
                 f"exceed the reads written: lengths {lens_seen}", case, key="F7c-histogram-duplicate-length-rows")
    table = {}
    for r in rows:
        table.setdefault(r[0], r[1:])
    for k in req_sinks:
        true = collections.Counter(L for _, L in outs[k])
        for L in sorted(set(true) | set(table)):
            c = table.get(L, [0] * (case["ploidy"] + 1))[k]
            if c != true.get(L, 0):
                col = "count-untagged" if k == 0 else f"count-h{k}"
                explained = rows == fix["hist"] or rows == cur.get("hist")   # per-haplotype counts exactly as modelled
                if case["add"] and k >= 1 and explained:
                    ctx.fail(f"F7b: with --add-untagged {col}[{L}] = {c} but output H{k} holds {true.get(L, 0)} reads of that "
                             "length (untagged reads are written to every H output but counted only as untagged)", case,
                             key="F7b-add-untagged-histogram-vs-written")
                else:
                    ctx.fail(f"histogram: {col}[{L}] = {c} but the output holds {true.get(L, 0)} reads of that length", case,
                             key="histogram-wrong")
                break
    # correspondence on the histogram rows (all columns, also those of outputs that were not requested)
    if rows != fix["hist"]:
        if "hist" in cur and rows == cur["hist"] and (dup_rows or early_exit):
            pass                                    # HEAD's known behaviour, reported above as F7c / F7a
        else:
            ctx.disagree("c14.split.hist", case, rows, {"fix": fix["hist"], "cur": cur.get("hist")})
    # the histogram file byte for byte, and its column sums against the records in the outputs
    if "histText" in run:
        if res["hist_text"] != run["histText"]:
            ctx.disagree("c14.run.histText", case, res["hist_text"], run["histText"])
        for k in req_sinks:
            if (not case["add"] or k == 0) and k < len(run["colSums"]) and run["colSums"][k] != len(outs[k]) and rows == fix["hist"]:
                ctx.fail(f"histogram: column {k} sums to {run['colSums'][k]} but the output holds {len(outs[k])} reads", case,
                         key="histogram-column-sum")
    # the option table read off the list lines (Lean `prescribedByList`, proved = the table's) against the oracle's
    if run.get("byList") is not None and not dup_list:
        tabs = list(admissible_tables(case))
        mines = [[sorted(prescribed(case, tab, listed, nm)) for nm in names] for tab in tabs]
        if run["byList"] not in mines:
            ctx.disagree("c14.prescribedByList", case, mines[0], run["byList"])
    if model.get("prescribed") is not None and not dup_list and not case["largest"]:
        # the Lean option table agrees with the oracle's reading of the property text
        tab = next(admissible_tables(case))
        mine = [sorted(prescribed(case, tab, listed, nm)) for nm in names]
        if mine != model["prescribed"]:
            ctx.disagree("c14.prescribed", case, mine, model["prescribed"])
    ctx.validated()
    if len(ctx.samples) < 3 and 2 <= n <= 5 and n_written:
        ctx.sample({"options": opts, "requested": case["requested"], "list": rows_data, "reads": names,
                    "written_names": {k: [t.split("\n")[0].split("\t")[0] for t in actual[k]] for k in req_sinks}, "histogram": rows})

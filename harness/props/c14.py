"""C14 — split distributes every read to exactly the outputs its haplotype entry selects.

Per generated case (reads file FASTQ / FASTQ.gz / BAM x haplotag list x ploidy 2-4 x option combination) the REAL CLI
`whatshap split` is run and every requested output and the histogram are read back independently.
  * oracle (Python, from the property text, independent of Lean): each requested output holds exactly — unmodified, in input
    order — the input reads whose list entry selects it (tagged -> its haplotype; untagged/unlisted -> untagged output, every
    output with --add-untagged, nowhere when unknown and --discard-unknown-reads; --only-largest-block: reads outside the
    largest block of their chromosome count as untagged, ties admit either block); with all outputs requested and no
    --add-untagged the outputs partition the (known) input; the histogram has one row per length and column k counts, per
    length, the reads written to output k;
  * correspondence: written read indices per requested output and the histogram rows equal the Lean model of the repaired
    code (`splitFix`, `histRowsFix`); where they do not, the faithful model of HEAD (`splitCur`, `histRowsCur`) decides
    whether this is the known defect (F7a early exit, F7c duplicated histogram rows) or something else; rejected inputs
    (model: ValueError / KeyError / AssertionError) must be rejected by the CLI with the same exception class.
  * text level (`c14.run`: `runSplit` = `validate`/output options -> `parseText` on the bytes of the list file -> table ->
    pass -> `histText`): the list file is written verbatim (line ends, white space, blank lines, extra/short lines, header
    variants, gz), the output options may be anomalous, outputs may pre-exist; compared: acceptance / exception class / exit
    status 2, ploidy and requested outputs, written indices, the histogram file byte for byte, column sums = records per
    output, the option table read off the list lines (`prescribedByList`) = the oracle's;
  * in-process: `check_haplotag_list_information` + `process_haplotag_list_file` on many more list texts (`c14.list`: parser
    choice, the dict, `known_reads`, exception class), `_bam_iterator` / `_fastq_string_iterator` lengths (`c14.bamlen`),
    `initialize_io_files` format decision on files of every kind `detect_file_format` distinguishes (`c14.detect`).
"""
import collections, concurrent.futures, contextlib, gzip, itertools, json, os, re, shutil

from harness.gen import sim
from harness.gen import c14_split as G

RULE = ("case = reads file (FASTQ, gzipped FASTQ or BAM; 0-30*scale reads, duplicate names, BAM reads without sequence / "
        "mapped / unmapped) x haplotag list (2 or 4 columns, with or without header, none entries, absent names, rarely "
        "duplicate names, unknown haplotype names or empty; in half of the cases read names (in the reads and in the list, "
        "also names absent from the reads) are drawn from everything SAM QNAME / a FASTQ title allow: leading / trailing "
        "punctuation (# @ : / | = + …), names that look like a list header, a SAM header, `none`/`Hk`, numbers, up to 254 "
        "characters, with a #-name moved to the first / second / last list line; 35% written with one of 21 layout perturbations: line ends, white space, "
        "blank / short / wide lines, header variants; 25% gzipped) x ploidy 2-4 (rarely 1) x (--output-h1/-h2 | -o... | rarely "
        "anomalous output options) x --output-untagged x pre-existing output files x "
        "--add-untagged x --discard-unknown-reads x --only-largest-block; non-trivial iff the CLI accepted the input and at "
        "least two reads were written to requested outputs; distinct = distinct (reads, list, options)")
MANIFEST = dict(
    text="Lean 4 theorems about a model of split.py (list processing incl. largest-block selection, the single pass as the "
         "sequence of write calls and histogram increments, the histogram writer; HEAD and repaired variants): every requested "
         "output receives exactly, once and in input order, the reads the option table prescribes; all outputs requested => "
         "partition; histogram column = reads written (without --add-untagged) with one row per length. Tied to the working "
         "tree by running the real CLI on generated FASTQ/BAM x list x option cases, reading all outputs back independently, "
         "comparing with the model and evaluating the three predicates with a Python oracle. Deepened: the model starts at the "
         "text of the list file and the output options (strip/split/universal newlines, header test, validate), covers read "
         "length extraction, input format decision and the histogram file; end-to-end theorem from list text to outputs, "
         "largest-block selection and histogram column sums proved; list functions, iterators and format decision also compared "
         "in-process",
    design_ref="DESIGN.md §5 C14",
    note="trusted: Lean kernel, axioms ⊆ {propext, Classical.choice, Quot.sound}; hand-written model; pysam/htslib/xopen I/O "
         "and file-format detection are outside the model; a read is identified by its input index, 'unmodified' is judged on "
         "the record text (FASTQ) / SAM text (BAM) by the harness; malformed list lines are outside the quantifier",
    technique="Lean 4 model of the write-call sequence + induction over the read list + CLI differential run with oracle",
)
ASSUMPTIONS = [
    "lists are well-formed (every line has the 2 resp. 4 columns of the first line); FASTQ records are in pysam's canonical "
    "spelling ('+' line empty, non-empty sequence) so that 'unmodified' can be judged on text",
    "with duplicate read names in the *list* the entry of a read is its last tagged line (what the dict does); the property "
    "text does not define it, so such cases are checked against the model only",
]
WORKERS = 6


def err_class(stderr):
    for line in stderr.strip().splitlines()[::-1]:
        m = re.match(r"^(?:\w+\.)*(\w+(?:Error|Exception))\b", line.strip())
        if m:
            return m.group(1)
    return "unknown"


def model_request(case, lens):
    rows = ([case["header"].split("\t")] if case["header"] is not None else []) + case["rows"]
    return {"op": "c14.split", "ploidy": case["ploidy"], "requested": case["requested"], "add": case["add"],
            "discard": case["discard"], "largest": case["largest"], "rows": rows,
            "reads": [[r["name"], L] for r, L in zip(case["reads"], lens)]}


def run_request(case, lens):
    return {"op": "c14.run", "args": G.out_args(case), "add": case["add"], "discard": case["discard"],
            "largest": case["largest"], "text": G.list_text(case),
            "reads": [[r["name"], L] for r, L in zip(case["reads"], lens)]}


def data_rows(case):
    """the data rows of the list as the oracle reads them (lines split at \\n, \\r\\n, \\r; a first line starting with
    '#' is the header; columns = tab-separated fields of the line without surrounding white space)"""
    lines = re.split(r"\r\n|\r|\n", G.list_text(case))
    if lines and lines[-1] == "":
        lines.pop()
    if lines and lines[0].startswith("#"):
        lines = lines[1:]
    return [l.strip().split("\t") for l in lines]


def hash_name_lines(case, names):
    """where in the list file (1-based physical line classes) a read of the input whose name starts with '#' is named"""
    lines = re.split(r"\r\n|\r|\n", G.list_text(case))
    if lines and lines[-1] == "":
        lines.pop()
    have = set(names)
    out = set()
    for i, l in enumerate(lines):
        c = l.strip().split("\t")
        if c[0].startswith("#") and c[0] in have and len(c) > 1:
            pos = "line1" if i == 0 else "line2" if i == 1 else "last" if i == len(lines) - 1 else "middle"
            out.add(pos + ("-none" if c[1] == "none" else "-tagged"))
    return out


def admissible_tables(case):
    """independent reading of the list per the property text: yields dict name -> haplotype (tagged only) for every
    admissible choice of largest blocks (several only on ties)"""
    entries = data_rows(case)
    hap = {}
    for row in entries:
        if row[1] != "none":
            hap[row[0]] = int(row[1][1:])            # last tagged line wins (only relevant with duplicate names)
    if not case["largest"]:
        yield hap
        return
    sizes = collections.defaultdict(collections.Counter)
    members = collections.defaultdict(set)
    for row in entries:
        if row[1] != "none":
            sizes[row[3]][row[2]] += 1
            members[(row[3], row[2])].add(row[0])
    choices = []
    for chrom, cnt in sizes.items():
        best = max(cnt.values())
        choices.append([(chrom, ps) for ps, c in cnt.items() if c == best])
    for pick in itertools.product(*choices):
        sel = set().union(*[members[b] for b in pick]) if pick else set()
        yield {n: h for n, h in hap.items() if n in sel}


def prescribed(case, table, listed, name):
    req = case["requested"]
    if case["discard"] and name not in listed:
        return set()
    h = table.get(name, 0)
    if h:
        target = {h}
    elif case["add"]:
        target = set(range(case["ploidy"] + 1))
    else:
        target = {0}
    return {k for k in target if k < len(req) and req[k]}


def parse_hist(path):
    if not os.path.exists(path):
        return None, None
    lines = open(path, encoding="utf-8", errors="replace").read().split("\n")
    header = lines[0].split("\t")
    try:
        rows = [[int(x) for x in l.split("\t")] for l in lines[1:] if l]
    except ValueError:                   # e.g. a pre-existing file the run did not replace
        return ["<not a histogram>"], []
    return header, rows


def run(ctx):
    wd = ctx.workdir()
    try:
        _run(ctx, wd)
    finally:
        shutil.rmtree(wd, ignore_errors=True)


def _run(ctx, wd):
    rng = ctx.rng
    if ctx.replay:
        cases = [json.load(open(ctx.replay))["case"]]
        if cases[0].get("kind"):                 # a round-10 in-process case
            deep_case(ctx, wd, cases[0])
            return
    else:
        cases = [c for _, c in ctx.corpus()]
        n = (80 if ctx.quick else 1008) * ctx.scale
        for i in range(n):
            cases.append(G.gen_case(rng, scale=1 if ctx.quick else rng.choice([1, 1, 3]), combo=i % 16))

    def execute(idx_case):
        idx, case = idx_case
        d = os.path.join(wd, f"c{idx}")
        os.makedirs(d, exist_ok=True)
        rp, lp = G.write_inputs(case, d)
        inp = G.read_records(rp, "bam" if case["fmt"] == "bam" else "fastq")
        args, paths, hist = G.cli_args(case, d, rp, lp)
        rc, out, err, _ = sim.whatshap(args, ctx.overlay)
        if rc != 0:                      # nothing to read back (pre-existing files may still be there)
            paths, hist = {}, os.path.join(d, "no-such-file")
        res = {"rc": rc, "err": err, "input": inp,
               "outputs": {k: G.read_records(p, "bam" if case["fmt"] == "bam" else "fastq") for k, p in paths.items()},
               "hist": parse_hist(hist), "hist_text": open(hist, encoding="utf-8", errors="replace").read() if os.path.exists(hist) else None,
               "iter_lens": iterator_lengths(rp, case["fmt"])}
        shutil.rmtree(d, ignore_errors=True)
        return res

    with concurrent.futures.ThreadPoolExecutor(WORKERS) as pool:
        results = list(pool.map(execute, enumerate(cases)))

    def ask(reqs):
        out = []
        for i in range(0, len(reqs), 20):
            out += ctx.model.ask_many(reqs[i:i + 20])
        return out
    runs = ask([run_request(c, [L for _, L in r["input"]]) for c, r in zip(cases, results)])
    plain = [i for i, c in enumerate(cases) if c.get("text") is None and not c.get("args")]
    olds = dict(zip(plain, ask([model_request(cases[i], [L for _, L in results[i]["input"]]) for i in plain])))
    # read lengths: `_bam_iterator` / `_fastq_string_iterator` (in-process) = model = the harness' own measure
    bam = [i for i, c in enumerate(cases) if c["fmt"] == "bam"]
    blens = dict(zip(bam, ask([{"op": "c14.bamlen", "recs": [[len(r["seq"]) if r["seq"] else 0,
                                                                 (r.get("cigar") or [[0, r["cigar_len"]]]) if r["mapped"] else []]
                                                                for r in cases[i]["reads"]]} for i in bam])))

    for idx, (case, res, run) in enumerate(zip(cases, results, runs)):
        ctx.evaluated()
        n0 = len(ctx.fails)
        mine = [L for _, L in res["input"]]
        if res["iter_lens"] != mine:
            ctx.fail(f"read lengths seen by split's iterator {res['iter_lens'][:8]} differ from the records' lengths {mine[:8]}",
                     case, key="iterator-length")
        if idx in blens and blens[idx] != res["iter_lens"]:
            ctx.disagree("c14.bamlen", case, res["iter_lens"], blens[idx])
        judge(ctx, case, res, merge_models(ctx, case, run, olds.get(idx)))
        for _, _, key in ctx.fails[n0:]:
            ctx.dist("finding", key)
    if not ctx.replay:
        list_level(ctx, cases, wd)
        detect_level(ctx, wd)
        deep_level(ctx, wd)


def iterator_lengths(rp, fmt):
    """lengths as `run_split`'s input iterators report them (real code, in-process)"""
    import pysam
    import whatshap.cli.split as S
    if fmt == "bam":
        with pysam.AlignmentFile(rp, "rb", check_sq=False) as f:
            return [L for _, L, _ in S._bam_iterator(f)]
    with pysam.FastxFile(rp) as f:
        return [L for _, L, _ in S._fastq_string_iterator(f)]


def merge_models(ctx, case, run, old):
    """`fix` = the text-level model (`runSplit`); `cur` = the faithful model of the pre-fix code (only for lists given as rows).
    For such lists both levels must agree (what `list_text_roundtrip` proves)."""
    if "error" in run:
        return run
    if "argerr" in run:
        return {"fix": run, "cur": {}, "run": run}
    fix = {"err": run["err"]} if "err" in run else {"written": run["written"], "hist": run["hist"]}
    m = {"fix": fix, "cur": {}, "run": run, "prescribed": None}
    if old is not None and "error" not in old:
        if old["fix"] != fix:
            ctx.disagree("c14.text-vs-rows", case, fix, old["fix"])
        m["cur"] = old["cur"]; m["prescribed"] = old.get("prescribed")
    return m


def real_list(path, ploidy, discard, largest):
    """the real list functions in-process, with the two checks `run_split` makes around them"""
    import whatshap.cli.split as S
    try:
        with contextlib.ExitStack() as st:
            hl, has_chrom, parser = S.check_haplotag_list_information(path, st)
            if largest and not has_chrom:
                raise ValueError("no chromosome information")
            table, known = S.process_haplotag_list_file(hl, parser, largest, discard, ploidy)
            if discard:
                assert len(known) > 0, "No known reads"
            return {"four": parser is S._four_column_parser, "hap": sorted([k, v] for k, v in dict(table).items() if v),
                    "known": sorted(known)}
    except (ValueError, IndexError, KeyError, AssertionError) as e:
        return {"err": type(e).__name__}


def list_level(ctx, cases, wd):
    """many more list texts through the real parser/table functions in-process"""
    import logging
    logging.disable(logging.CRITICAL)            # the real functions log every rejected haplotype name
    try:
        _list_level(ctx, cases, wd)
    finally:
        logging.disable(logging.NOTSET)


def _list_level(ctx, cases, wd):
    rng = ctx.rng
    jobs = []
    n = (400 if ctx.quick else 4000) * ctx.scale
    for i in range(n):
        c = G.gen_case(rng, combo=rng.randrange(16))
        if rng.random() < 0.7:
            c["text"], c["quirk"] = G.perturb_text(rng, c)
        jobs.append(c)
    jobs += [c for c in cases if not c.get("args")]
    reqs, reals = [], []
    d = os.path.join(wd, "lists"); os.makedirs(d, exist_ok=True)
    for i, c in enumerate(jobs):
        lp = os.path.join(d, f"l{i}.tsv" + (".gz" if c.get("list_gz") else ""))
        with (gzip.open(lp, "wb") if c.get("list_gz") else open(lp, "wb")) as f:
            f.write(G.list_text(c).encode("utf-8"))
        reals.append(real_list(lp, c["ploidy"], c["discard"], c["largest"]))
        os.remove(lp)
        reqs.append({"op": "c14.list", "ploidy": c["ploidy"], "discard": c["discard"], "largest": c["largest"],
                     "text": G.list_text(c)})
    answers = []
    for i in range(0, len(reqs), 50):
        answers += ctx.model.ask_many(reqs[i:i + 50])
    for c, real, model in zip(jobs, reals, answers):
        ctx.dist("list_quirk", c.get("quirk", "-"))
        if "err" in model:
            model = {"err": model["err"].split(":")[0]}
        ctx.dist("list_outcome", real.get("err", "ok"))
        if real != model:
            ctx.disagree("c14.list", {"text": G.list_text(c), "ploidy": c["ploidy"], "discard": c["discard"],
                                      "largest": c["largest"], "gz": bool(c.get("list_gz"))}, real, model)


DETECT = [  # (magic class, content factory, file names)
    ("other", lambda: b"@r\nACGT\n+\nIIII\n", ["r.fastq", "r.fq", "r.txt", "r.fastq.gzip", "r.fq.gzip", "r.fastq.gzipfq", "r.bam"]),
    ("other", lambda: gzip.compress(b"@r\nACGT\n+\nIIII\n"), ["r.fastq.gz", "r.fq.gz", "r.fastq", "r.gz", "x.fq.gzfq.gzip"]),
    ("other", lambda: b"@HD\tVN:1.6\nr\t4\t*\t0\t0\t*\t*\t0\t0\tACGT\tIIII\n", ["r.sam", "r.fastq"]),
    ("other", lambda: b"", ["empty.fastq", "empty.bam"]),
    ("cram", lambda: b"CRAM\x03\x00" + b"\0" * 40, ["r.cram", "r.fastq"]),
    ("vcf", lambda: b"##fileformat=VCFv4.2\n#CHROM\tPOS\n", ["r.vcf", "r.fastq"]),
    ("gzvcf", lambda: gzip.compress(b"##fileformat=VCFv4.2\n#CHROM\tPOS\n"), ["r.vcf.gz", "r.fastq.gz"]),
    ("bam", None, ["r.bam", "r.fastq", "r.fastq.gz", "r"]),
    # round 10: a gzip magic followed by garbage (gzip raises inside detect_file_format), a truncated gzip member,
    # a BGZF-compressed FASTQ, a gzip stream (not BGZF) starting with BAM\1 (magic only)
    ("raise", lambda: b"\x1f\x8b" + b"\x00garbage-not-a-gzip-stream", ["bad.fastq.gz", "bad.bam"]),
    ("raise", lambda: gzip.compress(b"@r\nACGT\n+\nIIII\n")[:12], ["trunc.fastq.gz"]),
    ("other", "bgzf-fastq", ["r.fastq.gz", "r.bam"]),
]


def detect_level(ctx, wd):
    """`initialize_io_files`: which reader a reads file gets, by content and by name"""
    import pysam
    import whatshap.cli.split as S
    d = os.path.join(wd, "detect"); os.makedirs(d, exist_ok=True)
    reqs, reals, what = [], [], []
    byte_reqs, byte_reals = [], []
    for magic, content, names in DETECT:
        for nm in names:
            path = os.path.join(d, nm)
            if content is None:
                with pysam.AlignmentFile(path, "wb", header={"HD": {"VN": "1.6"}, "SQ": [{"SN": "chr1", "LN": 100}]}):
                    pass
            elif content == "bgzf-fastq":
                with pysam.BGZFile(path, "wb") as f:
                    f.write(b"@r\nACGT\n+\nIIII\n")
            else:
                open(path, "wb").write(content())
            try:
                with contextlib.ExitStack() as st:
                    _, it, _ = S.initialize_io_files(path, [None, None, None], st)
                    real = {"_bam_iterator": "BAM", "_fastq_string_iterator": "FASTQ"}[it.__name__]
            except ValueError:
                real = "ValueError"
            except (OSError, EOFError):
                real = "raise"
            # round 10: the decision from BYTES — the harness only hands over what the code reads (first 16 bytes of the
            # file, first 16 bytes of the gunzipped stream); the classification is the model's (`magicOfBytes`)
            head = open(path, "rb").read(16)
            try:
                inner = list(gzip.GzipFile(path, "rb").read(16))
            except (OSError, EOFError):
                inner = None
            try:
                from whatshap.utils import detect_file_format
                real_magic = {None: "other", "BAM": "bam", "CRAM": "cram", "VCF": "vcf"}[detect_file_format(path)]
            except (OSError, EOFError):
                real_magic = "raise"
            os.remove(path)
            byte_reqs.append({"op": "c14.magic", "head": list(head), "inner": inner, "path": path})
            byte_reals.append((real_magic, real, nm))
            if magic == "raise":
                if real != "raise":
                    ctx.disagree("c14.detect", {"magic": magic, "name": nm}, real, "raise")
                continue
            reals.append(real); what.append((magic, nm))
            reqs.append({"op": "c14.detect", "magic": magic, "path": path})
    for (real_magic, real, nm), model in zip(byte_reals, ctx.model.ask_many(byte_reqs)):
        got = {"magic": "raise", "fmt": "raise"} if model.get("raise") else model
        ctx.dist("detect_bytes", f"{got.get('magic')}->{got.get('fmt')}")
        intended = got.get("magic") == "other" and nm.endswith(("fq", "fq.gz", "fastq.gzip", "fq.gzip")) and real == "FASTQ"
        if got.get("magic", "").replace("gzvcf", "vcf") != real_magic or (got.get("fmt") != real and not intended):
            ctx.disagree("c14.magic", {"name": nm}, {"magic": real_magic, "fmt": real}, model)
    for (magic, nm), real, model in zip(what, reals, ctx.model.ask_many(reqs)):
        ctx.dist("detect", f"{magic}:{nm.split('.', 1)[-1]}->{real}")
        intended = magic == "other" and nm.endswith(("fq", "fq.gz", "fastq.gzip", "fq.gzip"))
        if real != model and intended and real == "FASTQ":
            ctx.observe(f"{nm}: accepted as FASTQ (the extension list of initialize_io_files lacks two commas in the modelled "
                        "code; accepting these names is the evident intention)")
        elif real != model:
            ctx.disagree("c14.detect", {"magic": magic, "name": nm}, real, model)


def judge(ctx, case, res, model):
    inp = res["input"]
    n = len(inp)
    opts = "+".join(k for k in ("add", "discard", "largest") if case[k]) or "plain"
    ctx.dist("format", case["fmt"]); ctx.dist("options", opts); ctx.dist("ploidy", case["ploidy"])
    ctx.dist("reads", min(n, 40) // 5 * 5)
    names = [r["name"] for r in case["reads"]]
    dup_reads = len(set(names)) < len(names)
    ctx.dist("quirk", case.get("quirk", "-")); ctx.dist("list_gz", bool(case.get("list_gz")))
    ctx.dist("preexisting_outputs", bool(case.get("pre")))
    ctx.dist("names", case.get("names", "plain"))
    for nm in set(names):
        ctx.dist("name_first_char", nm[0] if not nm[0].isalnum() else "alnum")
        ctx.dist("name_last_char", nm[-1] if not nm[-1].isalnum() else "alnum")
        ctx.dist("name_looks_like", "header" if nm.startswith("#readname") else "none/Hk" if re.fullmatch(r"(?i)none|H\d*", nm)
                 else "sam-header" if re.fullmatch(r"@(HD|SQ)", nm) else "long" if len(nm) > 100 else "-")
    for pos in hash_name_lines(case, names) or {"-"}:
        ctx.dist("hash_name_listed_at", pos)
        if pos.startswith("line1") and case.get("header") is None and case.get("quirk") not in ("leading-space", "blank-line"):
            ctx.observe("a headerless list whose first line names a read starting with '#': the line is taken for the header "
                        "(documented rule for line 1), the read counts as unlisted")
    if case["fmt"] == "bam":
        ctx.dist("bam_flags", sum(1 for r in case["reads"] if r.get("flag")) > 0)
        ctx.dist("bam_cigar_ops", "".join(sorted({"MIDNSHP=X"[op] for r in case["reads"] for op, _ in (r.get("cigar") or [])})) or "-")
    if "error" in model:
        ctx.disagree("c14.split", case, "input not accepted by the driver", model)
        return
    fix, cur = model["fix"], model["cur"]
    # ---- anomalous output options: `validate` (exit status 2) / `len(None)`
    if "argerr" in fix:
        ctx.dist("outcome", "args-" + fix["argerr"])
        if fix["argerr"] == "usage":
            if res["rc"] != 2 or "error:" not in res["err"]:
                ctx.disagree("c14.run.args", case, {"rc": res["rc"], "stderr": res["err"][-200:]}, fix)
        elif res["rc"] == 0 or err_class(res["err"]) != fix["argerr"]:
            ctx.disagree("c14.run.args", case, {"rc": res["rc"], "raised": err_class(res["err"])}, fix)
        return
    if case.get("args"):
        ctx.disagree("c14.run.args", case, {"rc": res["rc"]}, "model accepts the output options")
        return
    rows_data = data_rows(case) if "err" not in fix else []
    dup_list = len({r[0] for r in rows_data}) < len(rows_data)
    ctx.dist("dup_read_names", dup_reads); ctx.dist("list_cols", len(rows_data[0]) if rows_data else 0)
    run = model.get("run") or {}
    if "ploidy" in run and (run["ploidy"] != case["ploidy"] or run["requested"] != case["requested"][:case["ploidy"] + 1]):
        ctx.disagree("c14.run.outputs", case, {"ploidy": case["ploidy"], "requested": case["requested"]},
                     {"ploidy": run["ploidy"], "requested": run["requested"]})
    # ---- rejected inputs
    if "err" in fix:
        want = fix["err"].split(":")[0]
        ctx.dist("outcome", "rejected-" + want)
        if res["rc"] == 0:
            ctx.disagree("c14.split", case, "CLI accepted the input", fix)
        elif err_class(res["err"]) != want:
            ctx.disagree("c14.split", case, {"raised": err_class(res["err"])}, fix)
        return
    if res["rc"] != 0:
        ec = err_class(res["err"])
        ctx.dist("outcome", "crash-" + ec)
        ctx.fail(f"`whatshap split` fails with {ec} on an input the model accepts: {res['err'].strip().splitlines()[-1][:160]}",
                 case, key=f"split-raises-{ec}")
        ctx.disagree("c14.split", case, {"raised": ec}, "ok")
        return
    ctx.dist("outcome", "ok")
    outs = res["outputs"]
    req_sinks = sorted(outs)
    if any(outs[k] is None for k in req_sinks):
        ctx.fail("a requested output file was not created", case, key="output-missing")
        return
    n_written = sum(len(outs[k]) for k in req_sinks)
    if n_written >= 2:
        ctx.nontrivial(json.dumps(case, sort_keys=True))
    ctx.dist("written", min(n_written, 40) // 5 * 5)

    # ---- correspondence: written indices per requested sink
    def expected(written):
        return {k: [inp[i][0] for i in written[k]] for k in req_sinks}
    actual = {k: [t for t, _ in outs[k]] for k in req_sinks}
    is_fix = actual == expected(fix["written"])
    is_cur = actual == expected(cur["written"]) if "written" in cur else False
    early_exit = (not is_fix) and is_cur
    if not is_fix and not is_cur:
        ctx.disagree("c14.split.written", case, {k: [t.split("\n")[0][:30] for t in v] for k, v in actual.items()},
                     {"fix": fix["written"], "cur": cur.get("written")})

    # ---- oracle 1: routed_exactly (independent reading of the list)
    listed = {r[0] for r in rows_data}
    if dup_list:
        ctx.dist("oracle", "skipped-duplicate-list-names")
    else:
        ok_any, first_diff = False, None
        tables = list(admissible_tables(case))
        ctx.dist("largest_block_ties", len(tables) > 1)
        for table in tables:
            exp = {k: [inp[i][0] for i in range(n) if k in prescribed(case, table, listed, names[i])] for k in req_sinks}
            if exp == actual:
                ok_any = True
                break
            if first_diff is None:
                k = next(k for k in req_sinks if exp[k] != actual[k])
                first_diff = (k, len(exp[k]), len(actual[k]))
        if not ok_any:
            k, ne, na = first_diff
            what = (f"output {'untagged' if k == 0 else 'H%d' % k} holds {na} reads, the option table prescribes {ne} "
                    f"(options {opts}, {n} input reads, duplicate read names: {dup_reads})")
            if early_exit and case["discard"]:
                ctx.fail("F7a: --discard-unknown-reads stops after len(known_reads) processed reads: " + what, case,
                         key="F7a-discard-unknown-early-exit")
            else:
                ctx.fail("routed_exactly: " + what, case, key="routed-wrong")
        # ---- oracle 2: partition when all outputs are requested
        if all(case["requested"][:case["ploidy"] + 1]) and len(case["requested"]) >= case["ploidy"] + 1 and not case["add"]:
            keep = [inp[i][0] for i in range(n) if not (case["discard"] and names[i] not in listed)]
            got = collections.Counter(t for k in req_sinks for t in actual[k])
            if got != collections.Counter(keep) and not (early_exit and case["discard"]):
                ctx.fail(f"partition: {sum(got.values())} reads in all outputs together, {len(keep)} (known) input reads", case,
                         key="not-a-partition")
    # ---- oracle 3: histogram
    header, rows = res["hist"]
    if header is None:
        ctx.fail("histogram file was not written", case, key="histogram-missing")
        return
    exp_header = ["#length", "count-untagged"] + [f"count-h{i}" for i in range(1, case["ploidy"] + 1)]
    if header != exp_header:
        ctx.fail(f"histogram header {header} != {exp_header}", case, key="histogram-header")
        return
    lens_seen = [r[0] for r in rows]
    dup_rows = len(set(lens_seen)) < len(lens_seen)
    if dup_rows:
        ctx.fail("F7c: the histogram lists a read length in several rows (once per column that counts it), so column sums "
                 f"exceed the reads written: lengths {lens_seen}", case, key="F7c-histogram-duplicate-length-rows")
    table = {}
    for r in rows:
        table.setdefault(r[0], r[1:])
    for k in req_sinks:
        true = collections.Counter(L for _, L in outs[k])
        for L in sorted(set(true) | set(table)):
            c = table.get(L, [0] * (case["ploidy"] + 1))[k]
            if c != true.get(L, 0):
                col = "count-untagged" if k == 0 else f"count-h{k}"
                explained = rows == fix["hist"] or rows == cur.get("hist")   # per-haplotype counts exactly as modelled
                if case["add"] and k >= 1 and explained:
                    ctx.fail(f"F7b: with --add-untagged {col}[{L}] = {c} but output H{k} holds {true.get(L, 0)} reads of that "
                             "length (untagged reads are written to every H output but counted only as untagged)", case,
                             key="F7b-add-untagged-histogram-vs-written")
                else:
                    ctx.fail(f"histogram: {col}[{L}] = {c} but the output holds {true.get(L, 0)} reads of that length", case,
                             key="histogram-wrong")
                break
    # correspondence on the histogram rows (all columns, also those of outputs that were not requested)
    if rows != fix["hist"]:
        if "hist" in cur and rows == cur["hist"] and (dup_rows or early_exit):
            pass                                    # HEAD's known behaviour, reported above as F7c / F7a
        else:
            ctx.disagree("c14.split.hist", case, rows, {"fix": fix["hist"], "cur": cur.get("hist")})
    # the histogram file byte for byte, and its column sums against the records in the outputs
    if "histText" in run:
        if res["hist_text"] != run["histText"]:
            ctx.disagree("c14.run.histText", case, res["hist_text"], run["histText"])
        for k in req_sinks:
            if (not case["add"] or k == 0) and k < len(run["colSums"]) and run["colSums"][k] != len(outs[k]) and rows == fix["hist"]:
                ctx.fail(f"histogram: column {k} sums to {run['colSums'][k]} but the output holds {len(outs[k])} reads", case,
                         key="histogram-column-sum")
    # the option table read off the list lines (Lean `prescribedByList`, proved = the table's) against the oracle's
    if run.get("byList") is not None and not dup_list:
        tabs = list(admissible_tables(case))
        mines = [[sorted(prescribed(case, tab, listed, nm)) for nm in names] for tab in tabs]
        if run["byList"] not in mines:
            ctx.disagree("c14.prescribedByList", case, mines[0], run["byList"])
    # round 10: the option table read off the lines for EVERY list (last tagged line of a name wins; with
    # --only-largest-block a name counts as selected when any of its tagged lines is in a selected block), proved equal
    # to the code's table (`table_realises_list_general`): against the real outputs and the harness' own reading
    if run.get("byListGen") is not None:
        ctx.dist("byListGen", "dup-list" if dup_list else "unique")
        gen = run["byListGen"]
        exp = {k: [inp[i][0] for i in range(n) if k in gen[i]] for k in req_sinks}
        if exp != actual and is_fix:
            ctx.disagree("c14.byListGen.outputs", case, {k: len(v) for k, v in actual.items()}, {k: len(v) for k, v in exp.items()})
        mines = [[sorted(prescribed(case, tab, listed, nm)) for nm in names] for tab in admissible_tables(case)]
        if gen not in mines:
            ctx.disagree("c14.prescribedByListGen", case, mines[0], gen)
        if dup_list and case["largest"]:
            ctx.dist("dup_names_across_blocks", len({(r[0], r[2], r[3]) for r in rows_data if len(r) > 3 and r[1] != "none"})
                     > len({r[0] for r in rows_data if len(r) > 3 and r[1] != "none"}))
    if model.get("prescribed") is not None and not dup_list and not case["largest"]:
        # the Lean option table agrees with the oracle's reading of the property text
        tab = next(admissible_tables(case))
        mine = [sorted(prescribed(case, tab, listed, nm)) for nm in names]
        if mine != model["prescribed"]:
            ctx.disagree("c14.prescribed", case, mine, model["prescribed"])
    ctx.validated()
    if len(ctx.samples) < 3 and 2 <= n <= 5 and n_written:
        ctx.sample({"options": opts, "requested": case["requested"], "list": rows_data, "reads": names,
                    "written_names": {k: [t.split("\n")[0].split("\t")[0] for t in actual[k]] for k in req_sinks}, "histogram": rows})


# ------------------------------------------------------------------------------------------------------------------
# round 10: the input iterators as coded, ties of largest blocks / duplicate names on many lists, odd paths

BAM_SHAPES = ["seq", "seq+cigar", "noseq+cigar", "noseq+hardclip", "noseq+del-only", "neither", "neither-mapped-flag"]


def gen_iter_bam(rng, n):
    """records of every shape `_bam_iterator` distinguishes (seed C14-h: SEQ `*` and CIGAR `*`)"""
    recs = []
    for i in range(n):
        shape = rng.choice(BAM_SHAPES)
        L = rng.choice([1, 3, 4, 8, 12, rng.randrange(1, 60)])
        r = {"name": f"r{i}" if rng.random() < 0.8 else f"r{rng.randrange(max(1, i))}", "shape": shape, "seq": None, "cigar": []}
        if shape.startswith("seq"):
            r["seq"] = "".join(rng.choice("ACGT") for _ in range(L))
        if shape == "seq+cigar":
            r["cigar"] = G.gen_cigar(rng, L)
        elif shape == "noseq+cigar":
            r["cigar"] = G.gen_cigar(rng, L)
        elif shape == "noseq+hardclip":
            r["cigar"] = [[5, rng.randrange(1, 9)]]
        elif shape == "noseq+del-only":
            r["cigar"] = [[2, rng.randrange(1, 9)]]
        recs.append(r)
    return {"kind": "iter-bam", "recs": recs}


TITLE_SEPS = [" ", " ", "\t", "  ", " \t", "\x0b", "\x0c"]


def gen_iter_fastq(rng, n):
    """FASTQ as kseq accepts it: multi-line sequences / qualities, `+name` lines, titles with a comment behind a space, a
    tab, several separators, a trailing separator"""
    recs = []
    for i in range(n):
        name = G.wild_name(rng, i) if rng.random() < 0.3 else f"r{i}"
        name = name.lstrip("@>+") or f"r{i}"
        x = rng.random()
        title = name
        if x < 0.5:
            title += rng.choice(TITLE_SEPS) + rng.choice(["c", "ccs np=7", "1:N:0:ACGT", "a\tb", "x  y"])
        elif x < 0.6:
            title += rng.choice([" ", "\t"])
        L = rng.choice([1, 2, 5, 9, 30, rng.randrange(1, 80)])
        seq = "".join(rng.choice("ACGTN") for _ in range(L))
        k = rng.choice([1, 1, 2, 3]) if L >= 3 else 1
        cuts = sorted(rng.sample(range(1, L), k - 1)) if k > 1 else []
        lines = [seq[a:b] for a, b in zip([0] + cuts, cuts + [L])]
        recs.append({"title": title, "seq_lines": lines, "plus": rng.choice(["", "", name]),
                     "qual_split": rng.random() < 0.3 and len(lines) > 1})
    return {"kind": "iter-fastq", "recs": recs, "gz": rng.random() < 0.3}


def gen_tie_list(rng):
    """4-column lists with few lines per block (ties are the rule), names repeated across phase sets and chromosomes"""
    ploidy = rng.choice([2, 2, 3])
    n_chrom, n_ps = rng.choice([1, 2, 3]), rng.choice([2, 3, 4])
    pool = [f"n{i}" for i in range(rng.choice([3, 6, 12]))]
    rows = []
    for _ in range(rng.choice([2, 4, 6, 9, 14])):
        h = rng.choice(["none"] + [f"H{i}" for i in range(1, ploidy + 1)] * 3)
        rows.append([rng.choice(pool), h, "none" if h == "none" and rng.random() < 0.5 else str(rng.randrange(n_ps)),
                     f"chr{rng.randrange(n_chrom)}"])
    if rng.random() < 0.4:                      # no duplicate names
        seen, uniq = set(), []
        for r in rows:
            if r[0] not in seen:
                seen.add(r[0]); uniq.append(r)
        rows = uniq
    header = "#readname\thaplotype\tphaseset\tchromosome\n" if rng.random() < 0.5 else ""
    return {"kind": "tie-list", "ploidy": ploidy, "discard": rng.random() < 0.25,
            "text": header + "".join("\t".join(r) + "\n" for r in rows)}


def deep_level(ctx, wd):
    rng = ctx.rng
    k = 1 if ctx.quick else 6
    cases = [gen_iter_bam(rng, rng.choice([0, 3, 8, 15])) for _ in range(8 * k * ctx.scale)]
    cases += [gen_iter_fastq(rng, rng.choice([0, 2, 6, 12])) for _ in range(8 * k * ctx.scale)]
    cases += [gen_tie_list(rng) for _ in range(150 * k * ctx.scale)]
    cases += [{"kind": "odd-path", "what": w, "fmt": f} for w in ("same-path-h1-h2", "output-is-input") for f in ("fastq", "bam")]
    for c in cases:
        deep_case(ctx, wd, c)


def deep_case(ctx, wd, case):
    kind = case["kind"]
    d = os.path.join(wd, "deep"); os.makedirs(d, exist_ok=True)
    try:
        {"iter-bam": iter_bam_case, "iter-fastq": iter_fastq_case, "tie-list": tie_list_case, "odd-path": odd_path_case}[kind](ctx, d, case)
    finally:
        shutil.rmtree(d, ignore_errors=True)


def iter_bam_case(ctx, d, case):
    import pysam
    import whatshap.cli.split as S
    ctx.evaluated()
    recs = case["recs"]
    path = os.path.join(d, "it.bam")
    header = {"HD": {"VN": "1.6", "SO": "unsorted"}, "SQ": [{"SN": "chr1", "LN": 100000}]}
    with pysam.AlignmentFile(path, "wb", header=header) as out:
        for i, r in enumerate(recs):
            a = pysam.AlignedSegment(out.header)
            a.query_name = r["name"]; a.query_sequence = r["seq"]
            if r["cigar"] or r["shape"] == "neither-mapped-flag":
                a.flag = 0; a.reference_id = 0; a.reference_start = 10 + 50 * i; a.mapping_quality = 60
                if r["cigar"]:
                    a.cigartuples = [tuple(x) for x in r["cigar"]]
            else:
                a.flag = 4
            a.set_tag("ix", i)
            out.write(a)
    with pysam.AlignmentFile(path, "rb", check_sq=False) as f:
        real = [[nm, L, rec.get_tag("ix")] for nm, L, rec in S._bam_iterator(f)]
    for r in recs:
        ctx.dist("iter_bam_shape", r["shape"])
    # the property at the iterator: every record of the input is handed to the pass exactly once, in input order
    if [x[2] for x in real] != list(range(len(recs))):
        missing = [recs[i]["shape"] for i in range(len(recs)) if i not in {x[2] for x in real}]
        ctx.fail(f"_bam_iterator yields records {[x[2] for x in real][:12]} of {len(recs)} input records (each must be yielded "
                 f"once, in order); not yielded: {sorted(set(missing))} — such reads reach no output and no histogram row",
                 case, key="iterator-drops-record")
    # lengths by the harness' own measure
    mine = [len(r["seq"]) if r["seq"] else sum(n for op, n in r["cigar"] if op in (0, 1, 4, 7, 8)) for r in recs]
    if [x[1] for x in real] != mine and len(real) == len(recs):
        ctx.fail(f"_bam_iterator lengths {[x[1] for x in real][:10]} != records' lengths {mine[:10]}", case, key="iterator-length")
    model = ctx.model.ask("c14.iter", fmt="bam", recs=[[r["name"], len(r["seq"]) if r["seq"] else 0, r["cigar"]] for r in recs])
    if model != real:
        ctx.disagree("c14.iter.bam", case, real, model)
    if len(real) >= 2:
        ctx.nontrivial("iter-bam" + json.dumps(case, sort_keys=True))


def iter_fastq_case(ctx, d, case):
    import pysam
    import whatshap.cli.split as S
    ctx.evaluated()
    recs = case["recs"]
    text = ""
    for r in recs:
        seq = "".join(r["seq_lines"])
        qual = "I" * len(seq)
        qlines = ([qual[:len(r["seq_lines"][0])], qual[len(r["seq_lines"][0]):]] if r["qual_split"] else [qual])
        text += "@" + r["title"] + "\n" + "\n".join(r["seq_lines"]) + "\n+" + r["plus"] + "\n" + "\n".join(qlines) + "\n"
    path = os.path.join(d, "it.fastq" + (".gz" if case.get("gz") else ""))
    with (gzip.open(path, "wb") if case.get("gz") else open(path, "wb")) as f:
        f.write(text.encode())
    with pysam.FastxFile(path) as f:
        got = [(nm, L, rec) for nm, L, rec in S._fastq_string_iterator(f)]
    real = [[nm, L, i] for i, (nm, L, _) in enumerate(got)]
    want_names = [re.split(r"[ \t\n\x0b\x0c\r]", r["title"], maxsplit=1)[0] for r in recs]
    want_lens = [sum(len(l) for l in r["seq_lines"]) for r in recs]
    ctx.dist("iter_fastq_multiline", any(len(r["seq_lines"]) > 1 for r in recs))
    if [x[0] for x in real] != want_names:
        ctx.fail(f"_fastq_string_iterator yields {len(real)} reads named {[x[0] for x in real][:8]} for {len(recs)} input records "
                 f"named {want_names[:8]} (each record once, in order)", case, key="iterator-drops-record")
    elif [x[1] for x in real] != want_lens:
        ctx.fail(f"_fastq_string_iterator lengths {[x[1] for x in real][:10]} != {want_lens[:10]}", case, key="iterator-length")
    model = ctx.model.ask("c14.iter", fmt="fastq", recs=[[r["title"], r["seq_lines"]] for r in recs])
    if model.get("items") != real:
        ctx.disagree("c14.iter.fastq", case, real, model.get("items"))
    # what is written for the record: `@` + title + 4-line layout; content (name, comment, bases, qualities) must be the input's
    outs = [rec for _, _, rec in got]
    exp = ["@" + t + "\n" + "".join(r["seq_lines"]) + "\n+\n" + "I" * sum(len(l) for l in r["seq_lines"]) + "\n"
           for t, r in zip(model.get("titles", []), recs)]
    if outs != exp and len(outs) == len(exp):
        ctx.disagree("c14.iter.fastq.record", case, outs[:3], exp[:3])
    for r, t in zip(recs, model.get("titles", [])):
        if t != r["title"]:
            ctx.dist("fastq_title_rewritten", "separator" if t.replace(" ", "") == re.sub(r"[ \t\x0b\x0c]", "", r["title"]) else "other")
    if any(t != r["title"] for r, t in zip(recs, model.get("titles", []))) and not getattr(ctx, "_c14_title_obs", False):
        ctx._c14_title_obs = True
        ctx.observe("FASTQ records are re-rendered by pysam (`str(record)`): multi-line records become 4-line records, a `+name` "
                    "line becomes `+`, and the ONE white-space character between read name and comment becomes a space (a tab or "
                    "`\\x0b` separator is rewritten, a trailing separator without comment is dropped); name, comment, bases and "
                    "qualities are unchanged (modelled: `fastqTitleOut`)")
    if len(real) >= 2:
        ctx.nontrivial("iter-fastq" + json.dumps(case, sort_keys=True))


class _Grab:
    """collects the INFO lines of whatshap.cli.split"""
    def __enter__(self):
        import logging
        self.lines = []
        outer = self

        class H(logging.Handler):
            def emit(self, record):
                outer.lines.append(record.getMessage())
        self.lg = logging.getLogger("whatshap.cli.split")
        self.h = H(level=logging.INFO)
        self.old = (self.lg.level, self.lg.propagate)
        self.lg.addHandler(self.h); self.lg.setLevel(logging.INFO); self.lg.propagate = False
        return self

    def __exit__(self, *a):
        self.lg.removeHandler(self.h); self.lg.setLevel(self.old[0]); self.lg.propagate = self.old[1]


def tie_list_case(ctx, d, case):
    """real `process_haplotag_list_file` with --only-largest-block: the blocks it logs as selected, the dict and the known set"""
    ctx.evaluated()
    lp = os.path.join(d, "tie.tsv")
    open(lp, "w").write(case["text"])
    with _Grab() as g:
        real = real_list(lp, case["ploidy"], case["discard"], True)
    blocks = []
    for line in g.lines:
        m = re.match(r"Chromosome: (.*) - Phaseset: (.*) - Tagged reads: (\d+)$", line)
        if m:
            blocks.append([m.group(1), m.group(2), int(m.group(3))])
    model, mlist = ctx.model.ask_many([{"op": "c14.largest", "ploidy": case["ploidy"], "text": case["text"]},
                                       {"op": "c14.list", "ploidy": case["ploidy"], "discard": case["discard"], "largest": True,
                                        "text": case["text"]}])
    if "err" in mlist:
        mlist = {"err": mlist["err"].split(":")[0]}
    ctx.dist("tie_list_outcome", real.get("err", "ok"))
    if real != mlist:
        ctx.disagree("c14.list", case, real, mlist)
    if "err" in model:
        return
    # the harness' own reading: sizes = tagged lines per (chromosome, phase set); per chromosome the first block in list
    # order among those of maximal size
    rows = [l.split("\t") for l in case["text"].split("\n") if l and not l.startswith("#")]
    tagged = [r for r in rows if r[1] != "none"]
    size = collections.Counter((r[3], r[2]) for r in tagged)
    first = {}
    for i, r in enumerate(tagged):
        first.setdefault((r[3], r[2]), i)
    mine = []
    for c in dict.fromkeys(r[3] for r in tagged):
        best = max(v for (cc, _), v in size.items() if cc == c)
        cands = [b for b in size if b[0] == c and size[b] == best]
        ctx.dist("largest_tie_width", min(len(cands), 4))
        b = min(cands, key=lambda b: first[b])
        mine.append([b[0], b[1], size[b], first[b]])
    if model["blocks"] != mine:
        ctx.disagree("c14.largest.oracle", case, mine, model["blocks"])
    if [b[:2] for b in model["blocks"]] != model["yard"]:
        ctx.disagree("c14.largest.yard", case, model["yard"], model["blocks"])
    if "err" not in real or real["err"] == "AssertionError":
        # the blocks are logged before the duplicate assert? no: the assert comes first — only compare accepted lists
        pass
    if "err" not in real:
        if blocks != [b[:3] for b in model["blocks"]]:
            ctx.disagree("c14.largest", case, blocks, model["blocks"])
        for c, ps, nlines in blocks:
            if nlines != max(v for (cc, _), v in size.items() if cc == c):
                ctx.fail(f"--only-largest-block selects phase set {ps} of {c} with {nlines} tagged reads, the largest has "
                         f"{max(v for (cc, _), v in size.items() if cc == c)}", case, key="largest-block-not-largest")
        names = {}
        for r in tagged:
            names.setdefault(r[0], set()).add((r[3], r[2]))
        ctx.dist("tie_list_dup_names", "across-blocks" if any(len(v) > 1 for v in names.values()) else
                 "dups" if len(tagged) > len(names) else "unique")
        if len(blocks) >= 1 and len(tagged) >= 2:
            ctx.nontrivial("tie-list" + case["text"] + str(case["ploidy"]))


def odd_path_case(ctx, d, case):
    """paths the property does not speak about: observations only"""
    import pysam
    what, fmt = case["what"], case["fmt"]
    reads = [{"name": f"r{i}", "seq": "ACGT" * (i + 1), "comment": None, "mapped": False, "cigar_len": None} for i in range(6)]
    c = {"fmt": fmt, "reads": reads, "header": None, "rows": [[f"r{i}", "H1" if i % 2 else "H2"] for i in range(5)],
         "list_gz": False}
    rp, lp = G.write_inputs(c, d)
    size0 = os.path.getsize(rp)
    if what == "same-path-h1-h2":
        out = os.path.join(d, "both." + fmt)
        args = ["split", "--output-h1", out, "--output-h2", out, rp, lp]
    else:
        out = rp
        args = ["split", "--output-untagged", rp, "--output-h1", os.path.join(d, "h1." + fmt), rp, lp]
    rc, _, err, _ = sim.whatshap(args, ctx.overlay)
    recs = G.read_records(out, "bam" if fmt == "bam" else "fastq") if os.path.exists(out) else None
    names = [t.split("\n")[0].split("\t")[0].lstrip("@") for t, _ in recs] if recs else recs
    ctx.dist("odd_path", f"{what}:{fmt}:rc={rc}")
    if what == "same-path-h1-h2":
        ctx.observe(f"odd path ({fmt}): --output-h1 and --output-h2 given the SAME path: exit status {rc}; both writers open and "
                    f"truncate the file, the file afterwards holds {names} (H1 reads are r1 r3, H2 reads r0 r2 r4): the two "
                    "streams overwrite each other — no error is raised")
    else:
        ctx.observe(f"odd path ({fmt}): --output-untagged = the input file: exit status {rc}"
                    f"{' (' + err_class(err) + ')' if rc else ''}; the input ({size0} bytes before) is opened for reading, then "
                    f"truncated by the writer: afterwards {os.path.getsize(rp) if os.path.exists(rp) else 'missing'} bytes, records {names} — "
                    "the input is destroyed, no error is raised by split itself")

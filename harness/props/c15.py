"""C15 — polyphase output obeys the input genotypes and forms contiguous blocks.

In-process correspondence (real function vs Lean model, result must be one of the model's admissible results):
  force   whatshap.polyphase.threading.force_genotypes           <-> c15.force   (per column: step + verdict)
  permute whatshap.polyphase.reorder.permute_blocks              <-> c15.permute (exact)
          whatshap.polyphase.reorder.get_optimal_assignments      (oracle only: results are permutations)
  cuts    whatshap.polyphase.algorithm.compute_cut_positions     <-> c15.cuts    (exact, IEEE doubles on both sides)
  psi     whatshap.cli.polyphase.phase_single_individual (solver stubbed by a generated PolyphaseResult)
                                                                  <-> c15.components (final dict + phased positions)
  glue    the steps of run_polyphase between the variant table and solve_polyphase_instance, with the real helpers
          (remove_rows_by_index, ReadSet.subset, subset_rows_by_position, create_genotype_list, AlleleMatrix)
          on tables / read sets built through the real API                <-> c15.glue, c15.blockstarts
  vcfio   VcfReader / PhasedVcfWriter.write on generated records (duplicates, >= 16 ALTs, mixed SNV/indel ALTs, no ALT,
          unsorted, wrong ploidy) with a generated phase and component dictionary <-> c15.readtable, c15.write
  agg / threads / assign   aggregate_results, find_breakpoints, get_optimal_assignments <-> c15.aggregate, c15.integrate,
          c15.assignments
  pipe    the REAL run_polyphase in this process (threads=1) on every CLI case, with recorders (class Recorder) around
          PhasedInputReader.read, solve_polyphase_instance (also the recursive calls for sub-instances),
          compute_block_starts, phase_single_block, force_genotypes, run_threading, find_subinstances,
          integrate_sub_results, get_optimal_assignments, permute_blocks, aggregate_results, compute_cut_positions,
          phase_single_individual; every recorded stage is compared with the model (c15.readtable, c15.glue,
          c15.blockstarts incl. the genotype slices by object identity, c15.singleton, c15.force, c15.writeback,
          c15.integrate, c15.assignments, c15.permute, c15.aggregate, c15.cuts, c15.components) and the written VCF
          with the writer model (c15.write).
  round 10: subinst (real find_subinstances / integrate_sub_results on generated thread matrices + cluster reads <->
          c15.subinstances, c15.integratehaps), haploid_components <-> c15.haploid, HS text of the written VCF <-> c15.hs,
          replay of every phase_single_block call through the model's stage order <-> c15.block
Property oracle (Python, independent of the model) on every in-process result and on the output VCF of real
`whatshap polyphase` runs on generated polyploid data.
"""
import collections, itertools, json, math, os, shutil, struct

from harness.gen import sim, c15_poly, c15_glue

RULE = ("in-process: generated columns/genotypes/cluster depths (force_genotypes), thread+haplotype matrices with "
        "breakpoints and permutations (permute_blocks), breakpoint lists with confidences for all six sensitivities "
        "(compute_cut_positions), accessible positions + stubbed solver result (phase_single_individual); a case is "
        "non-trivial if a permutation stage is entered (force), some block permutation is not the identity (permute), "
        "there are >= 2 breakpoints with non-zero confidence (cuts), there are >= 2 cuts (psi), the solver is reached "
        "and some heterozygous variant is in no column (glue), a record is skipped by the reader while some call is "
        "phased (vcfio), >= 2 blocks (agg), >= 1 breakpoint (threads), >= 2 breakpoints (assign). CLI: a polyphase run is "
        "non-trivial if it phases >= 2 variants; distinct = distinct serialised case")
MANIFEST = dict(
    text="Lean 4 theorems about a hand-written model of whatshap polyphase around its heuristics: the VCF reader's row "
         "selection, the glue of run_polyphase up to the solver call (alignment of the genotype list with the allele-matrix "
         "columns for every input), what solve_polyphase_instance does with the genotype list (block slices, one-variant "
         "blocks, force_genotypes, recursive sub-instance write-back, permute_blocks, get_optimal_assignments), where "
         "breakpoints come from (find_breakpoints, sub-instances, sort, join, aggregate_results), compute_cut_positions + "
         "component dictionary, and the VCF writer — with the clustering/threading/likelihood heuristics universally "
         "quantified: every phased genotype in the output lists exactly the alleles of the input genotype, only "
         "heterozygous non-skipped rows are phased, components are disjoint intervals named by their first position "
         "(end to end from the block results); tied to the working "
         "tree by in-process differential runs of those functions and by an independent oracle on the output VCF of real "
         "`whatshap polyphase` runs on generated polyploid data (ploidy 2-6, multi-allelic, collapsed haplotypes, uneven "
         "coverage, all block-cut sensitivities, --use-prephasing)",
    design_ref="DESIGN.md §5 C15",
    note="the end-to-end theorems quantify over every column the modelled stages can produce from arbitrary heuristic "
         "output (not over the heuristics' code); the BAM reader is an input (its contract is checked on every run). The "
         "code's -inf fallback in force_genotypes (F8) is modelled as an admissible outcome and proved to violate the "
         "genotype whenever taken; the check reports it (reachable through the CLI with >= 249 reads per cluster and a "
         "genotype the reads contradict). Trusted: Lean kernel, axioms ⊆ {propext, Classical.choice, Quot.sound}, the "
         "hand-written model, pysam/htslib on both sides, IEEE-double equality of Lean's Float.log and CPython's math.log",
    technique="Lean 4 proofs about the enforcing stages + differential correspondence + CLI output oracle",
)
ASSUMPTIONS = [
    "genotype dicts have exactly ploidy alleles (create_genotype_list counts Genotype.as_vector(); sub-instances count the column)",
    "breakpoint haplotype indices are < ploidy and block permutations are permutations of range(ploidy) (out-of-range would raise IndexError in the code)",
    "block_cut_sensitivity in 0..5 (validated by the CLI)",
    "the likelihood that picks the permutation (scipy binom.pmf) is not modelled: any permutation of alleles_to_insert is admissible",
    "--distrust-genotypes is outside the property; --tag HP output is C09's subject and not run here",
    "the BAM reader reports alleles only at positions of the variants it was asked for (hypothesis of genotype_list_aligned; checked on the real reader in every pipeline run, key reader-contract)",
    "run_threading returns ploidy haplotypes per block (sub-instance thread sets of one position are disjoint: theorem subinstances_disjoint_and_inside_block; also recorded and checked: c15.writeback `disjoint`, oracle subinst-overlap)",
    "haploid sets: hap_cuts[j] start at 0, are strictly increasing and contained in cuts (hypotheses of the two haploid-set theorems; oracles hs-not-interval, hs-name, hs-border-inside-ps on every run)",
    "the writer model is per sample: another sample only decides whether a record passes the 'phased in any sample' gate, which does not change this sample's GT / phased flag / PS",
    "get_optimal_assignments with pre-phasing affiliations (ILP) is not modelled: oracle only (results are permutations)",
]

F8_KEY = "F8-force-genotypes-neg-inf-fallback"
F8_CLI_KEY = "F8-cli-genotype-changed-cluster-depth>=249"


def f2bits(x):
    return struct.unpack("<Q", struct.pack("<d", float(x)))[0]


def expand(gt):
    return sorted(a for a, n in gt.items() for _ in range(n))


# ------------------------------------------------------------------------------------------------
# generators (in-process)
# ------------------------------------------------------------------------------------------------

def gen_force(rng, deep=False):
    k = rng.choice([2, 2, 3, 3, 4, 4, 4, 5, 6]) if not deep else rng.choice([2, 3, 4])
    nv = rng.randrange(1, 5)
    na = rng.choice([2, 2, 3, 4])
    haps = [[rng.randrange(na) for _ in range(nv)] for _ in range(k)]
    gts = []
    for p in range(nv):
        r = rng.random()
        col = [haps[h][p] for h in range(k)]
        if r < 0.25:
            g = col[:]                       # already right
        elif r < 0.5:
            g = col[:]
            g[rng.randrange(k)] = rng.randrange(na)   # one allele off
        else:
            g = [rng.randrange(na) for _ in range(k)]
        gts.append({str(a): g.count(a) for a in sorted(set(g))})
        if rng.random() < 0.06:
            haps[rng.randrange(k)][p] = -1   # undetermined allele
    ncl = rng.randrange(1, k + 2)
    path = [[rng.randrange(ncl) for _ in range(k)] for _ in range(nv)]
    cov = [sorted(set(p) | ({rng.randrange(ncl)} if rng.random() < 0.3 else set())) for p in path]
    lo, hi = (0, 40) if not deep else rng.choice([(200, 400), (300, 1500), (1000, 4000)])
    depths = []
    for p in range(nv):
        d = {}
        for c in cov[p]:
            als = [a for a in range(na) if rng.random() < 0.8]
            d[str(c)] = {str(a): rng.randrange(lo, hi + 1) for a in als}
        depths.append(d)
    return {"kind": "force", "path": path, "haps": haps, "gts": gts, "cov": cov, "depths": depths}


def gen_permute(rng):
    k = rng.choice([2, 3, 3, 4, 4, 5])
    n = rng.randrange(2, 10)
    na = rng.choice([2, 3])
    threads = [[rng.randrange(k + 1) for _ in range(k)] for _ in range(n)]
    haps = [[rng.randrange(na) for _ in range(n)] for _ in range(k)]
    positions = sorted(rng.sample(range(1, n), rng.randrange(0, min(n - 1, 4) + 1)))
    bps = []
    for p in positions:
        aff = sorted(rng.sample(range(k), rng.randrange(2, k + 1)))
        llh = {",".join(map(str, perm)): -rng.random() * 20 for perm in itertools.permutations(aff)}
        bps.append({"pos": p, "haps": aff, "llh": llh})
    use_assign = rng.random() < 0.5
    perms = None
    if not use_assign:
        perms = []
        for _ in range(len(bps) + 1):
            pm = list(range(k)); rng.shuffle(pm); perms.append(pm)
    return {"kind": "permute", "threads": threads, "haps": haps, "bps": bps, "perms": perms}


def gen_cuts(rng):
    k = rng.choice([2, 3, 4, 5, 6])
    n = rng.randrange(1, 14)
    B = rng.randrange(0, 6)
    accumulate = rng.random() < 0.3      # only confidences close to 1: cuts happen by accumulation
    if accumulate:
        B = rng.choice([2, 3, 4])
    bps = []
    if rng.random() < 0.9:
        bps.append([0, list(range(k)), 0.0])
    pos = 0
    for _ in range(rng.randrange(0, 9)):
        pos += rng.choice([0, 1, 1, 1, 2, 3])
        if pos >= n:
            break
        aff = sorted(rng.sample(range(k), rng.randrange(2, k + 1)))
        r = rng.random()
        if accumulate:
            r = 0.5 + 0.1 * r
        if r < 0.2:
            c = 0.0
        elif r < 0.3:
            c = 1.0
        elif r < 0.45:
            c = rng.choice([0.5, 0.99, 0.5000000000000001, 0.4999999999999999, 0.9900000000000001, 0.7071067811865476,
                            0.7071067811865475, 1e-300, 5e-324])
        elif r < 0.65:
            c = rng.choice([0.999, 0.995, 0.992, 0.9, 0.8, 0.75])   # thresholds are reached by accumulation only
        else:
            c = rng.random()
        bps.append([pos, aff, c])
    return {"kind": "cuts", "ploidy": k, "B": B, "bps": bps}


def gen_psi(rng):
    k = rng.choice([2, 3, 4, 5])
    n = rng.randrange(2, 12)
    acc, p = [], rng.randrange(0, 50)
    for _ in range(n):
        acc.append(p)
        p += rng.choice([1, 1, 2, 3, 10, 40])     # adjacent positions exercise the `pos + 1` keys
    c = gen_cuts(rng)
    bps = [[0, list(range(k)), 0.0]]
    for pos, aff, conf in c["bps"]:
        if 0 < pos < n:
            bps.append([pos, [h for h in aff if h < k] or [0, 1], conf])
    haps = [[rng.randrange(3) for _ in range(n)] for _ in range(k)]
    for _ in range(rng.choice([0, 0, 1, 2])):
        haps[rng.randrange(k)][rng.randrange(n)] = -1
    return {"kind": "psi", "ploidy": k, "B": c["B"], "acc": acc, "bps": bps, "haps": haps}


# ------------------------------------------------------------------------------------------------
# running the real functions
# ------------------------------------------------------------------------------------------------

def run_force(case):
    from whatshap.polyphase.threading import force_genotypes
    haps = [h[:] for h in case["haps"]]
    gts = [{int(a): n for a, n in g.items()} for g in case["gts"]]
    depths = [{int(c): {int(a): n for a, n in d.items()} for c, d in dd.items()} for dd in case["depths"]]
    out = force_genotypes([p[:] for p in case["path"]], haps, [dict(g) for g in gts], [c[:] for c in case["cov"]],
                          depths, 0.05)
    return out, gts


def check_force(ctx, case, batch):
    out, gts = run_force(case)
    k, nv = len(case["haps"]), len(case["path"])
    stage = False
    for p in range(nv):
        col = [case["haps"][h][p] for h in range(k)]
        oc = [out[h][p] for h in range(k)]
        gv = expand(gts[p])
        # property oracle: a fully determined column must list exactly the genotype's alleles
        if -1 not in col and sorted(oc) != gv:
            if oc == col:
                ctx.fail(f"force_genotypes left column {col} as threaded although the genotype is {gv} "
                         f"(every permutation scored -inf)", case, key=F8_KEY)
            else:
                ctx.fail(f"force_genotypes turned column {col} into {oc}, genotype is {gv}", case, key="force-multiset")
        if -1 not in col and sorted(col) != gv:
            stage = True
        batch.append(({"op": "c15.force", "col": col, "gv": gv, "out": oc}, ("force", case, p)))
    ctx.dist("force_ploidy", k)
    return stage


def after_force(ctx, req, meta, ans):
    _, case, p = meta
    ctx.dist("force_verdict", ans.get("verdict"))
    if ans.get("verdict") == "inadmissible":
        ctx.disagree("c15.force", case, {"pos": p, "out": req["out"]}, ans)
    if ans.get("verdict") == "fallback":
        ctx.observe("force_genotypes: -inf fallback taken in-process (F8)")


def run_permute(case):
    from whatshap.polyphase import PhaseBreakpoint
    from whatshap.polyphase.reorder import permute_blocks, get_optimal_assignments
    threads = [t[:] for t in case["threads"]]
    haps = [h[:] for h in case["haps"]]
    k = len(haps)
    bps = [PhaseBreakpoint(b["pos"], b["haps"], 0.0) for b in case["bps"]]
    lllh = [{tuple(int(x) for x in key.split(",")): v for key, v in b["llh"].items()} for b in case["bps"]]
    perms = case["perms"]
    if perms is None:
        perms = get_optimal_assignments(bps, lllh, k, None)
    permute_blocks(threads, haps, bps, lllh, perms)
    return threads, haps, perms, [b.confidence for b in bps]


def check_permute(ctx, case, batch):
    threads, haps, perms, confs = run_permute(case)
    k, n = len(haps), len(case["threads"])
    for i, pm in enumerate(perms):
        if sorted(pm) != list(range(k)):
            ctx.fail(f"block {i}: assignment {pm} is not a permutation of range({k})", case, key="reorder-not-a-permutation")
            return False
    for p in range(n):
        a = sorted(case["haps"][h][p] for h in range(k)); b = sorted(haps[h][p] for h in range(k))
        if a != b:
            ctx.fail(f"permute_blocks changed the allele multiset of position {p}: {a} -> {b}", case, key="reorder-multiset")
    for c in confs:
        if not (0.0 <= c <= 1.0 + 1e-9):
            ctx.observe("permute_blocks: confidence outside [0,1]")
    cols_h = [[case["haps"][h][p] for h in range(k)] for p in range(n)]
    pos = [b["pos"] for b in case["bps"]]
    batch.append(({"op": "c15.permute", "cols": cols_h, "bps": pos, "perms": perms},
                  ("permute", case, [[haps[h][p] for h in range(k)] for p in range(n)])))
    batch.append(({"op": "c15.permute", "cols": case["threads"], "bps": pos, "perms": perms}, ("permute", case, threads)))
    return any(pm != list(range(k)) for pm in perms)


def run_cuts(bps, k, B):
    from whatshap.polyphase import PhaseBreakpoint
    from whatshap.polyphase.algorithm import compute_cut_positions
    return compute_cut_positions([PhaseBreakpoint(p, h, c) for p, h, c in bps], k, B)


def check_cuts(ctx, case, batch):
    k, B, bps = case["ploidy"], case["B"], case["bps"]
    cuts, hap_cuts = run_cuts(bps, k, B)
    positions = [b[0] for b in bps]
    if any(a >= b for a, b in zip(cuts, cuts[1:])):
        ctx.fail(f"cut positions not strictly increasing: {cuts}", case, key="cuts-not-increasing")
    if any(c not in positions for c in cuts):
        ctx.fail(f"cut {cuts} at a position that is no breakpoint", case, key="cuts-not-breakpoints")
    if bps and bps[0][2] == 0.0 and (not cuts or cuts[0] != bps[0][0]):
        ctx.fail(f"first breakpoint (confidence 0) does not start the first block: cuts={cuts}", case, key="cuts-first")
    batch.append(({"op": "c15.cuts", "ploidy": k, "B": B, "bps": [[p, h, f2bits(c)] for p, h, c in bps]},
                  ("cuts", case, {"cuts": cuts, "hap_cuts": hap_cuts})))
    ctx.dist("cuts_B", B)
    return sum(1 for b in bps if b[2] != 0.0) >= 2


class _Timers:
    def start(self, *_): pass
    def stop(self, *_): pass


def run_psi(case):
    import whatshap.cli.polyphase as cp
    from whatshap.core import Read, ReadSet
    from whatshap.polyphase import PolyphaseParameter, PolyphaseResult, PhaseBreakpoint
    k, B, acc = case["ploidy"], case["B"], case["acc"]
    rs = ReadSet()
    # two reads that together cover every accessible position (each with >= 1 variant)
    for i in range(2):
        r = Read(f"r{i}", 60, 0)
        for j, p in enumerate(acc):
            if i == 0 or j % 2 == 0:
                r.add_variant(p, 0, 30)
        rs.add(r)
    res = PolyphaseResult([], [], [h[:] for h in case["haps"]], [PhaseBreakpoint(p, h, c) for p, h, c in case["bps"]])
    param = PolyphaseParameter(ploidy=k, ce_bundle_edges=False, distrust_genotypes=False, min_overlap=2,
                               block_cut_sensitivity=B, plot_clusters=False, plot_threading=False, threads=1,
                               use_prephasing=False)
    saved = (cp.solve_polyphase_instance, cp.create_genotype_list)
    cp.solve_polyphase_instance = lambda *a, **kw: res
    cp.create_genotype_list = lambda *a, **kw: []
    try:
        comps, hcomps, superreads = cp.phase_single_individual(rs, None, "S", param, None, _Timers())
    finally:
        cp.solve_polyphase_instance, cp.create_genotype_list = saved
    sr = [[(v.position, v.allele) for v in read] for read in superreads]
    run_psi.hcomps = hcomps
    return comps, sr


def check_psi(ctx, case, batch):
    k, acc, haps = case["ploidy"], case["acc"], case["haps"]
    comps, sr = run_psi(case)
    cuts, _ = run_cuts(case["bps"], k, case["B"])
    n = len(acc)
    # oracle: names over the accessible positions form intervals named by their first position
    names = [comps.get(p) for p in acc]
    if None in names:
        ctx.fail(f"accessible position without component: {names}", case, key="psi-missing-component")
    else:
        seen = set()
        for i, nm in enumerate(names):
            if i == 0 or names[i - 1] != nm:
                if nm in seen:
                    ctx.fail(f"component {nm} is not contiguous in the order of accessible positions: {names}", case,
                             key="psi-not-contiguous")
                if nm != acc[i]:
                    ctx.fail(f"component starting at {acc[i]} is named {nm}", case, key="psi-name")
                seen.add(nm)
    phased = [j for j in range(n) if all(haps[h][j] != -1 for h in range(k))]
    exp_sr = [[(acc[j], haps[h][j]) for j in phased] for h in range(k)]
    if sr != exp_sr:
        ctx.fail("super-reads differ from the solver's haplotypes on the fully determined positions", case, key="psi-superreads")
    cols = [[haps[h][j] for h in range(k)] for j in range(n)]
    hcomps = run_psi.hcomps
    check_haploid(ctx, case, acc, k, comps, hcomps)
    _, hap_cuts = run_cuts(case["bps"], k, case["B"])
    batch.append(({"op": "c15.haploid", "acc": acc, "cuts": list(cuts), "hap_cuts": [list(h) for h in hap_cuts], "num_vars": n},
                  ("plain", case, sorted([int(a), [int(x) for x in b]] for a, b in hcomps.items()))))
    batch.append(({"op": "c15.components", "acc": acc, "cuts": cuts, "cols": cols},
                  ("psi", case, {"dict": sorted([a, b] for a, b in comps.items()),
                                 "phased": sorted({p for r in sr for p, _ in r})})))
    return len(cuts) >= 2


def after_exact(ctx, req, meta, ans):
    kind, case, impl = meta
    if kind == "exact":
        model = {k: ans.get(k) for k in impl}
    elif kind == "psi":
        model = {"dict": sorted(ans.get("dict", [])), "phased": sorted(case["acc"][j] for j in ans.get("phased", []))}
    else:
        model = ans
    if model != impl:
        ctx.disagree(req["op"], case, impl, model)



# ------------------------------------------------------------------------------------------------
# glue of run_polyphase / block structure of the solver (Model/C15Glue.lean, Model/C15Solve.lean)
# ------------------------------------------------------------------------------------------------

MAX_ALLELES, MAX_PLOIDY = 16, 15


def model_cfg(k, mav=True, only_snvs=False, min_overlap=2):
    return {"ploidy": k, "mav": mav, "only_snvs": only_snvs, "max_alleles": MAX_ALLELES, "max_ploidy": MAX_PLOIDY,
            "min_overlap": min_overlap}


def dict_items(d):
    """a Python dict as the model sees it: items in iteration order"""
    return [[int(a), int(n)] for a, n in d.items()]


def am_reads(am):
    return [[int(p) for p, _ in am.getRead(i)] for i in range(len(am))]


def run_glue(case):
    """the steps of run_polyphase between `variant_table` and `solve_polyphase_instance`, with the real helper
    functions on a VariantTable / ReadSet built through the real API"""
    from copy import deepcopy
    from whatshap.core import Genotype, Read, ReadSet
    from whatshap.vcf import VariantTable, BiallelicVcfVariant
    from whatshap.polyphase import create_genotype_list, compute_block_starts
    from whatshap.polyphase.solver import AlleleMatrix
    k, m = case["ploidy"], case["min_overlap"]
    vt = VariantTable("chr1", ["S"])
    for pos, gt in case["rows"]:
        vt.add_variant(BiallelicVcfVariant(pos, "A", "C"), [Genotype(list(gt) if gt is not None else [])], [None], [None], [None])
    genotypes = vt.genotypes_of("S")
    heterozygous = {i for i, gt in enumerate(genotypes) if not gt.is_none() and not gt.is_homozygous()}
    phasable = deepcopy(vt)
    phasable.remove_rows_by_index(set(range(len(vt))).difference(heterozygous))
    out = {"het": [[v.position, sorted(g.as_vector())] for v, g in zip(phasable.variants, phasable.genotypes_of("S"))]}
    if len(phasable) < 2:
        out["kind"] = "few-variants"
        return out
    readset = ReadSet()
    for i, r in enumerate(case["reads"]):
        read = Read(f"r{i}", 60, 0, 0)
        for p, a in r:
            read.add_variant(p, a, 30)
        readset.add(read)
    readset.sort()
    readset = readset.subset([i for i, read in enumerate(readset) if len(read) >= max(2, m)])
    if len(readset) == 0:
        out["kind"] = "no-reads"
        return out
    phasable.subset_rows_by_position(readset.get_positions())
    gl = create_genotype_list(phasable, "S")
    am = AlleleMatrix(readset)
    out.update(kind="solve", cols=[int(p) for p in am.getPositions()],
               rows=[[v.position, sorted(g.as_vector())] for v, g in zip(phasable.variants, phasable.genotypes_of("S"))],
               genotypes=[dict_items(g) for g in gl], nkept=len(am), accessible=sorted(readset.get_positions()))
    out["am_reads"] = am_reads(am)
    out["starts"] = {sl: compute_block_starts(am, k, single_linkage=sl) for sl in (True, False)}
    return out


def recs_for_model(rows):
    """variant-table rows -> model records (biallelic SNVs)"""
    return [[p, 1, True, True, list(g) if g is not None else [], False] for p, g in rows]


def norm_rows(rows):
    return [[p, sorted(g)] for p, g in rows]


def check_glue(ctx, case, batch):
    impl = run_glue(case)
    k = case["ploidy"]
    ctx.dist("glue_kind", impl["kind"])
    if impl["kind"] == "solve":
        # alignment oracle, independent of the model: one genotype per column, that of the row at the column's position
        by_pos = {p: g for p, g in case["rows"]}
        cols, gl = impl["cols"], impl["genotypes"]
        if cols != impl["accessible"]:
            ctx.fail(f"allele matrix columns {cols} differ from the read set's positions {impl['accessible']}", case,
                     key="glue-columns")
        if len(gl) != len(cols):
            ctx.fail(f"genotype list has {len(gl)} entries for {len(cols)} allele-matrix columns", case, key="glue-misaligned")
        else:
            for i, p in enumerate(cols):
                want = collections.Counter(by_pos.get(p) or [])
                if {a: n for a, n in gl[i]} != dict(want) or len(set(by_pos.get(p) or [])) < 2:
                    ctx.fail(f"genotype list entry {i} is {gl[i]} but column {i} is position {p} with input genotype "
                             f"{by_pos.get(p)}", case, key="glue-misaligned")
                    break
        for sl, st in impl["starts"].items():
            if not st or st[0] != 0 or any(a >= b for a, b in zip(st, st[1:])) or st[-1] >= len(cols):
                ctx.fail(f"block starts {st} (single_linkage={sl}) for {len(cols)} variants", case, key="block-starts")
            batch.append(({"op": "c15.blockstarts", "reads": impl["am_reads"], "num_vars": len(cols), "ploidy": k,
                           "single_linkage": sl, "genotypes": [[i] for i in range(len(cols))]},
                          ("blockstarts", case, st)))
    batch.append(({"op": "c15.glue", "cfg": model_cfg(k, min_overlap=case["min_overlap"]),
                   "table": recs_for_model(case["rows"]), "reads": case["reads"]}, ("glue", case, impl)))
    return impl["kind"] == "solve" and len(impl["cols"]) < len(impl["het"])


def after_glue(ctx, req, meta, ans):
    _, case, impl = meta
    model = {"kind": ans.get("kind"), "het": norm_rows(ans.get("het", []))}
    mine = {"kind": impl["kind"], "het": impl["het"]}
    if impl["kind"] == "solve":
        mine.update(cols=impl["cols"], rows=impl["rows"], genotypes=impl["genotypes"], nkept=impl["nkept"])
        model.update(cols=ans.get("cols"), rows=norm_rows(ans.get("rows", [])), genotypes=ans.get("genotypes"),
                     nkept=ans.get("nkept"))
    if model != mine:
        ctx.disagree("c15.glue", case, mine, model)


def after_blockstarts(ctx, req, meta, ans):
    _, case, impl = meta
    if ans.get("starts") != impl:
        ctx.disagree("c15.blockstarts", case, impl, ans.get("starts"))


# -- VcfReader / PhasedVcfWriter on generated records ------------------------------------------------

def vcfio_records(case):
    k = case["ploidy"]
    recs = []
    for r in case["recs"]:
        if r["gt"] is None:
            gt = "/".join(["."] * k)
        else:
            gt = ("|" if r["phased"] else "/").join(map(str, r["gt"]))
        calls = [{"GT": gt, "PS": r["ps"] if r["ps"] is not None else "."}]
        if case.get("other"):
            calls.append({"GT": "/".join(["0"] * (k - 1) + ["1"]) if r["alts"] else "/".join(["0"] * k), "PS": "."})
        recs.append({"chrom": "chr1", "pos": r["pos"], "ref": r["ref"], "alts": r["alts"], "format": ["GT", "PS"],
                     "calls": calls})
    return recs


def model_recs(recs):
    """records (dicts with pos/ref/alts/gt/phased) -> model records"""
    out = []
    for r in recs:
        ref, alts = r["ref"], r["alts"]
        out.append([r["pos"], len(alts), len(ref) == 1 and all(len(a) == 1 for a in alts),
                    len(ref) == 1 and bool(alts) and len(alts[0]) == 1, list(r["gt"]) if r["gt"] is not None else [],
                    bool(r.get("phased"))])
    return out


def reader_accepts(recs, k, mav, only_snvs):
    """which records become rows of the variant table — written from the documentation of the reader's behaviour,
    independently of the model (None: the reader raises)"""
    acc, prev = [], None
    for i, r in enumerate(recs):
        alts = r["alts"]
        if not alts:
            continue
        if len(alts) > 1 and (not mav or len(alts) >= MAX_ALLELES):
            continue
        if only_snvs and not (len(r["ref"]) == 1 and all(len(a) == 1 for a in alts)):
            continue
        if prev is not None and prev > r["pos"]:
            return None
        if prev == r["pos"]:
            continue
        prev = r["pos"]
        if r["gt"] is not None and len(r["gt"]) != k:
            return None
        acc.append(i)
    return acc


def run_vcfio(ctx, case):
    from whatshap.core import Read, ReadSet
    from whatshap.vcf import VcfReader, PhasedVcfWriter, VcfNotSortedError, PloidyError
    k = case["ploidy"]
    d = os.path.join(ctx.workdir(), "vcfio")
    os.makedirs(d, exist_ok=True)
    vcf, out = os.path.join(d, "in.vcf"), os.path.join(d, "out.vcf")
    samples = ["S"] + (["O"] if case.get("other") else [])
    sim.write_vcf(vcf, {"chr1": "A" * 2000}, samples, vcfio_records(case),
                  fmt_defs={"PS": '##FORMAT=<ID=PS,Number=1,Type=Integer,Description="Phase set">'})
    res = {}
    import io, contextlib
    try:
        with contextlib.redirect_stdout(io.StringIO()):     # the reader prints the offending phase before raising PloidyError
            with VcfReader(vcf, only_snvs=case["only_snvs"], phases=True, genotype_likelihoods=False, ploidy=k,
                           mav=case["mav"]) as vr:
                tables = list(vr)
        res["table"] = [[v.position, sorted(g.as_vector())] for t in tables
                        for v, g in zip(t.variants, t.genotypes_of("S"))]
    except VcfNotSortedError:
        res["table"] = "not-sorted"
    except PloidyError:
        res["table"] = "ploidy"
    superreads = ReadSet()
    for h in range(k):
        read = Read(f"superread {h + 1}", 0, 0)
        for p, ph in sorted(case["phases"]):
            read.add_variant(p, ph[h], 0)
        superreads.add(read)
    comps = {}
    for p, nm in case["comps"]:
        comps[p] = nm
    with open(out, "w") as f:
        with PhasedVcfWriter(command_line=None, in_path=vcf, out_file=f, tag="PS", ploidy=k,
                             only_snvs=case["only_snvs"], mav=case["mav"]) as w:
            w.write("chr1", {"S": superreads}, {"S": comps})
    _, _, rout = sim.read_vcf(out)
    calls = []
    for r in rout:
        c = r["calls"][0]
        al, ph = c["GT"] if c.get("GT") else (None, False)
        calls.append([[] if al is None or any(a is None for a in al) else list(al), bool(ph), c.get("PS")])
    res["calls"] = calls
    res["other"] = [sim.read_vcf_text(out)[1][i][2][1] for i in range(len(rout))] if case.get("other") else None
    return res


def check_vcfio(ctx, case, batch):
    impl = run_vcfio(ctx, case)
    k = case["ploidy"]
    cfg = model_cfg(k, case["mav"], case["only_snvs"])
    recs = case["recs"]
    acc = reader_accepts(recs, k, case["mav"], case["only_snvs"])
    # oracle (F50): a record that is not a row of the variant table is passed through: unphased, same alleles
    if acc is not None:
        for i, r in enumerate(recs):
            if i in acc:
                continue
            al, ph, ps = impl["calls"][i]
            if ph or sorted(al) != sorted(r["gt"] or []):
                ctx.fail(f"record {i} at {r['pos'] + 1} ({r['ref']}>{','.join(r['alts']) or '.'}, GT {r['gt']}) is skipped by the "
                         f"VCF reader but the writer turned its call into {al} phased={ph} PS={ps}", case,
                         key="cli-skipped-record-phased")
                break
    if impl["other"] is not None:
        for i, txt in enumerate(impl["other"]):
            want = ("/".join(["0"] * (k - 1) + ["1"]) if recs[i]["alts"] else "/".join(["0"] * k)) + ":."
            if txt != want:
                ctx.fail(f"record {i}: call of a sample that is not being phased changed {want} -> {txt}", case,
                         key="cli-other-sample")
                break
    ctx.dist("vcfio_table", impl["table"] if isinstance(impl["table"], str) else "ok")
    batch.append(({"op": "c15.readtable", "cfg": cfg, "recs": model_recs(recs)}, ("readtable", case, impl["table"])))
    batch.append(({"op": "c15.write", "cfg": cfg, "repaired": True, "recs": model_recs(recs),
                   "cols": [p for p, _ in sorted(case["phases"])], "haps": [ph for _, ph in sorted(case["phases"])],
                   "comps": case["comps"]}, ("write", case, impl["calls"])))
    return acc is not None and len(acc) < len(recs) and any(c[1] for c in impl["calls"])


def after_readtable(ctx, req, meta, ans):
    _, case, impl = meta
    model = norm_rows(ans["ok"]) if "ok" in ans else ans.get("error")
    if model != impl:
        ctx.disagree("c15.readtable", case, impl, model)


def after_write(ctx, req, meta, ans):
    _, case, impl = meta
    model = [[c[0], c[1], c[2]] for c in ans.get("calls", [])]
    if model != impl:
        diff = [i for i, (a, b) in enumerate(zip(model, impl)) if a != b][:3]
        ctx.disagree("c15.write", case, {"first_differences": diff, "calls": impl}, model)


# -- aggregate_results / find_breakpoints / get_optimal_assignments -----------------------------------

def check_agg(ctx, case, batch):
    from whatshap.polyphase import PolyphaseBlockResult, PhaseBreakpoint
    from whatshap.polyphase.algorithm import aggregate_results
    k = case["ploidy"]
    results = [PolyphaseBlockResult(i, [], [], [[0] * n for _ in range(k)], [PhaseBreakpoint(p, h, c) for p, h, c in bps])
               for i, (n, bps) in enumerate(case["blocks"])]
    res = aggregate_results(results, k, set(case["borders"]) if case["borders"] else [])
    got = [[b.position, list(b.haplotypes), f2bits(b.confidence)] for b in res.breakpoints]
    total = sum(n for n, _ in case["blocks"])
    if not got or got[0] != [0, list(range(k)), f2bits(0.0)]:
        ctx.fail(f"aggregate_results: first breakpoint is {got[:1]}, not (0, all haplotypes, 0.0)", case, key="agg-first")
    if any(a[0] > b[0] for a, b in zip(got, got[1:])) or any(b[0] >= total for b in got):
        ctx.fail(f"aggregate_results: breakpoint positions {[b[0] for b in got]} not sorted inside {total} columns", case,
                 key="agg-sorted")
    if [len(h) for h in res.haplotypes] != [total] * k:
        ctx.fail("aggregate_results: haplotype lengths differ from the sum of the block lengths", case, key="agg-length")
    batch.append(({"op": "c15.aggregate", "ploidy": k, "borders": case["borders"],
                   "blocks": [[n, [[p, h, f2bits(c)] for p, h, c in bps]] for n, bps in case["blocks"]]},
                  ("exact", case, {"bps": got, "total": total})))
    return len(case["blocks"]) >= 2


def check_threads(ctx, case, batch):
    from whatshap.polyphase.reorder import find_breakpoints
    th = case["threads"]
    if not th:
        return False
    got = [[b.position, list(b.haplotypes), f2bits(b.confidence)] for b in find_breakpoints([t[:] for t in th])]
    if any(not (1 <= b[0] < len(th)) for b in got) or any(a[0] >= b[0] for a, b in zip(got, got[1:])):
        ctx.fail(f"find_breakpoints: positions {[b[0] for b in got]} for {len(th)} rows", case, key="findbps-range")
    batch.append(({"op": "c15.integrate", "threads": th, "subs": []}, ("exact", case, {"find": got, "out": got})))
    return len(got) >= 1


def check_assign(ctx, case, batch):
    from whatshap.polyphase import PhaseBreakpoint
    from whatshap.polyphase.reorder import get_optimal_assignments
    k = case["ploidy"]
    bps = [PhaseBreakpoint(i + 1, b["haps"], 0.0) for i, b in enumerate(case["bps"])]
    lllh = [{tuple(key): v for key, v in b["llh"]} for b in case["bps"]]
    got = get_optimal_assignments(bps, lllh, k, None)
    for i, a in enumerate(got):
        if sorted(a) != list(range(k)):
            ctx.fail(f"block {i}: assignment {a} is not a permutation of range({k})", case, key="reorder-not-a-permutation")
    choices = [list(max(d, key=d.get)) for d in lllh]
    batch.append(({"op": "c15.assignments", "ploidy": k,
                   "lllh": [[[list(key), f2bits(v)] for key, v in d.items()] for d in lllh]},
                  ("exact", case, {"choices": choices, "assignments": [list(a) for a in got]})))
    return len(bps) >= 2


# ------------------------------------------------------------------------------------------------
# the real run_polyphase, in-process, with recorders around the functions the model covers
# ------------------------------------------------------------------------------------------------

class Recorder:
    """wraps (never replaces) functions of whatshap.cli.polyphase / whatshap.polyphase.* while run_polyphase runs
    single-threaded in this process; every wrapper calls the real function and notes arguments and result"""

    def __init__(self):
        self.samples = []      # one dict per (chromosome, sample) for which the BAM reader was asked
        self.solves = []       # every solve_polyphase_instance call (top level and sub-instances), in call order
        self.stack = []
        self.saved = []

    def patch(self, mod, name, fn):
        self.saved.append((mod, name, getattr(mod, name)))
        setattr(mod, name, fn)

    def __enter__(self):
        import whatshap.cli.polyphase as cp
        import whatshap.polyphase.algorithm as alg
        import whatshap.polyphase.threading as thr
        import whatshap.polyphase.reorder as reo
        rec = self
        real_read = cp.PhasedInputReader.read

        def read(self_, chromosome, variants, sample, *a, **kw):
            rs, ids = real_read(self_, chromosome, variants, sample, *a, **kw)
            rec.samples.append({"chrom": chromosome, "sample": sample, "asked": [v.position for v in variants],
                                "reads": [[[v.position, v.allele] for v in r] for r in rs]})
            return rs, ids
        self.patch(cp.PhasedInputReader, "read", read)

        real_psi = cp.phase_single_individual

        def psi(readset, table, sample, param, output, timers):
            cur = rec.samples[-1]
            cur["table"] = [[v.position, sorted(g.as_vector())] for v, g in zip(table.variants, table.genotypes_of(sample))]
            cur["top"] = len(rec.solves)
            comps, hcomps, sr = real_psi(readset, table, sample, param, output, timers)
            cur["comps"] = sorted([int(a), int(b)] for a, b in comps.items())
            cur["hcomps"] = sorted([int(a), [int(x) for x in b]] for a, b in hcomps.items())
            cur["superreads"] = [[[v.position, v.allele] for v in r] for r in sr]
            return comps, hcomps, sr
        self.patch(cp, "phase_single_individual", psi)

        real_cuts = cp.compute_cut_positions

        def cuts(breakpoints, ploidy, B):
            r = real_cuts(breakpoints, ploidy, B)
            rec.samples[-1]["cuts"] = {"bps": [[b.position, list(b.haplotypes), f2bits(b.confidence)] for b in breakpoints],
                                       "ploidy": ploidy, "B": B, "cuts": list(r[0]), "hap_cuts": [list(h) for h in r[1]]}
            return r
        self.patch(cp, "compute_cut_positions", cuts)

        real_solve = alg.solve_polyphase_instance

        def solve(allele_matrix, genotype_list, param, timers, partial_phasing=None, quiet=False):
            e = {"cols": [int(p) for p in allele_matrix.getPositions()], "nreads": len(allele_matrix),
                 "genotypes": [dict_items(g) for g in genotype_list], "gl_ids": [id(g) for g in genotype_list],
                 "ploidy": param.ploidy, "B": param.block_cut_sensitivity, "blocks": [], "depth": len(rec.stack),
                 "prephasing": partial_phasing is not None}
            rec.solves.append(e)
            rec.stack.append(e)
            try:
                res = real_solve(allele_matrix, genotype_list, param, timers, partial_phasing, quiet)
            finally:
                rec.stack.pop()
            e["haps"] = [list(h) for h in res.haplotypes]
            e["bps"] = [[b.position, list(b.haplotypes), f2bits(b.confidence)] for b in res.breakpoints]
            return res
        self.patch(alg, "solve_polyphase_instance", solve)
        self.patch(cp, "solve_polyphase_instance", solve)

        real_cbs = alg.compute_block_starts

        def cbs(am, ploidy, single_linkage=False):
            r = real_cbs(am, ploidy, single_linkage=single_linkage)
            rec.stack[-1]["blockstarts"] = {"reads": am_reads(am), "num_vars": am.getNumPositions(), "ploidy": ploidy,
                                            "single_linkage": bool(single_linkage), "starts": list(r)}
            return r
        self.patch(alg, "compute_block_starts", cbs)

        real_psb = alg.phase_single_block

        def psb(block_id, allele_matrix, genotypes, prephasing, param, timers, quiet=False):
            b = {"id": block_id, "gt_ids": [id(g) for g in genotypes], "genotypes": [dict_items(g) for g in genotypes],
                 "nvars": allele_matrix.getNumPositions(), "subs": []}
            rec.stack[-1]["blocks"].append(b)
            rec.stack[-1]["cur"] = b
            res = real_psb(block_id, allele_matrix, genotypes, prephasing, param, timers, quiet)
            b["haps"] = [list(h) for h in res.haplotypes]
            b["bps"] = [[x.position, list(x.haplotypes), f2bits(x.confidence)] for x in res.breakpoints]
            return res
        self.patch(alg, "phase_single_block", psb)

        real_force = thr.force_genotypes

        def force(path, haplotypes, genotypes, cov_map, allele_depths, error_rate):
            before = [list(h) for h in haplotypes]
            gts = [{int(a): int(n) for a, n in g.items()} for g in genotypes]
            out = real_force(path, haplotypes, genotypes, cov_map, allele_depths, error_rate)
            rec.stack[-1]["cur"]["force"] = {"before": before, "gts": gts, "after": [list(h) for h in out]}
            return out
        self.patch(thr, "force_genotypes", force)

        real_rt = alg.run_threading

        def rt(*a, **kw):
            threads, haps = real_rt(*a, **kw)
            rec.stack[-1]["cur"]["threaded"] = {"threads": [list(t) for t in threads], "haps": [list(h) for h in haps]}
            return threads, haps
        self.patch(alg, "run_threading", rt)

        real_fs = alg.find_subinstances

        def fs(allele_matrix, clustering, threads, haplotypes):
            r = real_fs(allele_matrix, clustering, threads, haplotypes)
            rec.stack[-1]["cur"]["subinst"] = [{"cid": int(cid), "ts": list(ts),
                                                "snps": [allele_matrix.globalToLocal(g) for g in subm.getPositions()]}
                                               for cid, ts, subm in r]
            rec.stack[-1]["cur"]["find"] = {
                "threads": [list(t) for t in threads], "haps": [list(h) for h in haplotypes],
                "creads": [[int(cid), [[int(p) for p, _ in allele_matrix.getRead(x)] for x in clustering[cid]]]
                           for cid in sorted({c for t in threads for c in t}) if cid < len(clustering)]}
            rec.stack[-1]["cur"]["first_sub_solve"] = len(rec.solves)
            return r
        self.patch(alg, "find_subinstances", fs)

        real_isr = alg.integrate_sub_results

        def isr(allele_matrix, sub_instances, sub_results, threads, haplotypes):
            cur = rec.stack[-1]["cur"]
            cur["int_threads"] = [list(t) for t in threads]
            cur["int_before"] = [list(h) for h in haplotypes]
            cur["sub_results"] = [{"haps": [list(h) for h in r.haplotypes],
                                   "bps": [[b.position, list(b.haplotypes), f2bits(b.confidence)] for b in r.breakpoints]}
                                  for r in sub_results]
            bps = real_isr(allele_matrix, sub_instances, sub_results, threads, haplotypes)
            cur["int_after"] = [list(h) for h in haplotypes]
            cur["int_bps"] = [[b.position, list(b.haplotypes), f2bits(b.confidence)] for b in bps]
            return bps
        self.patch(alg, "integrate_sub_results", isr)

        real_goa = reo.get_optimal_assignments

        def goa(breakpoints, lllh, ploidy, affiliations):
            r = real_goa(breakpoints, lllh, ploidy, affiliations)
            rec.stack[-1]["cur"]["assign"] = {"ploidy": ploidy, "ilp": bool(affiliations) and bool(breakpoints),
                                              "lllh": [[[list(k), f2bits(v)] for k, v in d.items()] for d in lllh],
                                              "perms": [list(p) for p in r]}
            return r
        self.patch(reo, "get_optimal_assignments", goa)

        real_pb = reo.permute_blocks

        def pb(threads, haplotypes, breakpoints, lllh, perms):
            cur = rec.stack[-1]["cur"]
            cur["perm_before"] = [list(h) for h in haplotypes]
            cur["perm_bps"] = [b.position for b in breakpoints]
            real_pb(threads, haplotypes, breakpoints, lllh, perms)
            cur["perm_after"] = [list(h) for h in haplotypes]
        self.patch(reo, "permute_blocks", pb)

        real_agg = alg.aggregate_results

        def agg(results, ploidy, borders):
            r = real_agg(results, ploidy, borders)
            rec.stack[-1]["agg"] = {"ploidy": ploidy, "borders": sorted(borders) if borders else [],
                                    "blocks": [[len(x.haplotypes[0]), [[b.position, list(b.haplotypes), f2bits(b.confidence)]
                                                                      for b in x.breakpoints]] for x in results],
                                    "bps": [[b.position, list(b.haplotypes), f2bits(b.confidence)] for b in r.breakpoints],
                                    "total": len(r.haplotypes[0]) if r.haplotypes else 0}
            return r
        self.patch(alg, "aggregate_results", agg)
        return self

    def __exit__(self, *exc):
        for mod, name, fn in reversed(self.saved):
            setattr(mod, name, fn)
        return False


def cols_of(haps, n):
    return [[h[p] for h in haps] for p in range(n)]


def run_pipe(ctx, case, sc, vcf, bam, fa, d, batch):
    """run the real run_polyphase in this process (threads=1) with the recorders; compare every recorded stage with
    the model and the written VCF with the writer model"""
    import io, contextlib, logging
    from whatshap.cli.polyphase import run_polyphase
    from whatshap.vcf import VcfReader
    o = case["opts"]
    k = o["ploidy"]
    out = os.path.join(d, "out_ip.vcf")
    mav, only_snvs, m = not o.get("no_mav"), bool(o.get("only_snvs")), o.get("min_overlap", 2)
    kw = dict(phase_input_files=[bam], variant_file=vcf, ploidy=k, reference=fa if o.get("reference") else None,
              output=out, samples=[o["only_sample"]] if o.get("only_sample") else [], block_cut_sensitivity=o["B"],
              threads=1, use_prephasing=bool(o.get("prephasing")), include_haploid_sets=bool(o.get("haploid_sets")),
              mav=mav, only_snvs=only_snvs, min_overlap=m, write_command_line_header=False)
    logging.getLogger("whatshap").setLevel(logging.ERROR)
    with Recorder() as rec, contextlib.redirect_stdout(io.StringIO()):
        run_polyphase(**kw)
    cfg = model_cfg(k, mav, only_snvs, m)
    # the reader's tables and the records as the model sees them
    with contextlib.redirect_stdout(io.StringIO()):
        with VcfReader(vcf, only_snvs=only_snvs, phases=True, genotype_likelihoods=False, ploidy=k, mav=mav) as vr:
            tables = {t.chromosome: t for t in vr}
    _, samples, rin = sim.read_vcf(vcf)
    _, _, rout = sim.read_vcf(out)
    text_in, text_out = sim.read_vcf_text(vcf)[1], sim.read_vcf_text(out)[1]
    phased_samples = [o["only_sample"]] if o.get("only_sample") else samples
    by_key = {(e["chrom"], e["sample"]): e for e in rec.samples}
    n_checked = 0
    for chrom in dict.fromkeys(r["chrom"] for r in rin):
        idx = [i for i, r in enumerate(rin) if r["chrom"] == chrom]
        for si, s in enumerate(samples):
            recs = []
            for i in idx:
                g = rin[i]["calls"][si].get("GT")
                al = None if (not g or g[0] is None or any(a is None for a in g[0])) else list(g[0])
                recs.append({"pos": rin[i]["pos"], "ref": rin[i]["ref"], "alts": rin[i]["alts"], "gt": al,
                             "phased": bool(g and g[1])})
            mrecs = model_recs(recs)
            t = tables.get(chrom)
            table = [[v.position, sorted(g.as_vector())] for v, g in zip(t.variants, t.genotypes_of(s))] if t else []
            sub = {"chrom": chrom, "sample": s}
            batch.append(({"op": "c15.readtable", "cfg": cfg, "recs": mrecs}, ("readtable", dict(case, where=sub), table)))
            got = [[[] if (not (g := rout[i]["calls"][si].get("GT")) or g[0] is None or any(a is None for a in g[0]))
                    else list(g[0]), bool(g and g[1]), rout[i]["calls"][si].get("PS")] for i in idx]
            e = by_key.get((chrom, s))
            if s not in phased_samples or e is None or "comps" not in e:
                # sample not phased on this chromosome (not requested, < 2 heterozygous variants, or no read left):
                # its calls are written as they were read
                for i in idx:
                    if text_in[i][2][si] != text_out[i][2][si] and [x for x in (text_in[i][1] or "").split(":")] == \
                            [x for x in (text_out[i][1] or "").split(":")]:
                        ctx.fail(f"{chrom}:{rin[i]['pos'] + 1} {s}: sample is not phased on this chromosome but its call changed "
                                 f"{text_in[i][2][si]} -> {text_out[i][2][si]}", case, key="cli-unphased-sample-changed")
                        break
                if s in phased_samples:
                    # the model must agree that the solver is not reached
                    table_rows = [[p, 1, True, True, g, False] for p, g in table]
                    reads = e["reads"] if e else []
                    batch.append(({"op": "c15.glue", "cfg": cfg, "table": table_rows, "reads": reads},
                                  ("gluekind", dict(case, where=sub), "no-reads" if e else "few-variants")))
                continue
            n_checked += 1
            # reader contract (hypothesis of genotype_list_aligned): alleles only at the variants asked for
            asked = set(e["asked"])
            if any(p not in asked for r in e["reads"] for p, _ in r):
                ctx.fail(f"{chrom} {s}: the BAM reader returned a read with a position it was not asked for", case,
                         key="reader-contract")
            top = rec.solves[e["top"]]
            table_rows = [[p, 1, True, True, g, False] for p, g in table]
            impl = {"kind": "solve", "het": [[p, g] for p, g in table if len(set(g)) > 1],
                    "cols": top["cols"], "rows": e["table"], "genotypes": top["genotypes"], "nkept": top["nreads"]}
            if sorted(asked) != [p for p, _ in impl["het"]]:
                ctx.fail(f"{chrom} {s}: the BAM reader was asked for {sorted(asked)}, heterozygous rows are "
                         f"{[p for p, _ in impl['het']]}", case, key="glue-het-rows")
            batch.append(({"op": "c15.glue", "cfg": cfg, "table": table_rows, "reads": e["reads"]},
                          ("glue", dict(case, where=sub), impl)))
            # alignment oracle
            tb = dict((p, g) for p, g in table)
            if len(top["genotypes"]) != len(top["cols"]) or any(
                    sorted(a for a, n in gl for _ in range(n)) != tb.get(p) for p, gl in zip(top["cols"], top["genotypes"])):
                ctx.fail(f"{chrom} {s}: genotype list {top['genotypes']} is not aligned with the allele-matrix columns "
                         f"{top['cols']} (input genotypes {[tb.get(p) for p in top['cols']]})", case, key="glue-misaligned")
            # cuts, components, super-reads (existing ops) on the recorded values
            cu = e["cuts"]
            batch.append(({"op": "c15.cuts", "ploidy": cu["ploidy"], "B": cu["B"], "bps": cu["bps"]},
                          ("cuts", dict(case, where=sub), {"cuts": cu["cuts"], "hap_cuts": cu["hap_cuts"]})))
            if cu["bps"] != top["bps"]:
                ctx.fail(f"{chrom} {s}: compute_cut_positions got other breakpoints than the solver returned", case,
                         key="glue-breakpoints")
            ncol = len(top["cols"])
            hcols = cols_of(top["haps"], ncol)
            batch.append(({"op": "c15.components", "acc": top["cols"], "cuts": cu["cuts"], "cols": hcols},
                          ("psi", dict(case, acc=top["cols"], where=sub),
                           {"dict": e["comps"], "phased": sorted({p for r in e["superreads"] for p, _ in r})})))
            batch.append(({"op": "c15.haploid", "acc": top["cols"], "cuts": cu["cuts"], "hap_cuts": cu["hap_cuts"],
                           "num_vars": ncol}, ("plain", dict(case, where=sub), e["hcomps"])))
            check_haploid(ctx, dict(case, where=sub), top["cols"], k, dict(map(tuple, e["comps"])),
                          {a: b for a, b in e["hcomps"]})
            if o.get("haploid_sets") and not o.get("prephasing"):
                hd = {a: b for a, b in e["hcomps"]}
                calls, raws = [], []
                for n_, i in enumerate(idx):
                    fmt = (text_out[i][1] or "").split(":")
                    vals = text_out[i][2][si].split(":")
                    raw = "absent" if "HS" not in fmt else (vals[fmt.index("HS")] if fmt.index("HS") < len(vals) else ".")
                    if raw == "":
                        ctx.fail(f"{chrom}:{rin[i]['pos'] + 1} {s}: empty HS value in {text_out[i][2][si]!r}", case,
                                 key="F24-hs-empty-value")
                    raws.append(raw if raw in ("absent", ".", "") else [int(x) for x in raw.split(",")])
                    calls.append(["HS" in fmt, bool(got[n_][1]), hd.get(rin[i]["pos"])])
                batch.append(({"op": "c15.hs", "repaired": True, "ploidy": k, "calls": calls},
                              ("hs", dict(case, where=sub), raws)))
            # the writer
            batch.append(({"op": "c15.write", "cfg": cfg, "repaired": True, "recs": mrecs, "cols": top["cols"],
                           "haps": hcols, "comps": e["comps"]}, ("write", dict(case, where=sub), got)))
    # every solve_polyphase_instance call: blocks, slices, block internals, aggregation
    for e in rec.solves:
        check_solve_record(ctx, case, e, rec, batch)
    ctx.dist("pipe_samples_checked", n_checked)
    ctx.dist("pipe_sub_instances", min(10, sum(1 for e in rec.solves if e["depth"] > 0)))
    return n_checked


def check_solve_record(ctx, case, e, rec, batch):
    k, n = e["ploidy"], len(e["cols"])
    where = {"depth": e["depth"], "cols": e["cols"][:3]}
    bs = e.get("blockstarts")
    if bs is None:
        return
    # block starts + slices: block b must get genotype_list[start:end] (object identity)
    pos_of = {gid: i for i, gid in enumerate(e["gl_ids"])}
    slices = [[pos_of.get(g, -1) for g in b["gt_ids"]] for b in sorted(e["blocks"], key=lambda b: b["id"])]
    batch.append(({"op": "c15.blockstarts", "reads": bs["reads"], "num_vars": bs["num_vars"], "ploidy": bs["ploidy"],
                   "single_linkage": bs["single_linkage"], "genotypes": [[i] for i in range(len(e["gl_ids"]))]},
                  ("exact", dict(case, where=where), {"starts": bs["starts"], "slices": [[[i] for i in sl] for sl in slices]})))
    if len(e["genotypes"]) != n:
        ctx.fail(f"solve_polyphase_instance: {len(e['genotypes'])} genotypes for {n} columns (depth {e['depth']})", case,
                 key="glue-misaligned")
    ag = e.get("agg")
    if ag:
        batch.append(({"op": "c15.aggregate", "ploidy": ag["ploidy"], "borders": ag["borders"], "blocks": ag["blocks"]},
                      ("exact", dict(case, where=where), {"bps": ag["bps"], "total": ag["total"]})))
        if ag["total"] != n:
            ctx.fail(f"aggregate_results returned {ag['total']} columns for {n} allele-matrix columns", case, key="agg-length")
    for b in e["blocks"]:
        nv = b["nvars"]
        if nv < 2:
            gv = sorted(a for a, c in b["genotypes"][0] for _ in range(c))
            batch.append(({"op": "c15.singleton", "gv": gv}, ("single", dict(case, where=where), [h[0] for h in b["haps"]])))
            continue
        f = b.get("force")
        if f:
            kk = len(f["before"])
            for p in range(len(f["gts"])):
                col = [f["before"][h][p] for h in range(kk)]; oc = [f["after"][h][p] for h in range(kk)]
                gv = sorted(a for a, c in f["gts"][p].items() for _ in range(c))
                if -1 not in col and sorted(oc) != gv:
                    ctx.fail(f"force_genotypes (in the pipeline) turned column {col} into {oc}, genotype is {gv}", case,
                             key=F8_KEY if oc == col else "force-multiset")
                batch.append(({"op": "c15.force", "col": col, "gv": gv, "out": oc}, ("force", dict(case, where=where), p)))
        if "int_before" in b:
            kk = len(b["int_before"])
            subs = b.get("subinst", [])
            # the recursive solve calls made for the sub-instances, in order
            sub_solves = [x for x in rec.solves[b["first_sub_solve"]:] if x["depth"] == e["depth"] + 1][:len(subs)]
            for p in range(nv):
                col = [b["int_before"][h][p] for h in range(kk)]
                steps, want_sub = [], []
                for si, (su, sr) in enumerate(zip(subs, b["sub_results"])):
                    if p in su["snps"]:
                        i = su["snps"].index(p)
                        steps.append([su["ts"], [sr["haps"][j][i] for j in range(len(su["ts"]))]])
                        want_sub.append(sorted(a for a, c in sub_solves[si]["genotypes"][i] for _ in range(c))
                                        if si < len(sub_solves) else None)
                if steps:
                    batch.append(({"op": "c15.writeback", "col": col, "steps": steps},
                                  ("writeback", dict(case, where=where),
                                   {"out": [b["int_after"][h][p] for h in range(kk)], "subgenotypes": want_sub})))
            batch.append(({"op": "c15.integrate", "threads": b["int_threads"],
                           "subs": [[su["snps"], su["ts"], sr["bps"]] for su, sr in zip(subs, b["sub_results"])]},
                          ("exact", dict(case, where=where), {"out": b["int_bps"]})))
            if any(not (0 <= x[0] < nv) for x in b["int_bps"]) or any(a[0] >= c[0] for a, c in zip(b["int_bps"], b["int_bps"][1:])):
                ctx.fail(f"integrate_sub_results: breakpoint positions {[x[0] for x in b['int_bps']]} in a block of {nv}", case,
                         key="block-breakpoints")
        fd = b.get("find")
        if fd:
            kk = len(fd["haps"])
            batch.append(({"op": "c15.subinstances", "threads": fd["threads"], "cols": cols_of(fd["haps"], nv), "ploidy": kk,
                           "creads": fd["creads"]},
                          ("subinst", dict(case, where=where), sorted([su["cid"], su["ts"], su["snps"]] for su in b["subinst"]))))
            cells = set()
            for su in b["subinst"]:
                for p in su["snps"]:
                    for t in su["ts"]:
                        if (p, t) in cells or not (0 <= p < nv and 0 <= t < kk):
                            ctx.fail(f"sub-instances {b['subinst']} overlap or leave the block ({nv} x {kk})", case,
                                     key="subinst-overlap")
                        cells.add((p, t))
        if fd and "int_before" in b:
            batch.append(({"op": "c15.integratehaps", "cols": cols_of(b["int_before"], nv),
                           "pairs": [[su["ts"], su["snps"], cols_of(sr["haps"], len(su["snps"]))]
                                     for su, sr in zip(b["subinst"], b["sub_results"])]},
                          ("plain", dict(case, where=where), cols_of(b["int_after"], nv))))
        a = b.get("assign")
        if fd and f and a and "perm_after" in b and "int_before" in b:
            # replay of the whole block through the model's stage order, every heuristic = what the real run did
            kk = len(f["before"])
            forced, amb = {}, False
            for p in range(nv):
                col = tuple(f["before"][h][p] for h in range(kk)); oc = [f["after"][h][p] for h in range(kk)]
                gv = tuple(sorted(a_ for a_, c in f["gts"][p].items() for _ in range(c)))
                if forced.setdefault((col, gv), oc) != oc:
                    amb = True
            subsolves = {}
            for su, sr in zip(b["subinst"], b["sub_results"]):
                key = (len(su["ts"]), tuple(tuple(b["int_before"][h][p] for h in su["ts"]) for p in su["snps"]))
                val = cols_of(sr["haps"], len(su["snps"]))
                if subsolves.setdefault(key, val) != val:
                    amb = True
            if not amb:
                batch.append(({"op": "c15.block", "ploidy": kk,
                               "gts": [sorted(a_ for a_, c in g.items() for _ in range(c)) for g in f["gts"]],
                               "threads": fd["threads"], "cols0": cols_of(f["before"], nv),
                               "forced": [[list(c), list(g), o_] for (c, g), o_ in forced.items()], "creads": fd["creads"],
                               "subsolves": [[k_, [list(x) for x in g], v] for (k_, g), v in subsolves.items()],
                               "bps": b["perm_bps"], "perms": a["perms"]},
                              ("plain", dict(case, where=where), cols_of(b["perm_after"], nv))))
                ctx.dist("pipe_block_replays", 1)
        if a:
            for pm in a["perms"]:
                if sorted(pm) != list(range(a["ploidy"])):
                    ctx.fail(f"get_optimal_assignments (in the pipeline): {pm} is not a permutation", case,
                             key="reorder-not-a-permutation")
            if not a["ilp"] and a["lllh"]:
                batch.append(({"op": "c15.assignments", "ploidy": a["ploidy"], "lllh": a["lllh"]},
                              ("exact", dict(case, where=where), {"assignments": a["perms"]})))
        if "perm_before" in b and a:
            kk = len(b["perm_before"])
            batch.append(({"op": "c15.permute", "cols": cols_of(b["perm_before"], nv), "bps": b["perm_bps"], "perms": a["perms"]},
                          ("permute", dict(case, where=where), cols_of(b["perm_after"], nv))))



def check_haploid(ctx, case, acc, k, comps, hcomps):
    """oracle for the haploid sets (independent of the model): per haplotype the HS names over the accessible positions
    are intervals named by their first position, and no HS interval crosses a PS border"""
    rows = [hcomps.get(p) for p in acc]
    if any(r is None or len(r) != k for r in rows):
        if any(comps.get(p) is not None and (r is None or len(r) != k) for p, r in zip(acc, rows)):
            ctx.fail(f"accessible position with a component but without {k} haploid components: {rows}", case,
                     key="hs-missing")
        return
    for j in range(k):
        names = [r[j] for r in rows]
        seen = set()
        for i, nm in enumerate(names):
            if i == 0 or names[i - 1] != nm:
                if nm in seen:
                    ctx.fail(f"haploid set {nm} of haplotype {j} is not contiguous: {names}", case, key="hs-not-interval")
                if nm != acc[i]:
                    ctx.fail(f"haploid set of haplotype {j} starting at {acc[i]} is named {nm}", case, key="hs-name")
                seen.add(nm)
            if i > 0 and names[i - 1] != nm and comps.get(acc[i]) == comps.get(acc[i - 1]):
                # (a haploid set may span several phase sets: a cut enters hap_cuts[h] only for the haplotypes of its
                # breakpoint; the converse is what holds)
                ctx.fail(f"haploid set border of haplotype {j} at {acc[i]} inside the phase set {comps.get(acc[i])}", case,
                         key="hs-border-inside-ps")


def after_plain(ctx, req, meta, ans):
    _, case, impl = meta
    if ans != impl:
        ctx.disagree(req["op"], case, impl, ans)


def gen_subinst(rng):
    k = rng.choice([2, 3, 3, 4, 4, 5])
    nv = rng.randrange(2, 9)
    ncl = rng.randrange(1, 5)
    row = [rng.randrange(ncl) for _ in range(k)]
    if rng.random() < 0.5:      # collapsed start: all threads on at most two clusters
        a_, b_ = rng.randrange(ncl), rng.randrange(ncl)
        row = [rng.choice([a_, a_, b_]) for _ in range(k)]
    threads = []
    for p in range(nv):
        if rng.random() < 0.3:
            row = row[:]
            row[rng.randrange(k)] = rng.randrange(ncl)
        threads.append(row[:])
    na = rng.choice([2, 2, 3])
    haps = [[(rng.randrange(na) if rng.random() < 0.97 else -1) for _ in range(nv)] for _ in range(k)]
    if rng.random() < 0.3:       # long collapsed stretches
        for h in range(1, k):
            if rng.random() < 0.5:
                haps[h] = haps[0][:]
    reads = []
    for i in range(rng.randrange(0, 9)):
        a = rng.randrange(nv); b = rng.randrange(a, nv)
        cols = [c for c in range(a, b + 1) if rng.random() < 0.8] or [a]
        reads.append([rng.choice(row) if rng.random() < 0.7 else rng.randrange(ncl), [[c, rng.randrange(na)] for c in cols]])
    return {"kind": "subinst", "ploidy": k, "threads": threads, "haps": haps, "reads": reads, "ncl": ncl,
            "seed": rng.randrange(1 << 30)}


def check_subinst(ctx, case, batch):
    import random
    from whatshap.core import Read, ReadSet
    from whatshap.polyphase import PolyphaseResult
    from whatshap.polyphase.solver import AlleleMatrix
    from whatshap.polyphase.reorder import find_subinstances, integrate_sub_results
    k, threads, ncl = case["ploidy"], case["threads"], case["ncl"]
    nv = len(threads)
    rs = ReadSet()
    clustering = [[] for _ in range(ncl + 1)]
    full = Read("full", 60, 0, 0)
    for c in range(nv):
        full.add_variant(10 * (c + 1), 0, 30)
    rs.add(full)
    clustering[ncl].append(0)
    for i, (cid, vs) in enumerate(case["reads"]):
        r = Read(f"r{i}", 60, 0, 0)
        for c, a in vs:
            r.add_variant(10 * (c + 1), a, 30)
        rs.add(r)
        clustering[cid].append(i + 1)
    am = AlleleMatrix(rs)
    haps = [h[:] for h in case["haps"]]
    subs = find_subinstances(am, clustering, [t[:] for t in threads], haps)
    real = [[int(cid), [int(t) for t in ts], [am.globalToLocal(g) for g in subm.getPositions()]] for cid, ts, subm in subs]
    creads = [[cid, [[int(p) for p, _ in am.getRead(r)] for r in clustering[cid]]] for cid in range(ncl)]
    cols = cols_of(haps, nv)
    # oracles
    cells = set()
    for cid, ts, snps in real:
        ok = snps == sorted(set(snps)) and all(0 <= p < nv for p in snps) and ts and all(
            ts == [t for t in range(k) if threads[p][t] == cid] for p in snps)
        if not ok:
            ctx.fail(f"sub-instance {(cid, ts, snps)} is not (cluster, its threads, positions inside the block)", case,
                     key="subinst-shape")
        for p in snps:
            for t in ts:
                if (p, t) in cells:
                    ctx.fail(f"two sub-instances both contain haplotype {t} at position {p}: {real}", case,
                             key="subinst-overlap")
                cells.add((p, t))
    batch.append(({"op": "c15.subinstances", "threads": threads, "cols": cols, "ploidy": k, "creads": creads},
                  ("subinst", case, sorted(real))))
    # sub-results that obey the sub-genotypes, written back by the real integrate_sub_results
    r2 = random.Random(case["seed"])
    results, pairs = [], []
    for cid, ts, snps in real:
        rescols = []
        for p in snps:
            c = [haps[t][p] for t in ts]
            r2.shuffle(c)
            rescols.append(c)
        results.append(PolyphaseResult([], [], [[rc[j] for rc in rescols] for j in range(len(ts))], []))
        pairs.append([ts, snps, rescols])
    after = [h[:] for h in haps]
    integrate_sub_results(am, subs, results, [t[:] for t in threads], after)
    acols = cols_of(after, nv)
    for p in range(nv):
        if sorted(acols[p]) != sorted(cols[p]):
            ctx.fail(f"integrate_sub_results changed the allele multiset of column {p}: {cols[p]} -> {acols[p]}", case,
                     key="integrate-multiset")
            break
    batch.append(({"op": "c15.integratehaps", "cols": cols, "pairs": pairs}, ("plain", case, acols)))
    ctx.dist("subinst_count", min(len(real), 4))
    return len(real) >= 2


def after_subinst(ctx, req, meta, ans):
    _, case, impl = meta
    model = sorted(ans.get("subs", []))
    if model != impl:
        ctx.disagree("c15.subinstances", case, impl, model)

def after_hs(ctx, req, meta, ans):
    _, case, impl = meta
    model = [x if x != "" else "" for x in ans]
    if model != impl:
        ctx.disagree("c15.hs", case, impl, model)


def after_gluekind(ctx, req, meta, ans):
    _, case, impl = meta
    if ans.get("kind") != impl:
        ctx.disagree("c15.glue", case, impl, ans.get("kind"))


def after_single(ctx, req, meta, ans):
    _, case, impl = meta
    if ans != impl:
        ctx.disagree("c15.singleton", case, impl, ans)


def after_writeback(ctx, req, meta, ans):
    _, case, impl = meta
    if ans.get("out") != impl["out"] or not ans.get("disjoint"):
        ctx.disagree("c15.writeback", case, impl, ans)
    for w, m in zip(impl["subgenotypes"], ans.get("subgenotypes", [])):
        if w is not None and w != sorted(m):
            ctx.disagree("c15.writeback", case, impl, ans)
            break

# ------------------------------------------------------------------------------------------------
# CLI
# ------------------------------------------------------------------------------------------------

def gen_cli(rng, thorough=False, scale=1):
    k = rng.choice([2, 3, 3, 4, 4, 4, 5, 6] if thorough else [2, 3, 3, 4, 4, 4, 4, 5, 6])
    big = k >= 5
    two = (not big) and rng.random() < 0.3
    samples = ("S1", "S2") if two else ("S1",)
    nvar = (4, 7) if big else ((6, 14) if not thorough else (6, 18 * scale))
    sc = c15_poly.PolyScenario.generate(
        rng, ploidy=k, n_contigs=2 if rng.random() < 0.25 and not big else 1, n_variants=nvar,
        cov_per_hap=(3, 6) if big else (3, 9), read_len=(50, 220), multi_prob=rng.choice([0.0, 0.2, 0.4]),
        indel_prob=rng.choice([0.0, 0.0, 0.15]), hom_prob=rng.choice([0.1, 0.25]), uneven=True, samples=samples,
        gaps=rng.random() < 0.5, orphans=rng.choice([0, 0, 0, 1, 2]))
    if rng.random() < 0.4:
        # a later chromosome on which nobody can be phased (no reads) but which has records at the SAME positions
        # as an earlier, phased chromosome: per-chromosome state must not leak into it
        import copy
        first = list(sc.contigs)[0]
        sc.contigs["chr9"] = sc.contigs[first]
        sc.variants["chr9"] = copy.deepcopy(sc.variants[first])
        for s_ in sc.samples:
            kk = sc.ploidy[s_]
            sc.haps[f"{s_}|chr9"] = c15_poly.random_haplotypes(rng, sc.variants["chr9"], kk, hom_prob=rng.choice([0.2, 0.7]))
    opts = {"ploidy": k, "B": rng.randrange(0, 6), "prephasing": False, "threads": rng.choice([1, 1, 2]),
            "haploid_sets": rng.random() < 0.2, "only_sample": None, "reference": rng.random() < 0.7}
    if two and rng.random() < 0.5:
        opts["only_sample"] = "S1"
    # options the glue model covers
    if rng.random() < 0.25:
        opts["only_snvs"] = True
    if rng.random() < 0.12:
        opts["no_mav"] = True
    if rng.random() < 0.3:
        opts["min_overlap"] = rng.choice([3, 3, 4])
    if rng.random() < 0.5:
        # records the reader skips (>= 16 ALTs, mixed SNV/indel ALTs under --only-snvs, no ALT) or second records at the
        # position of a phasable variant (F50)
        first = list(sc.contigs)[0]
        opts["extra"] = {first: c15_glue.extra_records(rng, sc.variants[first], k)}
    if rng.random() < 0.3:
        sc.extra_samples = {"X9": k}
    # a few missing genotypes
    for name in sc.contigs:
        for i in range(len(sc.variants[name])):
            if rng.random() < 0.05:
                sc.gt_override[f"S1|{name}|{i}"] = "/".join(["."] * k)
    if rng.random() < 0.6:
        # genotypes the reads contradict in dosage (still heterozygous): force_genotypes has to act
        for s_ in sc.samples:
            for name in sc.contigs:
                hs = sc.haps[f"{s_}|{name}"]
                for i, v in enumerate(sc.variants[name]):
                    col = sorted(h[i] for h in hs)
                    if len(set(col)) > 1 and rng.random() < 0.2 and f"{s_}|{name}|{i}" not in sc.gt_override:
                        new = col[:]
                        new[rng.randrange(k)] = rng.choice(sorted(set(col)))
                        if len(set(new)) > 1 and sorted(new) != col:
                            sc.gt_override[f"{s_}|{name}|{i}"] = "/".join(map(str, sorted(new)))
    if rng.random() < 0.35:
        # pre-phased stretches (true haplotype order) with PS, for --use-prephasing
        opts["prephasing"] = True
        pre = {}
        for name in sc.contigs:
            if name == "chr9":
                continue   # the read-less chromosome stays unphased in the input (its calls are passed through)
            nv = len(sc.variants[name])
            i = 0
            while i < nv:
                L = rng.randrange(2, 5)
                if rng.random() < 0.6:
                    for j in range(i, min(nv, i + L)):
                        pre[f"S1|{name}|{j}"] = sc.variants[name][i]["pos"] + 1
                i += L + rng.randrange(0, 2)
        opts["pre"] = pre
    return {"kind": "cli", "scenario": sc.as_case(), "opts": opts}


def gen_f8(rng, depth=None):
    """targeted search for F8 through the CLI: a cluster of >= 249 identical reads per haplotype and one
    genotype that the reads contradict (truly homozygous site called heterozygous)"""
    depth = depth or rng.choice([255, 270, 300])
    k = 2
    seq = sim.random_seq(rng, 120)
    vs = []
    for p in (30, 50, 70, 90)[:rng.choice([3, 4])]:
        ref = seq[p]
        vs.append({"pos": p, "ref": ref, "alts": [rng.choice([b for b in "ACGT" if b != ref])]})
    haps = [[0, 0, 0, 1][:len(vs)], [1, 0, 1, 0][:len(vs)]]
    reads, rid = [], 0
    for h in range(k):
        for _ in range(depth):
            st, en = rng.randrange(0, 10), 120 - rng.randrange(0, 10)
            s, c, q = c15_poly.poly_read(seq, vs, haps[h], st, en)
            rid += 1
            reads.append({"name": f"r{rid}", "chrom": "chr1", "start": s, "cigar": [list(x) for x in c], "seq": q,
                          "rg": "rg_S1", "mapq": 60})
    sc = c15_poly.PolyScenario({"chr1": seq}, {"chr1": vs}, ["S1"], {"S1": k}, {"S1|chr1": haps}, reads,
                               gt_override={"S1|chr1|1": "0/1"})
    return {"kind": "cli", "scenario": sc.as_case(), "targeted": "F8",
            "opts": {"ploidy": k, "B": 4, "prephasing": False, "threads": 1, "haploid_sets": False, "only_sample": None,
                     "reference": True}}


def _coverage(sc, chrom, pos, sample):
    n = 0
    for r in sc.reads:
        if r["chrom"] != chrom or r["rg"] != "rg_" + sample:
            continue
        end = r["start"] + sum(l for op, l in r["cigar"] if op in (0, 2))
        if r["start"] <= pos < end:
            n += 1
    return n


def insert_extra(sc, recs, extra):
    """insert the additional records (opts["extra"]) into the record list of the scenario"""
    if not extra:
        return recs
    out, idx = [], 0
    ns = len(sc.all_samples())
    for name in sc.contigs:
        nv = len(sc.variants[name])
        ex = extra.get(name, [])
        for i in range(nv):
            r = recs[idx]; idx += 1
            mk = lambda x: {"chrom": name, "pos": r["pos"], "ref": x["ref"], "alts": x["alts"], "format": list(r["format"]),
                            "calls": [dict({kk: "." for kk in r["format"]}, GT=x["gt"]) for _ in range(ns)]}
            out += [mk(x) for x in ex if x["at"] == i and x["before"]]
            out.append(r)
            out += [mk(x) for x in ex if x["at"] == i and not x["before"]]
    return out


def run_cli(ctx, case, batch=None):
    sc = c15_poly.PolyScenario.from_case(case["scenario"])
    o = case["opts"]
    k = o["ploidy"]
    d = os.path.join(ctx.workdir(), "cli")
    shutil.rmtree(d, ignore_errors=True)
    try:
        recs = sc.vcf_records()
        fmt_defs = {}
        if o.get("prephasing"):
            fmt_defs["PS"] = '##FORMAT=<ID=PS,Number=1,Type=Integer,Description="Phase set">'
            idx = 0
            for name in sc.contigs:
                for i in range(len(sc.variants[name])):
                    r = recs[idx]; idx += 1
                    ps = o["pre"].get(f"S1|{name}|{i}")
                    col = [h[i] for h in sc.haps[f"S1|{name}"]]
                    r["format"] = ["GT", "PS"]
                    for c in r["calls"]:
                        c["PS"] = "."
                    if ps is not None and len(set(col)) > 1 and "." not in r["calls"][0]["GT"]:
                        r["calls"][0] = {"GT": "|".join(map(str, col)), "PS": ps}
        recs = insert_extra(sc, recs, o.get("extra"))
        fa, bam, vcf = sc.write(d, records=recs, fmt_defs=fmt_defs)
        out = os.path.join(d, "out.vcf")
        args = ["polyphase", vcf, bam, "--ploidy", k, "-B", o["B"], "-o", out, "--threads", o["threads"]]
        if o.get("reference"):
            args += ["--reference", fa]
        if o.get("prephasing"):
            args.append("--use-prephasing")
        if o.get("haploid_sets"):
            args.append("--include-haploid-sets")
        if o.get("only_sample"):
            args += ["--sample", o["only_sample"]]
        if o.get("only_snvs"):
            args.append("--only-snvs")
        if o.get("no_mav"):
            args.append("--no-mav")
        if o.get("min_overlap"):
            args += ["--min-overlap", o["min_overlap"]]
        rc, so, se, _ = sim.whatshap(args, ctx.overlay, timeout=900)
        ctx.evaluated()
        ctx.dist("cli_ploidy", k); ctx.dist("cli_B", o["B"]); ctx.dist("cli_prephasing", bool(o.get("prephasing")))
        if rc != 0:
            ctx.fail(f"whatshap polyphase failed (rc={rc}): {se.strip().splitlines()[-1] if se.strip() else ''}", case,
                     key="cli-crash")
            return
        _, samples, rin = sim.read_vcf(vcf)
        if os.environ.get("C15_KEEP"):
            os.makedirs(os.environ["C15_KEEP"], exist_ok=True); shutil.copy(out, os.path.join(os.environ["C15_KEEP"], f"{ctx.n_eval}.vcf")); shutil.copy(vcf, os.path.join(os.environ["C15_KEEP"], f"{ctx.n_eval}.in.vcf"))
        _, samples_o, rout = sim.read_vcf(out)
        tin, tout = sim.read_vcf_text(vcf)[1], sim.read_vcf_text(out)[1]
        phased_samples = [o["only_sample"]] if o.get("only_sample") else list(sc.samples) + list(sc.extra_samples)
        n_phased = check_cli_output(ctx, case, sc, samples, rin, rout, tin, tout, phased_samples, samples_o)
        if batch is not None:
            try:
                run_pipe(ctx, case, sc, vcf, bam, fa, d, batch)
            except Exception as e:
                import traceback
                ctx.fail(f"in-process run_polyphase / recorder raised {type(e).__name__}: {e} "
                         f"({traceback.format_exc().splitlines()[-3].strip()})", case, key="pipe-exception")
        if n_phased >= 2:
            ctx.nontrivial(json.dumps(case, sort_keys=True)[:4000])
        ctx.dist("cli_phased_variants", min(n_phased, 20))
        ctx.sample({"cli": args[3:], "phased_variants": n_phased, "records": len(rin)})
    finally:
        shutil.rmtree(d, ignore_errors=True)


def check_cli_output(ctx, case, sc, samples, rin, rout, tin, tout, phased_samples, samples_o):
    def fail(what, key):
        ctx.fail(what, case, key=key)
    if samples != samples_o or len(rin) != len(rout):
        fail(f"records/samples differ: {len(rin)} -> {len(rout)} records, samples {samples} -> {samples_o}", "cli-records")
        return 0
    n_phased = 0
    # F50: a record that does not become a row of the variant table is passed through (never phased, alleles unchanged)
    o_ = case["opts"]
    for chrom in dict.fromkeys(r["chrom"] for r in rin):
        idx = [i for i, r in enumerate(rin) if r["chrom"] == chrom]
        for si, s in enumerate(samples):
            if s not in phased_samples:
                continue
            rr = []
            for i in idx:
                g = rin[i]["calls"][si].get("GT")
                rr.append({"pos": rin[i]["pos"], "ref": rin[i]["ref"], "alts": rin[i]["alts"],
                           "gt": None if (not g or g[0] is None or any(a is None for a in g[0])) else list(g[0])})
            acc = reader_accepts(rr, o_["ploidy"], not o_.get("no_mav"), bool(o_.get("only_snvs")))
            if acc is None:
                continue
            for j, i in enumerate(idx):
                gb = rout[i]["calls"][si].get("GT")
                ga = rin[i]["calls"][si].get("GT")
                same_alleles = gb and ga and sorted(map(str, gb[0] or ())) == sorted(map(str, ga[0] or ()))
                if j not in acc and tin[i][2][si] != tout[i][2][si] and (not same_alleles or gb[1]):
                    fail(f"{chrom}:{rin[i]['pos'] + 1} {s}: record {rin[i]['ref']}>{','.join(rin[i]['alts'])[:30] or '.'} is skipped "
                         f"by the VCF reader but its call {tin[i][2][si]} was written as {tout[i][2][si]}",
                         "cli-skipped-record-phased")
    groups = collections.defaultdict(list)   # (sample, chrom) -> [(pos, ps)] in file order
    het_pos = collections.defaultdict(list)
    for a, b, ta, tb in zip(rin, rout, tin, tout):
        where = f"{a['chrom']}:{a['pos'] + 1}"
        if ta[0] != tb[0]:
            fail(f"{where}: fixed columns changed {ta[0]} -> {tb[0]}", "cli-fixed-columns")
            continue
        keys_a = ta[1].split(":") if ta[1] else []
        keys_b = tb[1].split(":") if tb[1] else []
        if [x for x in keys_b if x not in ("PS", "HS")] != [x for x in keys_a if x not in ("PS", "HS")]:
            fail(f"{where}: FORMAT keys {keys_a} -> {keys_b}", "cli-format-keys")
        for si, s in enumerate(samples):
            ca, cb = a["calls"][si], b["calls"][si]
            ga, gb = ca.get("GT"), cb.get("GT")
            al_a = ga[0] if ga else None
            al_b = gb[0] if gb else None
            # every other FORMAT value is passed through
            va = dict(zip(keys_a, ta[2][si].split(":"))); vb = dict(zip(keys_b, tb[2][si].split(":")))
            for key in keys_a:
                if key not in ("GT", "PS", "HS") and va.get(key) != vb.get(key, "."):
                    fail(f"{where} {s}: FORMAT/{key} {va.get(key)} -> {vb.get(key)}", "cli-format-values")
            if "" in tb[2][si].split(":") and "" not in ta[2][si].split(":"):
                # F24: a call that was well-formed in the input is written with an empty FORMAT value (not even "."):
                # htslib itself warns when reading it back and drops the value
                fail(f"{where} {s}: call {ta[2][si]!r} is written as {tb[2][si]!r} (FORMAT {tb[1]}): empty FORMAT value",
                     "cli-empty-format-value")
            if s not in phased_samples:
                if va.get("GT") != vb.get("GT") or va.get("PS", ".") != vb.get("PS", "."):
                    fail(f"{where} {s}: call of a sample that is not being phased changed {ta[2][si]} -> {tb[2][si]}",
                         "cli-other-sample")
                continue
            if al_a is None or any(x is None for x in al_a):
                if gb and gb[1] and len(al_b) > 1:
                    fail(f"{where} {s}: missing genotype {va.get('GT')} got phased {vb.get('GT')}", "cli-missing-phased")
                if sorted(map(str, al_a or ())) != sorted(map(str, al_b or ())):
                    fail(f"{where} {s}: missing genotype changed {va.get('GT')} -> {vb.get('GT')}", "cli-genotype-changed")
                continue
            if sorted(al_a) != sorted(al_b):
                cov = _coverage(sc, a["chrom"], a["pos"], s) if s in sc.samples else 0
                key = F8_CLI_KEY if cov >= 249 else "cli-genotype-changed"
                fail(f"{where} {s}: genotype {va.get('GT')} came out as {vb.get('GT')} ({cov} reads cover the site)", key)
            het = len(set(al_a)) > 1
            if het:
                het_pos[(s, a["chrom"])].append(a["pos"])
            if gb[1] and len(al_b) > 1:
                if not het:
                    fail(f"{where} {s}: homozygous genotype {va.get('GT')} phased as {vb.get('GT')}", "cli-hom-phased")
                ps = cb.get("PS")
                if ps is None:
                    fail(f"{where} {s}: phased genotype without PS", "cli-no-ps")
                else:
                    groups[(s, a["chrom"])].append((a["pos"], ps))
                    n_phased += 1
    # phase sets: disjoint intervals in the order of the sample's phased variants, named by the first variant
    untouched = collections.defaultdict(lambda: True)   # (sample, chrom): every call string as in the input
    for a, ta, tb in zip(rin, tin, tout):
        for si, s in enumerate(samples):
            if ta[2][si] != tb[2][si] or ta[1] != tb[1]:
                untouched[(s, a["chrom"])] = False
    for (s, chrom), lst in groups.items():
        if untouched[(s, chrom)]:
            # the sample was not phased on this chromosome (< 2 heterozygous variants or no read left): whatever phase
            # information the input carried is passed through and is not polyphase's doing
            ctx.dist("cli_sample_passed_through", 1)
            continue
        closed, cur, prev_last = set(), None, -1
        for i, (pos, ps) in enumerate(lst):
            if ps != cur:
                if ps in closed:
                    fail(f"{chrom} {s}: phase set {ps} is not an interval of the phased variants: {lst}", "cli-ps-not-interval")
                    break
                if cur is not None:
                    closed.add(cur)
                cur = ps
                name = ps - 1
                if name == pos:
                    pass
                elif (name < pos and name > prev_last and name in het_pos[(s, chrom)]
                        and (s not in sc.samples or _coverage(sc, chrom, name, s) > 0)):
                    # the interval starts at a read-covered heterozygous variant whose alleles stayed undetermined
                    ctx.dist("cli_ps_named_by_unphased_first", 1)
                else:
                    fail(f"{chrom} {s}: phase set starting at {pos + 1} is named {ps}", "cli-ps-name")
            prev_last = pos
    return n_phased


# ------------------------------------------------------------------------------------------------

CHECKS = {"force": (check_force, after_force), "permute": (check_permute, after_exact),
          "cuts": (check_cuts, after_exact), "psi": (check_psi, after_exact),
          "glue": (check_glue, after_glue), "vcfio": (check_vcfio, None), "agg": (check_agg, None),
          "threads": (check_threads, None), "assign": (check_assign, None), "subinst": (check_subinst, None)}
AFTER = {"force": after_force, "permute": after_exact, "cuts": after_exact, "psi": after_exact, "exact": after_exact,
         "glue": after_glue, "blockstarts": after_blockstarts, "readtable": after_readtable, "write": after_write,
         "gluekind": after_gluekind, "single": after_single, "writeback": after_writeback, "plain": after_plain,
         "subinst": after_subinst, "hs": after_hs}


def run(ctx):
    import logging
    logging.getLogger("whatshap").setLevel(logging.ERROR)     # in-process runs: no warnings about skipped duplicates etc.
    rng = ctx.rng
    batch = []

    def flush():
        if not batch:
            return
        answers = ctx.model.ask_many([r for r, _ in batch])
        for (req, meta), ans in zip(batch, answers):
            AFTER[meta[0]](ctx, req, meta, ans)
        batch.clear()

    def one(case):
        kind = case.get("kind")
        if kind == "cli":
            run_cli(ctx, case, batch)
            if len(batch) >= 400:
                flush()
            return
        ctx.evaluated()
        try:
            nt = CHECKS[kind][0](ctx, case, batch)
        except Exception as e:  # the real function raised on a generated (valid) input
            ctx.fail(f"{kind}: real function raised {type(e).__name__}: {e}", case, key=f"{kind}-exception")
            return
        if nt:
            ctx.nontrivial(kind + json.dumps(case, sort_keys=True))
        if len(ctx.samples) < 3 and nt:
            ctx.sample({k: v for k, v in case.items() if k != "depths"})
        if len(batch) >= 400:
            flush()

    # thresholds: Lean's Float.log and CPython's math.log must agree bit for bit
    th = ctx.model.ask("c15.thresholds")
    mine = [f2bits(x) for x in (-math.inf, -math.inf, math.log(0.5), math.log(0.5), math.log(0.99), 0.0)]
    if th != mine:
        ctx.disagree("c15.thresholds", {"kind": "thresholds"}, mine, th)

    # cut thresholds of compute_block_starts (float pow): Lean's Float.pow against CPython's pow, ploidy 2..15
    def py_threshold(k, sl):
        if k == 2 or sl:
            return 1
        t = k * k
        for i in range(k - 1, k * k):
            t = i
            if k * pow((k - 2) / k, i) < 0.02:
                break
        return t
    th2 = ctx.model.ask("c15.cutthreshold")
    mine2 = [[py_threshold(k, False), py_threshold(k, True)] for k in range(2, 16)]
    if th2 != mine2:
        ctx.disagree("c15.cutthreshold", {"kind": "cutthreshold"}, mine2, th2)

    if ctx.replay:
        one(json.load(open(ctx.replay))["case"]); flush(); return
    for _, c in ctx.corpus():
        one(c)
    flush()

    q = ctx.quick
    n_inproc = (1500 if q else 12000) * ctx.scale
    for i in range(n_inproc):
        one(gen_force(rng))
        one(gen_permute(rng))
        one(gen_cuts(rng))
        one(gen_psi(rng))
        one(c15_glue.gen_glue(rng))
        one(c15_glue.gen_agg(rng))
        one(c15_glue.gen_threads(rng))
        one(c15_glue.gen_assign(rng))
        one(gen_subinst(rng))
        if i % 3 == 0:
            one(c15_glue.gen_vcfio(rng))
    flush()
    # targeted F8 search, in-process: very deep clusters
    for i in range((60 if q else 600) * ctx.scale):
        one(gen_force(rng, deep=True))
    flush()
    # CLI
    n_cli = (8 if q else 120) * ctx.scale
    for i in range(n_cli):
        one(gen_cli(rng, thorough=not q, scale=ctx.scale))
    # targeted F8 search through the CLI
    for i in range(1 if q else 3):
        one(gen_f8(rng))
    ctx.extra["cli_runs"] = n_cli + (1 if q else 3)
    shutil.rmtree(ctx.workdir(), ignore_errors=True)

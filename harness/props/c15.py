"""C15 — polyphase output obeys the input genotypes and forms contiguous blocks.

In-process correspondence (real function vs Lean model, result must be one of the model's admissible results):
  force   whatshap.polyphase.threading.force_genotypes           <-> c15.force   (per column: step + verdict)
  permute whatshap.polyphase.reorder.permute_blocks              <-> c15.permute (exact)
          whatshap.polyphase.reorder.get_optimal_assignments      (oracle only: results are permutations)
  cuts    whatshap.polyphase.algorithm.compute_cut_positions     <-> c15.cuts    (exact, IEEE doubles on both sides)
  psi     whatshap.cli.polyphase.phase_single_individual (solver stubbed by a generated PolyphaseResult)
                                                                  <-> c15.components (final dict + phased positions)
Property oracle (Python, independent of the model) on every in-process result and on the output VCF of real
`whatshap polyphase` runs on generated polyploid data.
"""
import collections, itertools, json, math, os, shutil, struct

from harness.gen import sim, c15_poly

RULE = ("in-process: generated columns/genotypes/cluster depths (force_genotypes), thread+haplotype matrices with "
        "breakpoints and permutations (permute_blocks), breakpoint lists with confidences for all six sensitivities "
        "(compute_cut_positions), accessible positions + stubbed solver result (phase_single_individual); a case is "
        "non-trivial if a permutation stage is entered (force), some block permutation is not the identity (permute), "
        "there are >= 2 breakpoints with non-zero confidence (cuts), there are >= 2 cuts (psi). CLI: a polyphase run is "
        "non-trivial if it phases >= 2 variants; distinct = distinct serialised case")
MANIFEST = dict(
    text="Lean 4 theorems about a hand-written model of the enforcing stages of whatshap polyphase (force_genotypes per "
         "column, permute_blocks, compute_cut_positions + component dictionary) with the clustering/threading heuristic "
         "universally quantified: every chosen permutation yields exactly the genotype's alleles, reordering preserves "
         "every column's multiset, components are disjoint intervals named by their first position; tied to the working "
         "tree by in-process differential runs of those functions and by an independent oracle on the output VCF of real "
         "`whatshap polyphase` runs on generated polyploid data (ploidy 2-6, multi-allelic, collapsed haplotypes, uneven "
         "coverage, all block-cut sensitivities, --use-prephasing)",
    design_ref="DESIGN.md §5 C15",
    note="proof covers the enforcing stages only; the end-to-end claim is differential (bounded by the generator). The "
         "code's -inf fallback in force_genotypes (F8) is modelled as an admissible outcome and proved to violate the "
         "genotype whenever taken; the check reports it (reachable through the CLI with >= 249 reads per cluster and a "
         "genotype the reads contradict). Trusted: Lean kernel, axioms ⊆ {propext, Classical.choice, Quot.sound}, the "
         "hand-written model, pysam/htslib on both sides, IEEE-double equality of Lean's Float.log and CPython's math.log",
    technique="Lean 4 proofs about the enforcing stages + differential correspondence + CLI output oracle",
)
ASSUMPTIONS = [
    "genotype dicts have exactly ploidy alleles (create_genotype_list counts Genotype.as_vector(); sub-instances count the column)",
    "breakpoint haplotype indices are < ploidy and block permutations are permutations of range(ploidy) (out-of-range would raise IndexError in the code)",
    "block_cut_sensitivity in 0..5 (validated by the CLI)",
    "the likelihood that picks the permutation (scipy binom.pmf) is not modelled: any permutation of alleles_to_insert is admissible",
    "--distrust-genotypes is outside the property; --tag HP output is C09's subject and not run here",
]

F8_KEY = "F8-force-genotypes-neg-inf-fallback"
F8_CLI_KEY = "F8-cli-genotype-changed-cluster-depth>=249"


def f2bits(x):
    return struct.unpack("<Q", struct.pack("<d", float(x)))[0]


def expand(gt):
    return sorted(a for a, n in gt.items() for _ in range(n))


# ------------------------------------------------------------------------------------------------
# generators (in-process)
# ------------------------------------------------------------------------------------------------

def gen_force(rng, deep=False):
    k = rng.choice([2, 2, 3, 3, 4, 4, 4, 5, 6]) if not deep else rng.choice([2, 3, 4])
    nv = rng.randrange(1, 5)
    na = rng.choice([2, 2, 3, 4])
    haps = [[rng.randrange(na) for _ in range(nv)] for _ in range(k)]
    gts = []
    for p in range(nv):
        r = rng.random()
        col = [haps[h][p] for h in range(k)]
        if r < 0.25:
            g = col[:]                       # already right
        elif r < 0.5:
            g = col[:]
            g[rng.randrange(k)] = rng.randrange(na)   # one allele off
        else:
            g = [rng.randrange(na) for _ in range(k)]
        gts.append({str(a): g.count(a) for a in sorted(set(g))})
        if rng.random() < 0.06:
            haps[rng.randrange(k)][p] = -1   # undetermined allele
    ncl = rng.randrange(1, k + 2)
    path = [[rng.randrange(ncl) for _ in range(k)] for _ in range(nv)]
    cov = [sorted(set(p) | ({rng.randrange(ncl)} if rng.random() < 0.3 else set())) for p in path]
    lo, hi = (0, 40) if not deep else rng.choice([(200, 400), (300, 1500), (1000, 4000)])
    depths = []
    for p in range(nv):
        d = {}
        for c in cov[p]:
            als = [a for a in range(na) if rng.random() < 0.8]
            d[str(c)] = {str(a): rng.randrange(lo, hi + 1) for a in als}
        depths.append(d)
    return {"kind": "force", "path": path, "haps": haps, "gts": gts, "cov": cov, "depths": depths}


def gen_permute(rng):
    k = rng.choice([2, 3, 3, 4, 4, 5])
    n = rng.randrange(2, 10)
    na = rng.choice([2, 3])
    threads = [[rng.randrange(k + 1) for _ in range(k)] for _ in range(n)]
    haps = [[rng.randrange(na) for _ in range(n)] for _ in range(k)]
    positions = sorted(rng.sample(range(1, n), rng.randrange(0, min(n - 1, 4) + 1)))
    bps = []
    for p in positions:
        aff = sorted(rng.sample(range(k), rng.randrange(2, k + 1)))
        llh = {",".join(map(str, perm)): -rng.random() * 20 for perm in itertools.permutations(aff)}
        bps.append({"pos": p, "haps": aff, "llh": llh})
    use_assign = rng.random() < 0.5
    perms = None
    if not use_assign:
        perms = []
        for _ in range(len(bps) + 1):
            pm = list(range(k)); rng.shuffle(pm); perms.append(pm)
    return {"kind": "permute", "threads": threads, "haps": haps, "bps": bps, "perms": perms}


def gen_cuts(rng):
    k = rng.choice([2, 3, 4, 5, 6])
    n = rng.randrange(1, 14)
    B = rng.randrange(0, 6)
    accumulate = rng.random() < 0.3      # only confidences close to 1: cuts happen by accumulation
    if accumulate:
        B = rng.choice([2, 3, 4])
    bps = []
    if rng.random() < 0.9:
        bps.append([0, list(range(k)), 0.0])
    pos = 0
    for _ in range(rng.randrange(0, 9)):
        pos += rng.choice([0, 1, 1, 1, 2, 3])
        if pos >= n:
            break
        aff = sorted(rng.sample(range(k), rng.randrange(2, k + 1)))
        r = rng.random()
        if accumulate:
            r = 0.5 + 0.1 * r
        if r < 0.2:
            c = 0.0
        elif r < 0.3:
            c = 1.0
        elif r < 0.45:
            c = rng.choice([0.5, 0.99, 0.5000000000000001, 0.4999999999999999, 0.9900000000000001, 0.7071067811865476,
                            0.7071067811865475, 1e-300, 5e-324])
        elif r < 0.65:
            c = rng.choice([0.999, 0.995, 0.992, 0.9, 0.8, 0.75])   # thresholds are reached by accumulation only
        else:
            c = rng.random()
        bps.append([pos, aff, c])
    return {"kind": "cuts", "ploidy": k, "B": B, "bps": bps}


def gen_psi(rng):
    k = rng.choice([2, 3, 4, 5])
    n = rng.randrange(2, 12)
    acc, p = [], rng.randrange(0, 50)
    for _ in range(n):
        acc.append(p)
        p += rng.choice([1, 1, 2, 3, 10, 40])     # adjacent positions exercise the `pos + 1` keys
    c = gen_cuts(rng)
    bps = [[0, list(range(k)), 0.0]]
    for pos, aff, conf in c["bps"]:
        if 0 < pos < n:
            bps.append([pos, [h for h in aff if h < k] or [0, 1], conf])
    haps = [[rng.randrange(3) for _ in range(n)] for _ in range(k)]
    for _ in range(rng.choice([0, 0, 1, 2])):
        haps[rng.randrange(k)][rng.randrange(n)] = -1
    return {"kind": "psi", "ploidy": k, "B": c["B"], "acc": acc, "bps": bps, "haps": haps}


# ------------------------------------------------------------------------------------------------
# running the real functions
# ------------------------------------------------------------------------------------------------

def run_force(case):
    from whatshap.polyphase.threading import force_genotypes
    haps = [h[:] for h in case["haps"]]
    gts = [{int(a): n for a, n in g.items()} for g in case["gts"]]
    depths = [{int(c): {int(a): n for a, n in d.items()} for c, d in dd.items()} for dd in case["depths"]]
    out = force_genotypes([p[:] for p in case["path"]], haps, [dict(g) for g in gts], [c[:] for c in case["cov"]],
                          depths, 0.05)
    return out, gts


def check_force(ctx, case, batch):
    out, gts = run_force(case)
    k, nv = len(case["haps"]), len(case["path"])
    stage = False
    for p in range(nv):
        col = [case["haps"][h][p] for h in range(k)]
        oc = [out[h][p] for h in range(k)]
        gv = expand(gts[p])
        # property oracle: a fully determined column must list exactly the genotype's alleles
        if -1 not in col and sorted(oc) != gv:
            if oc == col:
                ctx.fail(f"force_genotypes left column {col} as threaded although the genotype is {gv} "
                         f"(every permutation scored -inf)", case, key=F8_KEY)
            else:
                ctx.fail(f"force_genotypes turned column {col} into {oc}, genotype is {gv}", case, key="force-multiset")
        if -1 not in col and sorted(col) != gv:
            stage = True
        batch.append(({"op": "c15.force", "col": col, "gv": gv, "out": oc}, ("force", case, p)))
    ctx.dist("force_ploidy", k)
    return stage


def after_force(ctx, req, meta, ans):
    _, case, p = meta
    ctx.dist("force_verdict", ans.get("verdict"))
    if ans.get("verdict") == "inadmissible":
        ctx.disagree("c15.force", case, {"pos": p, "out": req["out"]}, ans)
    if ans.get("verdict") == "fallback":
        ctx.observe("force_genotypes: -inf fallback taken in-process (F8)")


def run_permute(case):
    from whatshap.polyphase import PhaseBreakpoint
    from whatshap.polyphase.reorder import permute_blocks, get_optimal_assignments
    threads = [t[:] for t in case["threads"]]
    haps = [h[:] for h in case["haps"]]
    k = len(haps)
    bps = [PhaseBreakpoint(b["pos"], b["haps"], 0.0) for b in case["bps"]]
    lllh = [{tuple(int(x) for x in key.split(",")): v for key, v in b["llh"].items()} for b in case["bps"]]
    perms = case["perms"]
    if perms is None:
        perms = get_optimal_assignments(bps, lllh, k, None)
    permute_blocks(threads, haps, bps, lllh, perms)
    return threads, haps, perms, [b.confidence for b in bps]


def check_permute(ctx, case, batch):
    threads, haps, perms, confs = run_permute(case)
    k, n = len(haps), len(case["threads"])
    for i, pm in enumerate(perms):
        if sorted(pm) != list(range(k)):
            ctx.fail(f"block {i}: assignment {pm} is not a permutation of range({k})", case, key="reorder-not-a-permutation")
            return False
    for p in range(n):
        a = sorted(case["haps"][h][p] for h in range(k)); b = sorted(haps[h][p] for h in range(k))
        if a != b:
            ctx.fail(f"permute_blocks changed the allele multiset of position {p}: {a} -> {b}", case, key="reorder-multiset")
    for c in confs:
        if not (0.0 <= c <= 1.0 + 1e-9):
            ctx.observe("permute_blocks: confidence outside [0,1]")
    cols_h = [[case["haps"][h][p] for h in range(k)] for p in range(n)]
    pos = [b["pos"] for b in case["bps"]]
    batch.append(({"op": "c15.permute", "cols": cols_h, "bps": pos, "perms": perms},
                  ("permute", case, [[haps[h][p] for h in range(k)] for p in range(n)])))
    batch.append(({"op": "c15.permute", "cols": case["threads"], "bps": pos, "perms": perms}, ("permute", case, threads)))
    return any(pm != list(range(k)) for pm in perms)


def run_cuts(bps, k, B):
    from whatshap.polyphase import PhaseBreakpoint
    from whatshap.polyphase.algorithm import compute_cut_positions
    return compute_cut_positions([PhaseBreakpoint(p, h, c) for p, h, c in bps], k, B)


def check_cuts(ctx, case, batch):
    k, B, bps = case["ploidy"], case["B"], case["bps"]
    cuts, hap_cuts = run_cuts(bps, k, B)
    positions = [b[0] for b in bps]
    if any(a >= b for a, b in zip(cuts, cuts[1:])):
        ctx.fail(f"cut positions not strictly increasing: {cuts}", case, key="cuts-not-increasing")
    if any(c not in positions for c in cuts):
        ctx.fail(f"cut {cuts} at a position that is no breakpoint", case, key="cuts-not-breakpoints")
    if bps and bps[0][2] == 0.0 and (not cuts or cuts[0] != bps[0][0]):
        ctx.fail(f"first breakpoint (confidence 0) does not start the first block: cuts={cuts}", case, key="cuts-first")
    batch.append(({"op": "c15.cuts", "ploidy": k, "B": B, "bps": [[p, h, f2bits(c)] for p, h, c in bps]},
                  ("cuts", case, {"cuts": cuts, "hap_cuts": hap_cuts})))
    ctx.dist("cuts_B", B)
    return sum(1 for b in bps if b[2] != 0.0) >= 2


class _Timers:
    def start(self, *_): pass
    def stop(self, *_): pass


def run_psi(case):
    import whatshap.cli.polyphase as cp
    from whatshap.core import Read, ReadSet
    from whatshap.polyphase import PolyphaseParameter, PolyphaseResult, PhaseBreakpoint
    k, B, acc = case["ploidy"], case["B"], case["acc"]
    rs = ReadSet()
    # two reads that together cover every accessible position (each with >= 1 variant)
    for i in range(2):
        r = Read(f"r{i}", 60, 0)
        for j, p in enumerate(acc):
            if i == 0 or j % 2 == 0:
                r.add_variant(p, 0, 30)
        rs.add(r)
    res = PolyphaseResult([], [], [h[:] for h in case["haps"]], [PhaseBreakpoint(p, h, c) for p, h, c in case["bps"]])
    param = PolyphaseParameter(ploidy=k, ce_bundle_edges=False, distrust_genotypes=False, min_overlap=2,
                               block_cut_sensitivity=B, plot_clusters=False, plot_threading=False, threads=1,
                               use_prephasing=False)
    saved = (cp.solve_polyphase_instance, cp.create_genotype_list)
    cp.solve_polyphase_instance = lambda *a, **kw: res
    cp.create_genotype_list = lambda *a, **kw: []
    try:
        comps, hcomps, superreads = cp.phase_single_individual(rs, None, "S", param, None, _Timers())
    finally:
        cp.solve_polyphase_instance, cp.create_genotype_list = saved
    sr = [[(v.position, v.allele) for v in read] for read in superreads]
    return comps, sr


def check_psi(ctx, case, batch):
    k, acc, haps = case["ploidy"], case["acc"], case["haps"]
    comps, sr = run_psi(case)
    cuts, _ = run_cuts(case["bps"], k, case["B"])
    n = len(acc)
    # oracle: names over the accessible positions form intervals named by their first position
    names = [comps.get(p) for p in acc]
    if None in names:
        ctx.fail(f"accessible position without component: {names}", case, key="psi-missing-component")
    else:
        seen = set()
        for i, nm in enumerate(names):
            if i == 0 or names[i - 1] != nm:
                if nm in seen:
                    ctx.fail(f"component {nm} is not contiguous in the order of accessible positions: {names}", case,
                             key="psi-not-contiguous")
                if nm != acc[i]:
                    ctx.fail(f"component starting at {acc[i]} is named {nm}", case, key="psi-name")
                seen.add(nm)
    phased = [j for j in range(n) if all(haps[h][j] != -1 for h in range(k))]
    exp_sr = [[(acc[j], haps[h][j]) for j in phased] for h in range(k)]
    if sr != exp_sr:
        ctx.fail("super-reads differ from the solver's haplotypes on the fully determined positions", case, key="psi-superreads")
    cols = [[haps[h][j] for h in range(k)] for j in range(n)]
    batch.append(({"op": "c15.components", "acc": acc, "cuts": cuts, "cols": cols},
                  ("psi", case, {"dict": sorted([a, b] for a, b in comps.items()),
                                 "phased": sorted({p for r in sr for p, _ in r})})))
    return len(cuts) >= 2


def after_exact(ctx, req, meta, ans):
    kind, case, impl = meta
    if kind == "psi":
        model = {"dict": sorted(ans.get("dict", [])), "phased": sorted(case["acc"][j] for j in ans.get("phased", []))}
    else:
        model = ans
    if model != impl:
        ctx.disagree(req["op"], case, impl, model)


# ------------------------------------------------------------------------------------------------
# CLI
# ------------------------------------------------------------------------------------------------

def gen_cli(rng, thorough=False, scale=1):
    k = rng.choice([2, 3, 3, 4, 4, 4, 5, 6] if thorough else [2, 3, 3, 4, 4, 4, 4, 5, 6])
    big = k >= 5
    two = (not big) and rng.random() < 0.3
    samples = ("S1", "S2") if two else ("S1",)
    nvar = (4, 7) if big else ((6, 14) if not thorough else (6, 18 * scale))
    sc = c15_poly.PolyScenario.generate(
        rng, ploidy=k, n_contigs=2 if rng.random() < 0.25 and not big else 1, n_variants=nvar,
        cov_per_hap=(3, 6) if big else (3, 9), read_len=(50, 220), multi_prob=rng.choice([0.0, 0.2, 0.4]),
        indel_prob=rng.choice([0.0, 0.0, 0.15]), hom_prob=rng.choice([0.1, 0.25]), uneven=True, samples=samples,
        gaps=rng.random() < 0.5, orphans=rng.choice([0, 0, 0, 1, 2]))
    if rng.random() < 0.4:
        # a later chromosome on which nobody can be phased (no reads) but which has records at the SAME positions
        # as an earlier, phased chromosome: per-chromosome state must not leak into it
        import copy
        first = list(sc.contigs)[0]
        sc.contigs["chr9"] = sc.contigs[first]
        sc.variants["chr9"] = copy.deepcopy(sc.variants[first])
        for s_ in sc.samples:
            kk = sc.ploidy[s_]
            sc.haps[f"{s_}|chr9"] = c15_poly.random_haplotypes(rng, sc.variants["chr9"], kk, hom_prob=rng.choice([0.2, 0.7]))
    opts = {"ploidy": k, "B": rng.randrange(0, 6), "prephasing": False, "threads": rng.choice([1, 1, 2]),
            "haploid_sets": rng.random() < 0.2, "only_sample": None, "reference": rng.random() < 0.7}
    if two and rng.random() < 0.5:
        opts["only_sample"] = "S1"
    if rng.random() < 0.3:
        sc.extra_samples = {"X9": k}
    # a few missing genotypes
    for name in sc.contigs:
        for i in range(len(sc.variants[name])):
            if rng.random() < 0.05:
                sc.gt_override[f"S1|{name}|{i}"] = "/".join(["."] * k)
    if rng.random() < 0.6:
        # genotypes the reads contradict in dosage (still heterozygous): force_genotypes has to act
        for s_ in sc.samples:
            for name in sc.contigs:
                hs = sc.haps[f"{s_}|{name}"]
                for i, v in enumerate(sc.variants[name]):
                    col = sorted(h[i] for h in hs)
                    if len(set(col)) > 1 and rng.random() < 0.2 and f"{s_}|{name}|{i}" not in sc.gt_override:
                        new = col[:]
                        new[rng.randrange(k)] = rng.choice(sorted(set(col)))
                        if len(set(new)) > 1 and sorted(new) != col:
                            sc.gt_override[f"{s_}|{name}|{i}"] = "/".join(map(str, sorted(new)))
    if rng.random() < 0.35:
        # pre-phased stretches (true haplotype order) with PS, for --use-prephasing
        opts["prephasing"] = True
        pre = {}
        for name in sc.contigs:
            if name == "chr9":
                continue   # the read-less chromosome stays unphased in the input (its calls are passed through)
            nv = len(sc.variants[name])
            i = 0
            while i < nv:
                L = rng.randrange(2, 5)
                if rng.random() < 0.6:
                    for j in range(i, min(nv, i + L)):
                        pre[f"S1|{name}|{j}"] = sc.variants[name][i]["pos"] + 1
                i += L + rng.randrange(0, 2)
        opts["pre"] = pre
    return {"kind": "cli", "scenario": sc.as_case(), "opts": opts}


def gen_f8(rng, depth=None):
    """targeted search for F8 through the CLI: a cluster of >= 249 identical reads per haplotype and one
    genotype that the reads contradict (truly homozygous site called heterozygous)"""
    depth = depth or rng.choice([255, 270, 300])
    k = 2
    seq = sim.random_seq(rng, 120)
    vs = []
    for p in (30, 50, 70, 90)[:rng.choice([3, 4])]:
        ref = seq[p]
        vs.append({"pos": p, "ref": ref, "alts": [rng.choice([b for b in "ACGT" if b != ref])]})
    haps = [[0, 0, 0, 1][:len(vs)], [1, 0, 1, 0][:len(vs)]]
    reads, rid = [], 0
    for h in range(k):
        for _ in range(depth):
            st, en = rng.randrange(0, 10), 120 - rng.randrange(0, 10)
            s, c, q = c15_poly.poly_read(seq, vs, haps[h], st, en)
            rid += 1
            reads.append({"name": f"r{rid}", "chrom": "chr1", "start": s, "cigar": [list(x) for x in c], "seq": q,
                          "rg": "rg_S1", "mapq": 60})
    sc = c15_poly.PolyScenario({"chr1": seq}, {"chr1": vs}, ["S1"], {"S1": k}, {"S1|chr1": haps}, reads,
                               gt_override={"S1|chr1|1": "0/1"})
    return {"kind": "cli", "scenario": sc.as_case(), "targeted": "F8",
            "opts": {"ploidy": k, "B": 4, "prephasing": False, "threads": 1, "haploid_sets": False, "only_sample": None,
                     "reference": True}}


def _coverage(sc, chrom, pos, sample):
    n = 0
    for r in sc.reads:
        if r["chrom"] != chrom or r["rg"] != "rg_" + sample:
            continue
        end = r["start"] + sum(l for op, l in r["cigar"] if op in (0, 2))
        if r["start"] <= pos < end:
            n += 1
    return n


def run_cli(ctx, case):
    sc = c15_poly.PolyScenario.from_case(case["scenario"])
    o = case["opts"]
    k = o["ploidy"]
    d = os.path.join(ctx.workdir(), "cli")
    shutil.rmtree(d, ignore_errors=True)
    try:
        recs = sc.vcf_records()
        fmt_defs = {}
        if o.get("prephasing"):
            fmt_defs["PS"] = '##FORMAT=<ID=PS,Number=1,Type=Integer,Description="Phase set">'
            idx = 0
            for name in sc.contigs:
                for i in range(len(sc.variants[name])):
                    r = recs[idx]; idx += 1
                    ps = o["pre"].get(f"S1|{name}|{i}")
                    col = [h[i] for h in sc.haps[f"S1|{name}"]]
                    r["format"] = ["GT", "PS"]
                    for c in r["calls"]:
                        c["PS"] = "."
                    if ps is not None and len(set(col)) > 1 and "." not in r["calls"][0]["GT"]:
                        r["calls"][0] = {"GT": "|".join(map(str, col)), "PS": ps}
        fa, bam, vcf = sc.write(d, records=recs, fmt_defs=fmt_defs)
        out = os.path.join(d, "out.vcf")
        args = ["polyphase", vcf, bam, "--ploidy", k, "-B", o["B"], "-o", out, "--threads", o["threads"]]
        if o.get("reference"):
            args += ["--reference", fa]
        if o.get("prephasing"):
            args.append("--use-prephasing")
        if o.get("haploid_sets"):
            args.append("--include-haploid-sets")
        if o.get("only_sample"):
            args += ["--sample", o["only_sample"]]
        rc, so, se, _ = sim.whatshap(args, ctx.overlay, timeout=900)
        ctx.evaluated()
        ctx.dist("cli_ploidy", k); ctx.dist("cli_B", o["B"]); ctx.dist("cli_prephasing", bool(o.get("prephasing")))
        if rc != 0:
            ctx.fail(f"whatshap polyphase failed (rc={rc}): {se.strip().splitlines()[-1] if se.strip() else ''}", case,
                     key="cli-crash")
            return
        _, samples, rin = sim.read_vcf(vcf)
        if os.environ.get("C15_KEEP"):
            os.makedirs(os.environ["C15_KEEP"], exist_ok=True); shutil.copy(out, os.path.join(os.environ["C15_KEEP"], f"{ctx.n_eval}.vcf")); shutil.copy(vcf, os.path.join(os.environ["C15_KEEP"], f"{ctx.n_eval}.in.vcf"))
        _, samples_o, rout = sim.read_vcf(out)
        tin, tout = sim.read_vcf_text(vcf)[1], sim.read_vcf_text(out)[1]
        phased_samples = [o["only_sample"]] if o.get("only_sample") else list(sc.samples) + list(sc.extra_samples)
        n_phased = check_cli_output(ctx, case, sc, samples, rin, rout, tin, tout, phased_samples, samples_o)
        if n_phased >= 2:
            ctx.nontrivial(json.dumps(case, sort_keys=True)[:4000])
        ctx.dist("cli_phased_variants", min(n_phased, 20))
        ctx.sample({"cli": args[3:], "phased_variants": n_phased, "records": len(rin)})
    finally:
        shutil.rmtree(d, ignore_errors=True)


def check_cli_output(ctx, case, sc, samples, rin, rout, tin, tout, phased_samples, samples_o):
    def fail(what, key):
        ctx.fail(what, case, key=key)
    if samples != samples_o or len(rin) != len(rout):
        fail(f"records/samples differ: {len(rin)} -> {len(rout)} records, samples {samples} -> {samples_o}", "cli-records")
        return 0
    n_phased = 0
    groups = collections.defaultdict(list)   # (sample, chrom) -> [(pos, ps)] in file order
    het_pos = collections.defaultdict(list)
    for a, b, ta, tb in zip(rin, rout, tin, tout):
        where = f"{a['chrom']}:{a['pos'] + 1}"
        if ta[0] != tb[0]:
            fail(f"{where}: fixed columns changed {ta[0]} -> {tb[0]}", "cli-fixed-columns")
            continue
        keys_a = ta[1].split(":") if ta[1] else []
        keys_b = tb[1].split(":") if tb[1] else []
        if [x for x in keys_b if x not in ("PS", "HS")] != [x for x in keys_a if x not in ("PS", "HS")]:
            fail(f"{where}: FORMAT keys {keys_a} -> {keys_b}", "cli-format-keys")
        for si, s in enumerate(samples):
            ca, cb = a["calls"][si], b["calls"][si]
            ga, gb = ca.get("GT"), cb.get("GT")
            al_a = ga[0] if ga else None
            al_b = gb[0] if gb else None
            # every other FORMAT value is passed through
            va = dict(zip(keys_a, ta[2][si].split(":"))); vb = dict(zip(keys_b, tb[2][si].split(":")))
            for key in keys_a:
                if key not in ("GT", "PS", "HS") and va.get(key) != vb.get(key, "."):
                    fail(f"{where} {s}: FORMAT/{key} {va.get(key)} -> {vb.get(key)}", "cli-format-values")
            if "" in tb[2][si].split(":") and "" not in ta[2][si].split(":"):
                # F24: a call that was well-formed in the input is written with an empty FORMAT value (not even "."):
                # htslib itself warns when reading it back and drops the value
                fail(f"{where} {s}: call {ta[2][si]!r} is written as {tb[2][si]!r} (FORMAT {tb[1]}): empty FORMAT value",
                     "cli-empty-format-value")
            if s not in phased_samples:
                if va.get("GT") != vb.get("GT") or va.get("PS", ".") != vb.get("PS", "."):
                    fail(f"{where} {s}: call of a sample that is not being phased changed {ta[2][si]} -> {tb[2][si]}",
                         "cli-other-sample")
                continue
            if al_a is None or any(x is None for x in al_a):
                if gb and gb[1] and len(al_b) > 1:
                    fail(f"{where} {s}: missing genotype {va.get('GT')} got phased {vb.get('GT')}", "cli-missing-phased")
                if sorted(map(str, al_a or ())) != sorted(map(str, al_b or ())):
                    fail(f"{where} {s}: missing genotype changed {va.get('GT')} -> {vb.get('GT')}", "cli-genotype-changed")
                continue
            if sorted(al_a) != sorted(al_b):
                cov = _coverage(sc, a["chrom"], a["pos"], s) if s in sc.samples else 0
                key = F8_CLI_KEY if cov >= 249 else "cli-genotype-changed"
                fail(f"{where} {s}: genotype {va.get('GT')} came out as {vb.get('GT')} ({cov} reads cover the site)", key)
            het = len(set(al_a)) > 1
            if het:
                het_pos[(s, a["chrom"])].append(a["pos"])
            if gb[1] and len(al_b) > 1:
                if not het:
                    fail(f"{where} {s}: homozygous genotype {va.get('GT')} phased as {vb.get('GT')}", "cli-hom-phased")
                ps = cb.get("PS")
                if ps is None:
                    fail(f"{where} {s}: phased genotype without PS", "cli-no-ps")
                else:
                    groups[(s, a["chrom"])].append((a["pos"], ps))
                    n_phased += 1
    # phase sets: disjoint intervals in the order of the sample's phased variants, named by the first variant
    for (s, chrom), lst in groups.items():
        closed, cur, prev_last = set(), None, -1
        for i, (pos, ps) in enumerate(lst):
            if ps != cur:
                if ps in closed:
                    fail(f"{chrom} {s}: phase set {ps} is not an interval of the phased variants: {lst}", "cli-ps-not-interval")
                    break
                if cur is not None:
                    closed.add(cur)
                cur = ps
                name = ps - 1
                if name == pos:
                    pass
                elif (name < pos and name > prev_last and name in het_pos[(s, chrom)]
                        and (s not in sc.samples or _coverage(sc, chrom, name, s) > 0)):
                    # the interval starts at a read-covered heterozygous variant whose alleles stayed undetermined
                    ctx.dist("cli_ps_named_by_unphased_first", 1)
                else:
                    fail(f"{chrom} {s}: phase set starting at {pos + 1} is named {ps}", "cli-ps-name")
            prev_last = pos
    return n_phased


# ------------------------------------------------------------------------------------------------

CHECKS = {"force": (check_force, after_force), "permute": (check_permute, after_exact),
          "cuts": (check_cuts, after_exact), "psi": (check_psi, after_exact)}


def run(ctx):
    rng = ctx.rng
    batch = []

    def flush():
        if not batch:
            return
        answers = ctx.model.ask_many([r for r, _ in batch])
        for (req, meta), ans in zip(batch, answers):
            CHECKS[meta[0]][1](ctx, req, meta, ans)
        batch.clear()

    def one(case):
        kind = case.get("kind")
        if kind == "cli":
            run_cli(ctx, case)
            return
        ctx.evaluated()
        try:
            nt = CHECKS[kind][0](ctx, case, batch)
        except Exception as e:  # the real function raised on a generated (valid) input
            ctx.fail(f"{kind}: real function raised {type(e).__name__}: {e}", case, key=f"{kind}-exception")
            return
        if nt:
            ctx.nontrivial(kind + json.dumps(case, sort_keys=True))
        if len(ctx.samples) < 3 and nt:
            ctx.sample({k: v for k, v in case.items() if k != "depths"})
        if len(batch) >= 400:
            flush()

    # thresholds: Lean's Float.log and CPython's math.log must agree bit for bit
    th = ctx.model.ask("c15.thresholds")
    mine = [f2bits(x) for x in (-math.inf, -math.inf, math.log(0.5), math.log(0.5), math.log(0.99), 0.0)]
    if th != mine:
        ctx.disagree("c15.thresholds", {"kind": "thresholds"}, mine, th)

    if ctx.replay:
        one(json.load(open(ctx.replay))["case"]); flush(); return
    for _, c in ctx.corpus():
        one(c)
    flush()

    q = ctx.quick
    n_inproc = (1500 if q else 12000) * ctx.scale
    for i in range(n_inproc):
        one(gen_force(rng))
        one(gen_permute(rng))
        one(gen_cuts(rng))
        one(gen_psi(rng))
    flush()
    # targeted F8 search, in-process: very deep clusters
    for i in range((60 if q else 600) * ctx.scale):
        one(gen_force(rng, deep=True))
    flush()
    # CLI
    n_cli = (8 if q else 120) * ctx.scale
    for i in range(n_cli):
        one(gen_cli(rng, thorough=not q, scale=ctx.scale))
    # targeted F8 search through the CLI
    for i in range(1 if q else 3):
        one(gen_f8(rng))
    ctx.extra["cli_runs"] = n_cli + (1 if q else 3)
    shutil.rmtree(ctx.workdir(), ignore_errors=True)

"""C08 — genotyping reports the exact posterior of its HMM; GT, GL and GQ agree.

Library level (in-process `whatshap.core.GenotypeDPTable`):
  * property oracle: the implementation's likelihoods against the HMM posterior computed independently
    (numpy: for every global bipartition an ordinary forward-backward over the (transmission, assignment)
    chain) and, on the smallest instances, against the Lean brute-force spec `c08.brute` (plain enumeration of
    all global states) – relative tolerance 1e-9;
  * correspondence: against the Lean forward-backward model `c08.fb` evaluated in Float (same phred table),
    with the model's per-column scaling divisors set to 1 and to random positive numbers – relative tolerance
    1e-9.  THIS IS THE ONE PLACE WHERE FLOATS ARE COMPARED WITH A TOLERANCE (implementation: long double with
    data dependent scaling, model: IEEE double, different summation order).
  * EXACT cross-check (no float on the reference side): instances whose phred qualities and recombination costs are
    multiples of 10 (then 10^(-q/10) is rational; priors are doubles = dyadic rationals; the table entry for quality 0 is the
    double 0.9999) are evaluated by the Lean model over `Rat` (`c08.fbrat`, = the brute-force posterior by theorem; the plain
    enumeration is evaluated too on the smallest and must give the identical rationals); the implementation's doubles must be
    within relative 1e-12 (+1e-300 absolute) of the exact value.  Measured: 1.1e-16 (half an ulp).
  * writer level: `GenotypeVcfWriter.write_genotypes` in-process on crafted likelihood triples (normalised, peaked down to
    5e-324, zeros, next to GQ rounding boundaries, not normalised) with genotypes from the real `determine_genotype` at phred
    thresholds 0..150: written GT = determined genotype; GL = log10 (floor -1000, also for 0) to 6 significant digits and
    bit-equal to `c08.conv` (`glOf Float.log10`); GQ = min(round(-10·log10(mass of the others)), 10000) decided EXACTLY
    (60-digit decimals as oracle, the Lean integer search `gqOf` on the rational value of the double as model; masses within
    1e-9 of a rounding tie are skipped and counted), 10000 for mass 0, none for ./.; a call at phred threshold t has GQ >= t;
    the exact threshold test `aboveThr` of the model = the float test of `determine_genotype` away from the boundary.
  * `determine_genotype` (real function) on the implementation's likelihoods and on tie/threshold edge triples:
    result = unique maximum if it exceeds the threshold, else no call; against `c08.call`.
Pipeline level (`whatshap genotype` CLI on simulated BAM/VCF, several --gt-qual-threshold values, with and
without priors, single samples and a trio): per genotyped call |Σ 10^GL − 1| small (VCF floats carry 6
significant digits), GT = unique maximum of GL if above the threshold else ./., GQ = min(round(−10·log10(mass of
the other genotypes)), 10000), no GQ for ./. .
"""
import json, math, os, shutil, struct

from harness.gen import c08_inst as G

REL = 1e-9
IMPL_SMALL = 2e4        # below this every instance goes through the implementation-structured model, above every 12th
IMPL_BUDGET = 6e5       # size bound (operations) for the implementation-structured model in Float
IMPL_BUDGET_RAT = 6e4   # ... over exact rationals
EXACT_REL = 1e-12      # implementation floats vs the exact rational posterior (c08.fbrat): relative, + 1e-300 absolute
RULE = ("well-formed instances (sorted reads with >= 2 variants each, 0/1 alleles, positive priors) over single individuals, "
        "trios (both individual orders), quartets, unrelated pairs and a three-generation pedigree; non-trivial = at least "
        "one column with >= 2 active reads and a posterior that is not the uniform triple; distinct = distinct instance. "
        "CLI runs count as non-trivial when at least one call is genotyped (GT != ./.) and one is not or has GQ < 10000")
MANIFEST = dict(
    text="Lean 4: model of the scaled forward-backward table over projected bipartition columns (polymorphic in the number "
         "field, arbitrary non-zero per-column scaling divisors) proved equal to the brute-force posterior of the HMM, "
         "independent of the scalings (scaled tables = unscaled × explicit product of the inverse scaling factors), normalised; "
         "GT = unique maximum above threshold, GQ mass = 1 - called posterior; integer-side model of GQ (rounded phred of a rational "
         "mass, cap, antitone, non-negative for a distribution), of the phred threshold (called => GQ >= threshold) and of GL "
         "(monotone, floor, GT = argmax GL). "
         "Tied to the working tree by running GenotypeDPTable in-process against the compiled model in Float "
         "(rel. tol. 1e-9), against the model over exact rationals (rel. tol. 1e-12, measured 1e-16), an independent numpy oracle and the "
         "Lean brute-force spec; GenotypeVcfWriter on crafted triples against the exact integer GQ; the VCF contract of "
         "`whatshap genotype` (GL/GT/GQ) is checked on CLI runs across thresholds",
    design_ref="DESIGN.md §5 C08",
    note="trusted: Lean kernel; hand-written model; the implementation's floating-point error is MEASURED against exact rational "
         "arithmetic on instances with rational parameters (<= 1e-12 relative demanded), elsewhere compared with the Float model within "
         "1e-9; GQ rounding is decided exactly on the rational value of the implementation's double, log10 of GL is compared as a float "
         "(same libm) and to 6 digits in the VCF text; Gray-code order, incremental cost updates and sqrt "
         "check-pointing are covered by correspondence only",
    technique="Lean 4 proof (sum-product interface DP = enumeration, bijective gluing of sorted bipartitions) + numeric "
              "differential correspondence + CLI contract check",
)
ASSUMPTIONS = [
    "reads handed to GenotypeDPTable have >= 2 variants and the read set is sorted (a single-variant read trips a C++ "
    "assert and aborts the interpreter; `whatshap genotype` filters such reads) – generators never produce anything else",
    "priors are positive (a zero normalisation sum yields NaN in the code; the theorems carry `total ≠ 0`)",
    "floats: implementation long double, model IEEE double; compared with relative tolerance 1e-9 (+1e-300 absolute); against the "
    "exact rational posterior with relative tolerance 1e-12 (+1e-300 absolute) on instances whose qualities / recombination costs "
    "are multiples of 10 (pow(10, -k) in long double is taken as 10^-k: relative error 1e-19)",
    "writer level: GQ ties (|frac(-10 log10 q) - 0.5| < 1e-9) are skipped; GL text carries 6 significant digits (relative 6e-6)",
    "VCF GL values carry 6 significant digits: |Σ10^GL − 1| ≤ 2e-5; GT/GQ decisions closer than the rounding margin to a "
    "tie/threshold/half-integer are counted as ambiguous, not checked",
]


def f2b(x):
    return struct.unpack("<Q", struct.pack("<d", float(x)))[0]


def b2f(n):
    return struct.unpack("<d", struct.pack("<Q", int(n)))[0]


def close(a, b, rel=REL):
    if a != a or b != b:
        return False
    return abs(a - b) <= rel * max(abs(a), abs(b)) + 1e-300


def max_dev(x, y):
    worst = 0.0
    for xi, yi in zip(x, y):
        for xc, yc in zip(xi, yi):
            for a, b in zip(xc, yc):
                if a != a or b != b:
                    return float("inf")
                d = abs(a - b) / (max(abs(a), abs(b)) + 1e-300)
                if abs(a - b) > 1e-300:
                    worst = max(worst, d)
    return worst


# ------------------------------------------------------------------------------------------------
# implementation side
# ------------------------------------------------------------------------------------------------

def run_impl(case):
    from whatshap.core import ReadSet, Read, Pedigree, GenotypeDPTable, PhredGenotypeLikelihoods, Genotype, NumericSampleIds
    assert G.well_formed(case), "generator produced an instance outside the guard"
    ids = NumericSampleIds()
    names = [f"s{i}" for i in range(case["n_ind"])]
    for nm in names:
        ids[nm]
    positions = [100 + 10 * c for c in range(case["n_cols"])]
    rs = ReadSet()
    for k, r in enumerate(case["reads"]):
        rd = Read(f"r{k:05d}", 50, 0, ids[names[r["ind"]]])
        for c, a, q in r["entries"]:
            rd.add_variant(positions[c], a, q)
        rs.add(rd)
    ped = Pedigree(ids)
    for i, nm in enumerate(names):
        ped.add_individual(nm, [Genotype([]) for _ in positions],
                           [PhredGenotypeLikelihoods(list(map(float, p))) for p in case["priors"][i]])
    for f, m, c in case["triples"]:
        ped.add_relationship(names[f], names[m], names[c])
    table = GenotypeDPTable(ids, rs, case["recomb"], ped, positions)
    return [[[float(x) for x in table.get_genotype_likelihoods(nm, c)] for c in range(case["n_cols"])] for nm in names]


def model_req(case, op, scal=None):
    req = {"op": op, "n_cols": case["n_cols"], "n_ind": case["n_ind"], "triples": case["triples"], "reads": case["reads"],
           "recomb": case["recomb"], "priors": [[[f2b(x) for x in p] for p in ind] for ind in case["priors"]]}
    if scal:
        req["scal"] = {k: [f2b(x) for x in v] for k, v in scal.items()}
    return req


def decode(ans, key):
    if not isinstance(ans, dict) or key not in ans:
        return None
    return [[[b2f(x) for x in col] for col in ind] for ind in ans[key]]


# ------------------------------------------------------------------------------------------------
# GT / GQ rules on exact floats
# ------------------------------------------------------------------------------------------------

def expected_gt(l, thr):
    """the property: unique maximum if it exceeds the threshold, else no call (None)"""
    m = max(l)
    if sum(1 for x in l if x == m) == 1 and m > thr:
        return l.index(m)
    return None


def impl_gt(l, thr):
    from whatshap.cli.genotype import determine_genotype
    from whatshap.core import PhredGenotypeLikelihoods
    g = determine_genotype(PhredGenotypeLikelihoods([float(x) for x in l]), thr)
    if g.is_none():
        return None
    return sum(g.as_vector())


# ------------------------------------------------------------------------------------------------
# pipeline
# ------------------------------------------------------------------------------------------------

def log10_sum(gls):
    m = max(gls)
    if m == -math.inf:
        return -math.inf
    return m + math.log10(sum(10.0 ** (g - m) for g in gls))


def check_vcf_calls(ctx, recs, thr_q, info):
    """GL/GT/GQ contract on the parsed output; returns (n_called, n_nocall, n_ambiguous)"""
    gt_prob = 1.0 - 10.0 ** (-thr_q / 10.0)
    called = nocall = amb = 0
    for r in recs:
        for si, c in enumerate(r["calls"]):
            gl = c.get("GL")
            where = dict(info, chrom=r["chrom"], pos=r["pos"], sample=si, GL=gl, GT=str(c.get("GT")), GQ=c.get("GQ"))
            if gl is None or any(x is None for x in gl):
                ctx.fail("output call without GL", where, key="vcf-no-gl"); continue
            if len(gl) != 3:
                ctx.fail(f"GL has {len(gl)} values", where, key="vcf-gl-len"); continue
            p = [10.0 ** x for x in gl]
            if abs(sum(p) - 1.0) > 2e-5:
                ctx.fail(f"GL is not log10 of a distribution: sum 10^GL = {sum(p)!r}", where, key="vcf-gl-sum")
            gt = c.get("GT")
            alleles = None if gt is None or gt[0] is None else gt[0]
            is_nocall = alleles is None or any(a is None for a in alleles)
            srt = sorted(p)
            margin = 3e-5 * max(srt[2], 1e-300)
            clear_unique = srt[2] - srt[1] > margin
            clear_tie = False  # equality of two doubles cannot be certified from 6 digits
            clear_above = srt[2] - gt_prob > margin
            clear_below = gt_prob - srt[2] > margin
            if is_nocall:
                nocall += 1
                if clear_unique and clear_above:
                    ctx.fail(f"GT is ./. although GL has a unique maximum {srt[2]!r} above the threshold {gt_prob!r}", where, key="vcf-gt-missing")
                elif not clear_below and not clear_tie:
                    amb += 1
                if c.get("GQ") is not None:
                    ctx.fail("GQ present on a ./. call", where, key="vcf-gq-on-nocall")
                continue
            called += 1
            g = sum(alleles)
            if sorted(alleles) != list(alleles) and False:
                pass
            if clear_below:
                ctx.fail(f"GT {alleles} called although the maximum {srt[2]!r} does not exceed the threshold {gt_prob!r}", where, key="vcf-gt-below-threshold")
            if p[g] < srt[2] - margin:
                ctx.fail(f"GT {alleles} is not the maximum of GL", where, key="vcf-gt-not-max")
            elif not clear_unique:
                amb += 1
            # GQ = min(round(-10 log10(mass of the others)), 10000)
            others = [gl[i] for i in range(3) if i != g]
            lq = log10_sum(others)
            gq = c.get("GQ")
            if gq is None:
                ctx.fail("called genotype without GQ", where, key="vcf-gq-missing"); continue
            if all(x <= -1000 for x in others):
                if gq != 10000:
                    ctx.fail(f"GQ {gq} but all other genotypes have GL -1000 (mass 0): expected 10000", where, key="vcf-gq")
                continue
            exact = -10.0 * lq
            # rounding margin: each GL has a relative error of 5e-6
            err = 10.0 * 6e-6 * max(abs(x) for x in others) + 1e-6
            lo, hi = min(round(exact - err), 10000), min(round(exact + err), 10000)
            if not (lo <= gq <= hi):
                ctx.fail(f"GQ {gq} but -10*log10(mass of the other genotypes) = {exact!r}", where, key="vcf-gq")
            elif lo != hi:
                amb += 1
    return called, nocall, amb


def parse_out_vcf(path):
    """text-level parse (pysam would hand back float32 values): records with calls {GT: (alleles|None, phased), GL, GQ}"""
    from harness.gen import sim
    _, recs = sim.read_vcf_text(path)
    out = []
    for fixed, fmt, samples in recs:
        keys = fmt.split(":") if fmt else []
        calls = []
        for s in samples:
            d = dict(zip(keys, s.split(":")))
            c = {}
            gt = d.get("GT")
            if gt is not None:
                al = [None if a == "." else int(a) for a in gt.replace("|", "/").split("/")]
                c["GT"] = (tuple(al), "|" in gt)
            if d.get("GL") not in (None, "."):
                c["GL"] = [None if x == "." else float(x) for x in d["GL"].split(",")]
            if d.get("GQ") not in (None, "."):
                c["GQ"] = int(d["GQ"])
            calls.append(c)
        out.append({"chrom": fixed[0], "pos": int(fixed[1]) - 1, "calls": calls})
    return out


def cli_case(ctx, rng, idx, big):
    """one simulated data set, genotyped three times: at a drawn threshold, and at two thresholds placed just below
    and just above the quality (−10·log10(1 − max posterior)) of one of its calls, so that the threshold rule is
    exercised exactly where it flips"""
    from harness.gen import sim
    trio = (idx % 3 == 2)
    samples = ("mother", "father", "child") if trio else ("S1",)
    sc = sim.Scenario(rng, n_contigs=1, contig_len=(700, 1300) if not big else (1500, 2500),
                      n_variants=(4, 10) if not big else (10, 22), samples=samples, depth=(2, 6),
                      read_len=(120, 420), het_prob=0.7)
    # sequencing errors at the variant sites (SNVs only, so CIGARs are all-match): the other allele
    for rd in sc.reads:
        seq = list(rd["seq"])
        for vi in rd["covered"]:
            v = sc.variants[rd["chrom"]][vi]
            if rng.random() < 0.12:
                off = v.pos - rd["start"]
                seq[off] = v.alt if seq[off] == v.ref else v.ref
        rd["seq"] = "".join(seq)
    d = os.path.join(ctx.workdir(), f"cli{idx}")
    shutil.rmtree(d, ignore_errors=True)
    fa, bam, vcf = sc.write(d)
    base = ["genotype", "--reference", fa, "-o", os.path.join(d, "out.vcf")] + ([] if trio else ["--ignore-read-groups"])
    if rng.random() < 0.4:
        base.append("--no-priors")
    elif rng.random() < 0.4:
        base += ["--constant", rng.choice(["0.01", "1", "5"])]
    if trio:
        pedf = os.path.join(d, "t.ped")
        open(pedf, "w").write("fam child father mother 0 1\n")
        base += ["--ped", pedf, "--recombrate", rng.choice(["1.26", "50", "0.001"])]

    def one(thr):
        args = base + ["--gt-qual-threshold", thr, vcf, bam]
        rc, out, err, _ = sim.whatshap(args, ctx.overlay)
        info = {"kind": "cli", "args": [os.path.basename(str(a)) if str(a).startswith(d) else str(a) for a in args],
                "threshold": thr, "trio": trio}
        ctx.evaluated()
        if rc != 0:
            ctx.fail("whatshap genotype failed: " + err[-400:], info, key="cli-failed")
            return None
        recs = parse_out_vcf(os.path.join(d, "out.vcf"))
        called, nocall, amb = check_vcf_calls(ctx, recs, float(thr), info)
        ctx.dist("cli_called_frac", round(called / max(1, called + nocall), 1))
        ctx.extra["cli_calls_checked"] = ctx.extra.get("cli_calls_checked", 0) + called + nocall
        ctx.extra["cli_calls_ambiguous_by_rounding"] = ctx.extra.get("cli_calls_ambiguous_by_rounding", 0) + amb
        if called and (nocall or any((c.get("GQ") or 0) < 10000 for r in recs for c in r["calls"])):
            ctx.nontrivial("cli" + json.dumps(info["args"]) + str(idx) + str(ctx.seed))
        ctx.validated()
        return recs

    thr0 = rng.choice([0, 0, 1, 3, 5, 10, 20, 40, 90])
    recs = one(thr0)
    if recs is not None:
        # qualities of the calls with a unique maximum: thresholds right below / above one of them
        quals = []
        for r in recs:
            for c in r["calls"]:
                gl = c.get("GL")
                if gl and len(gl) == 3 and all(x is not None for x in gl):
                    srt = sorted(gl)
                    if srt[2] > srt[1] and srt[2] < -1e-7:
                        quals.append(-10.0 * math.log10(1.0 - 10.0 ** srt[2]))
        quals = [q for q in quals if 0.3 < q < 200]
        ctx.dist("cli_has_flip_quality", bool(quals))
        if quals:
            q = rng.choice(quals)
            for thr in (round(max(0.0, q - rng.choice([0.05, 0.2, 1.0])), 3), round(q + rng.choice([0.05, 0.2, 1.0]), 3)):
                one(thr)
    shutil.rmtree(d, ignore_errors=True)



# ------------------------------------------------------------------------------------------------
# glue level: `run_genotype` in-process with recorders; inaccessible variants before / between / after accessible ones
# ------------------------------------------------------------------------------------------------

def gen_glue_spec(rng, idx):
    """a data set whose VCF has variants that are NOT columns of the HMM (isolated: only reads covering nothing else;
    uncovered: no read at all; single-read) before, between and after clusters of jointly covered variants"""
    trio = (idx % 3 == 2)
    samples = ["mother", "father", "child"] if trio else ["S1"]
    segs = [rng.choice(["iso", "uncov", "iso"]), "cluster"]
    for _ in range(rng.randrange(1, 4)):
        segs.append(rng.choice(["iso", "uncov", "cluster", "cluster"]))
    if rng.random() < 0.5:
        segs.append(rng.choice(["iso", "uncov"]))
    if idx % 5 == 4:
        segs = ["cluster"] + segs[1:]          # also the all-accessible-first layout
    variants, reads, cur, n = [], [], 200, 0
    geno = {}

    def allele(sample, pos, q):
        g = geno.setdefault((sample, pos), rng.choice([0, 1, 1, 2]))
        a = [0, rng.randrange(2), 1][g]
        return a if rng.random() > 0.1 else 1 - a

    for kind in segs:
        if kind in ("iso", "uncov"):
            variants.append(cur)
            if kind == "iso":
                for sm in samples:
                    for _ in range(rng.randrange(1, 5)):
                        q = rng.randrange(8, 41)
                        reads.append({"name": f"r{n}", "sample": sm, "start": cur - rng.randrange(5, 40), "len": 60,
                                      "alts": [cur] if allele(sm, cur, q) else [], "qual": q}); n += 1
            cur += 400
        else:
            m = rng.randrange(2, 5)
            vs = [cur + 25 * i for i in range(m)]
            variants += vs
            for sm in samples:
                for _ in range(rng.randrange(1, 3 if trio else 5)):
                    i0 = rng.randrange(0, m - 1); i1 = rng.randrange(i0 + 1, m)
                    q = rng.randrange(8, 41)
                    start = vs[i0] - rng.randrange(3, 12); end = vs[i1] + rng.randrange(3, 12)
                    reads.append({"name": f"r{n}", "sample": sm, "start": start, "len": end - start,
                                  "alts": [v for v in vs[i0:i1 + 1] if allele(sm, v, q)], "qual": q}); n += 1
                for _ in range(rng.randrange(0, 3)):       # reads covering a single variant of the cluster: priors only
                    v = rng.choice(vs); q = rng.randrange(8, 41)
                    reads.append({"name": f"r{n}", "sample": sm, "start": v - 8, "len": 16,
                                  "alts": [v] if allele(sm, v, q) else [], "qual": q}); n += 1
            cur += 25 * m + 400
    return {"kind": "glue", "samples": samples, "trio": trio, "length": cur + 200, "variants": variants, "reads": reads,
            "nopriors": rng.random() < 0.25, "constant": rng.choice([0.0, 0.0, 0.01, 1.0]),
            "recombrate": rng.choice([1.26, 50.0, 0.001]), "thr": rng.choice([0, 0, 3, 10])}


def glue_case(ctx, spec, tag="glue"):
    """runs the real `run_genotype` in-process on the data set of `spec`, recording what reaches `Pedigree.add_individual`
    and `GenotypeDPTable`; demands (cli-prior-column) that column i carries the prior of the variant at accessible position
    i - priors recomputed from `compute_genotypes` + the documented regularisation, and read back from --prioroutput - and
    (cli-posterior) that the likelihoods (table and output VCF) are the HMM posterior for the selected reads and THOSE priors"""
    from harness.gen import sim
    import whatshap.cli.genotype as Gm
    ctx.evaluated()
    d = os.path.join(ctx.workdir(), tag)
    shutil.rmtree(d, ignore_errors=True); os.makedirs(d)
    L, samples = spec["length"], spec["samples"]
    contigs = {"chr1": "A" * L}
    breads = []
    for r in spec["reads"]:
        seq = ["A"] * r["len"]
        for v in r["alts"]:
            seq[v - r["start"]] = "C"
        breads.append({"name": r["name"], "chrom": "chr1", "start": r["start"], "cigar": [(0, r["len"])], "seq": "".join(seq),
                       "qual": r["qual"], "rg": "rg_" + r["sample"]})
    bam = os.path.join(d, "in.bam")
    sim.write_bam(bam, contigs, breads, read_groups=[("rg_" + sm, sm) for sm in samples])
    vcf = os.path.join(d, "in.vcf")
    with open(vcf, "w") as f:
        f.write("##fileformat=VCFv4.2\n##contig=<ID=chr1,length=%d>\n" % L)
        f.write('##FORMAT=<ID=GT,Number=1,Type=String,Description="Genotype">\n')
        f.write("#CHROM\tPOS\tID\tREF\tALT\tQUAL\tFILTER\tINFO\tFORMAT\t" + "\t".join(samples) + "\n")
        for v in spec["variants"]:
            f.write("chr1\t%d\t.\tA\tC\t.\tPASS\t.\tGT" % (v + 1) + "\t0/1" * len(samples) + "\n")
    out, prior = os.path.join(d, "out.vcf"), os.path.join(d, "prior.vcf")
    pedf = None
    if spec["trio"]:
        pedf = os.path.join(d, "t.ped"); open(pedf, "w").write("fam child father mother 0 1\n")

    rec = {"cg": [], "fam": []}
    orig = (Gm.compute_genotypes, Gm.Pedigree, Gm.GenotypeDPTable)

    def cg(readset, positions=None):
        g, l = orig[0](readset, positions)
        rec["cg"].append((list(positions), [[float(x[0]), float(x[1]), float(x[2])] for x in l]))
        return g, l

    class PedRec:
        def __init__(self, ids):
            self._p = orig[1](ids); self.ind = []; self.rel = []
            rec["fam"].append(self)

        def add_individual(self, sample, genotypes, gls):
            self.ind.append((sample, len(genotypes), [[float(x) for x in g] for g in gls]))
            return self._p.add_individual(sample, genotypes, gls)

        def add_relationship(self, father_id, mother_id, child_id):
            self.rel.append((father_id, mother_id, child_id))
            return self._p.add_relationship(father_id=father_id, mother_id=mother_id, child_id=child_id)

        def __getattr__(self, k):
            return getattr(self._p, k)

    class TableRec:
        def __init__(self, ids, reads, recomb, pedigree, positions):
            self.fam = pedigree
            pedigree.ids = ids
            pedigree.reads = [(rd.sample_id, [(v.position, v.allele, v.quality) for v in rd]) for rd in reads]
            pedigree.recomb = list(recomb); pedigree.positions = list(positions); pedigree.lik = {}
            self._t = orig[2](ids, reads, recomb, pedigree._p, positions)

        def get_genotype_likelihoods(self, s, pos):
            r = self._t.get_genotype_likelihoods(s, pos)
            self.fam.lik[(s, pos)] = [float(x) for x in r]
            return r

    Gm.compute_genotypes, Gm.Pedigree, Gm.GenotypeDPTable = cg, PedRec, TableRec
    import logging
    lvl = logging.getLogger("whatshap").level
    try:
        logging.getLogger("whatshap").setLevel(logging.ERROR)
        Gm.run_genotype([bam], vcf, output=out, prioroutput=prior, nopriors=spec["nopriors"], ped=pedf,
                        recombrate=spec["recombrate"], gt_qual_threshold=spec["thr"], constant=spec["constant"],
                        write_command_line_header=False)
    except Exception as e:     # noqa
        ctx.fail(f"run_genotype raised {type(e).__name__}: {e}", spec, key="cli-failed")
        return
    finally:
        Gm.compute_genotypes, Gm.Pedigree, Gm.GenotypeDPTable = orig
        logging.getLogger("whatshap").setLevel(lvl)

    V = spec["variants"]
    # expected prior of (sample, record): the documented prior model
    exp = {}
    if spec["nopriors"]:
        for sm in samples:
            exp[sm] = [[1 / 3, 1 / 3, 1 / 3] for _ in V]
    else:
        if len(rec["cg"]) != len(samples):
            ctx.disagree("c08.glue/compute-genotypes-calls", spec, len(samples), len(rec["cg"])); return
        for sm, (pos, l) in zip(samples, rec["cg"]):
            c = spec["constant"]
            exp[sm] = [[(g[0] + c) / (g[0] + g[1] + g[2] + 3 * c), (g[1] + c) / (g[0] + g[1] + g[2] + 3 * c),
                        (g[2] + c) / (g[0] + g[1] + g[2] + 3 * c)] for g in l]
    # ... as reported by --prioroutput (6 digits)
    prec = parse_out_vcf(prior)
    for ri, r in enumerate(prec):
        for si, c in enumerate(r["calls"]):
            gl = c.get("GL")
            if gl and all(x is not None for x in gl):
                for g in range(3):
                    e = exp[samples[si]][ri][g]
                    le = max(math.log10(e), -1000) if e > 0 else -1000
                    if abs(gl[g] - le) > 6e-6 * abs(le) + 2e-6:
                        ctx.fail(f"--prioroutput record {ri} sample {samples[si]}: GL {gl} is not log10 of the prior {exp[samples[si]][ri]}",
                                 spec, key="cli-prior-column")
    orec = parse_out_vcf(out)
    n_inacc_before = 0
    reqs, back = [], []
    for fam in rec["fam"]:
        if not hasattr(fam, "positions"):
            continue
        acc = fam.positions
        idx_of = {v: i for i, v in enumerate(V)}
        if any(a not in idx_of for a in acc):
            ctx.fail(f"accessible position not a VCF record: {acc}", spec, key="cli-prior-column"); continue
        rows = [idx_of[a] for a in acc]
        if rows and rows != list(range(len(rows))):
            n_inacc_before += 1
        names = [x[0] for x in fam.ind]
        # (1) alignment of the priors handed to the DP
        for (sm, ng, gls) in fam.ind:
            want = [exp[sm][r] for r in rows]
            ok = len(gls) == len(acc) and ng == len(acc) and all(
                abs(a - b) <= 1e-12 * max(abs(a), abs(b)) for x, y in zip(gls, want) for a, b in zip(x, y))
            if not ok:
                bad = next((i for i, (x, y) in enumerate(zip(gls, want)) if any(abs(a - b) > 1e-12 * max(abs(a), abs(b)) for a, b in zip(x, y))), None)
                ctx.fail(f"sample {sm}: {len(gls)} priors handed to the DP for {len(acc)} columns; column {bad} (variant at {acc[bad] if bad is not None and bad < len(acc) else '?'}, VCF record "
                         f"{rows[bad] if bad is not None and bad < len(rows) else '?'}) got {gls[bad] if bad is not None else None}, the prior of that variant is {want[bad] if bad is not None else None}",
                         dict(spec, accessible=acc), key="cli-prior-column")
            # the Lean glue model on the same lists (opaque priors = bit patterns)
            reqs.append({"op": "c08.glue", "positions": V, "acc": acc, "priors": [[f2b(x) for x in p] for p in exp[sm]]})
            back.append(("glue", sm, [[f2b(x) for x in p] for p in gls], None, None))
        # (2) the posterior for the selected reads and the priors of the variants the columns stand for
        col_of = {a: i for i, a in enumerate(acc)}
        sid = {fam.ids[nm]: i for i, nm in enumerate(names)}
        case = {"ped": "cli", "n_ind": len(names), "n_cols": len(acc),
                "triples": [[names.index(f), names.index(m), names.index(c)] for f, m, c in fam.rel],
                "reads": [{"ind": sid[s], "entries": [[col_of[p], a, q] for p, a, q in ents]} for s, ents in fam.reads],
                "priors": [[exp[nm][r] for r in rows] for nm in names], "recomb": fam.recomb}
        if not acc or not G.well_formed(case) or any(min(p) <= 0 for ind in case["priors"] for p in ind):
            ctx.dist("glue_skipped_posterior", True); continue
        impl = [[fam.lik.get((nm, c)) for c in range(len(acc))] for nm in names]
        if any(x is None for ind in impl for x in ind):
            ctx.disagree("c08.glue/likelihoods-not-read", spec, "all", "missing"); continue
        if G.oracle_cost(case) <= 2e5:
            post = G.oracle(case)
            dev = max_dev(impl, post)
            ctx.extra["glue_oracle_checked"] = ctx.extra.get("glue_oracle_checked", 0) + 1
            if dev > REL:
                ctx.fail(f"run_genotype: likelihoods differ by rel. {dev:.3g} from the HMM posterior (numpy oracle) for the selected reads and the priors whatshap "
                         f"computed for the variants at the accessible positions", dict(spec, case=case, impl=impl, oracle=post), key="cli-posterior")
        if G.impl_cost(case) <= IMPL_BUDGET:
            reqs.append(model_req(case, "c08.fb")); back.append(("fb", None, impl, case, None))
        # output VCF: GL of the accessible records = log10 of that table
        for i, nm in enumerate(names):
            si = samples.index(nm)
            for c, r in enumerate(rows):
                gl = orec[r]["calls"][si].get("GL")
                for g in range(3):
                    p = impl[i][c][g]
                    lp = max(math.log10(p), -1000) if p > 0 else -1000
                    if gl is None or gl[g] is None or abs(gl[g] - lp) > 6e-6 * abs(lp) + 2e-6:
                        ctx.fail(f"output VCF record {r} sample {nm}: GL {gl} is not log10 of the table's likelihoods {impl[i][c]}", spec, key="cli-posterior")
    ctx.dist("glue_inaccessible_before_accessible", bool(n_inacc_before))
    if n_inacc_before:
        ctx.nontrivial("glue" + json.dumps(spec, sort_keys=True))
    for (kind, sm, impl, case, _), ans in zip(back, ctx.model.ask_many(reqs) if reqs else []):
        if kind == "glue":
            if not isinstance(ans, dict) or ans.get("cols") != impl:
                ctx.disagree("c08.glue", spec, impl, ans)
        else:
            lik = decode(ans, "lik")
            if lik is None:
                ctx.disagree("c08.fb", case, "likelihoods", ans); continue
            ctx.extra["glue_model_checked"] = ctx.extra.get("glue_model_checked", 0) + 1
            dev = max_dev(impl, lik)
            if dev > REL:
                ctx.fail(f"run_genotype: likelihoods differ by rel. {dev:.3g} from the HMM posterior (Lean model, = brute force by theorem) for the selected reads "
                         f"and the priors of the variants at the accessible positions", dict(spec, case=case, impl=impl, model=lik), key="cli-posterior")
    ctx.validated()
    shutil.rmtree(d, ignore_errors=True)

# ------------------------------------------------------------------------------------------------
# run
# ------------------------------------------------------------------------------------------------

class Batch:
    def __init__(self, ctx):
        self.ctx, self.items = ctx, []

    def add(self, case, impl, want_brute, scal):
        self.items.append((case, impl, want_brute, scal))
        if len(self.items) >= 40:
            self.flush()

    def flush(self):
        ctx = self.ctx
        reqs, back = [], []
        for n, (case, impl, want_brute, scal) in enumerate(self.items):
            reqs.append(model_req(case, "c08.fb")); back.append((n, "fb"))
            if scal:
                reqs.append(model_req(case, "c08.fb", scal)); back.append((n, "fb-scaled"))
            if want_brute:
                reqs.append(model_req(case, "c08.brute")); back.append((n, "brute"))
            ic = G.impl_cost(case)
            self.n_seen = getattr(self, "n_seen", 0) + 1
            if ic <= IMPL_SMALL or (ic <= IMPL_BUDGET and self.n_seen % 12 == 0):
                # the implementation-structured model (Gray walk, incremental cost computers, scatter-adds, the code's own
                # scaling sums, check-pointing): with the code's spacing k = floor(sqrt(n)) and with another spacing
                reqs.append(model_req(case, "c08.impl")); back.append((n, "impl"))
                k2 = 1 + (n * 7 + case["n_cols"]) % max(1, case["n_cols"])
                reqs.append(dict(model_req(case, "c08.impl"), k=k2)); back.append((n, "impl-k%d" % k2))
        answers = ctx.model.ask_many(reqs) if reqs else []
        for (n, kind), ans in zip(back, answers):
            case, impl, _, scal = self.items[n]
            if kind.startswith("impl"):
                lik = decode(ans, "lik")
                if lik is None:
                    ctx.disagree("c08.impl", case, "likelihoods", ans); continue
                ctx.extra["impl_model_checked"] = ctx.extra.get("impl_model_checked", 0) + 1
                if any(ans.get("recomputed", [])):
                    ctx.extra["impl_model_with_recomputation"] = ctx.extra.get("impl_model_with_recomputation", 0) + 1
                dev = max_dev(impl, lik)
                ctx.extra["max_rel_dev_impl_model"] = max(ctx.extra.get("max_rel_dev_impl_model", 0.0), dev)
                if dev > REL:
                    ctx.disagree("c08." + kind, case, impl, lik)
                if kind == "impl":
                    # where the forward pass finds no stored column and re-computes a whole block (down from the next stored
                    # one): at the first column after every multiple of k = floor(sqrt(n))
                    nc = case["n_cols"]; kk = math.isqrt(nc)
                    want = [bool(kk > 1 and c + 1 < nc and c % kk == 1) for c in range(nc)]
                    if ans.get("recomputed") != want:
                        ctx.disagree("c08.impl/recomputed-columns", case, want, ans.get("recomputed"))
                continue
            if kind == "brute":
                post = decode(ans, "post")
                if post is None:
                    ctx.disagree("c08.brute", case, "likelihoods", ans); continue
                ctx.extra["lean_brute_checked"] = ctx.extra.get("lean_brute_checked", 0) + 1
                dev = max_dev(impl, post)
                if dev > REL:
                    ctx.fail(f"likelihoods differ from the brute-force posterior (Lean spec) by rel. {dev:.3g}",
                             dict(case, impl=impl, spec=post), key="posterior-lean-spec")
            else:
                lik = decode(ans, "lik")
                if lik is None:
                    ctx.disagree("c08." + kind, case, "likelihoods", ans); continue
                dev = max_dev(impl, lik)
                ctx.extra["max_rel_dev_model"] = max(ctx.extra.get("max_rel_dev_model", 0.0), dev)
                if dev > REL:
                    ctx.disagree("c08." + kind, dict(case, scal=scal) if kind == "fb-scaled" else case, impl, lik)
        self.items = []


def one_case(ctx, batch, case, oracle_budget=1e5, brute_budget=3e4, corpus=False):
    rng = ctx.rng
    ctx.evaluated()
    impl = run_impl(case)
    cov = G.coverage(case)
    ctx.dist("pedigree", case.get("ped", "?")); ctx.dist("n_cols", case["n_cols"]); ctx.dist("max_cov", max(cov)); ctx.dist("n_reads", len(case["reads"]))
    uniform = all(all(abs(x - 1 / 3) < 1e-12 for x in col) for ind in impl for col in ind)
    if max(cov) >= 2 and not uniform:
        ctx.nontrivial(json.dumps(case, sort_keys=True))
    ctx.sample({"case": case, "impl": impl})
    # (1) likelihoods of every call form a distribution
    for i, ind in enumerate(impl):
        for c, col in enumerate(ind):
            if any(x != x for x in col):
                ctx.fail("NaN likelihood", dict(case, impl=impl), key="nan"); return
            if abs(sum(col) - 1.0) > 1e-9 or min(col) < 0:
                ctx.fail(f"likelihoods of individual {i} column {c} are not a distribution: {col}", dict(case, impl=impl), key="not-normalised")
    # (2) the posterior, independently
    if G.oracle_cost(case) <= oracle_budget:
        post = G.oracle(case)
        ctx.extra["oracle_checked"] = ctx.extra.get("oracle_checked", 0) + 1
        dev = max_dev(impl, post)
        ctx.extra["max_rel_dev_oracle"] = max(ctx.extra.get("max_rel_dev_oracle", 0.0), dev)
        if dev > REL:
            ctx.fail(f"likelihoods differ from the HMM posterior (independent oracle) by rel. {dev:.3g}",
                     dict(case, impl=impl, oracle=post), key="posterior-oracle")
    # (3) GT rule on the real determine_genotype
    for ind in impl:
        for col in ind:
            for thr in (0.0, rng.choice([0.5, 0.9, 0.99, 1 - 1e-6]), max(col), sorted(col)[1]):
                ctx.extra["gt_rule_checked"] = ctx.extra.get("gt_rule_checked", 0) + 1
                if impl_gt(col, thr) != expected_gt(col, thr):
                    ctx.fail(f"determine_genotype({col}, {thr}) = {impl_gt(col, thr)}, unique-maximum-above-threshold rule gives {expected_gt(col, thr)}",
                             {"kind": "gt", "gl": col, "thr": thr}, key="gt-rule")
    # (4) the Lean model, unscaled and with random positive scalings; the Lean brute-force spec when tiny
    scal = None
    if rng.random() < 0.5 or corpus:
        n = case["n_cols"]
        scal = {k: [rng.choice([1e-3, 0.5, 1.0, 3.0, 1e3]) * (0.5 + rng.random()) for _ in range(n)] for k in ("fw", "bw", "bw2")}
    bc = G.brute_cost(case)
    big_ok = (not ctx.quick) and bc <= 3e5 and ctx.extra.get("lean_brute_big", 0) < 40
    if bc > brute_budget and big_ok:
        ctx.extra["lean_brute_big"] = ctx.extra.get("lean_brute_big", 0) + 1
    batch.add(case, impl, bc <= brute_budget or big_ok, scal)



# ------------------------------------------------------------------------------------------------
# exact rational cross-check
# ------------------------------------------------------------------------------------------------

EXACT_QUALS = [0, 10, 20, 30, 40, 60]
EXACT_RECOMB = [0, 10, 20, 30, 40, 80]


def exactify(case):
    """qualities and recombination costs to multiples of 10: then 10^(-q/10) is a rational number and every parameter
    of the HMM (priors are doubles = dyadic rationals) has an exact value the Lean model can compute with"""
    case = json.loads(json.dumps(case))
    for r in case["reads"]:
        for e in r["entries"]:
            e[2] = min(EXACT_QUALS, key=lambda v: abs(v - e[2]))
    case["recomb"] = [min(EXACT_RECOMB, key=lambda v: abs(v - x)) for x in case["recomb"]]
    return case


def frac_str(x):
    from fractions import Fraction
    f = Fraction(float(x))
    return f"{f.numerator}/{f.denominator}"


def parse_frac(sx):
    from fractions import Fraction
    a, b = sx.split("/")
    return Fraction(int(a), int(b))


class ExactBatch:
    """implementation floats against the posterior evaluated over exact rationals by the Lean model (K = Rat)"""

    def __init__(self, ctx):
        self.ctx, self.items = ctx, []

    def add(self, case, impl, brute):
        self.items.append((case, impl, brute))
        if len(self.items) >= 40:
            self.flush()

    def flush(self):
        from fractions import Fraction
        ctx = self.ctx
        reqs = []
        for case, impl, brute in self.items:
            req = {"op": "c08.fbrat", "n_cols": case["n_cols"], "n_ind": case["n_ind"], "triples": case["triples"], "reads": case["reads"],
                   "recomb": case["recomb"], "priors": [[[frac_str(x) for x in p] for p in ind] for ind in case["priors"]], "brute": bool(brute),
                   "em0": frac_str(0.9999)}     # genotypecolumncostcomputer.cpp: `result[0] = 0.9999;` (a double literal)
            reqs.append(req)
        # the implementation-structured model over exact rationals, with the code's spacing and with a second spacing:
        # must be the IDENTICAL rationals (impl_posterior_eq_model, ckpt_transparent)
        ireqs, iback = [], []
        for n, (case, impl, brute) in enumerate(self.items):
            if G.impl_cost(case) <= IMPL_BUDGET_RAT and len(ireqs) < 16:
                base = dict(reqs[n], op="c08.implrat"); base.pop("brute", None)
                ireqs.append(base); iback.append((n, None))
                k2 = 1 + (n * 5 + case["n_cols"]) % max(1, case["n_cols"])
                ireqs.append(dict(base, k=k2)); iback.append((n, k2))
        answers = ctx.model.ask_many(reqs + ireqs) if reqs else []
        ianswers = answers[len(reqs):]; answers = answers[:len(reqs)]
        for (n, k2), ians in zip(iback, ianswers):
            case = self.items[n][0]
            if not isinstance(ians, dict) or "lik" not in ians:
                ctx.disagree("c08.implrat", case, "likelihoods", ians); continue
            if ians.get("zero_scaling") or (isinstance(answers[n], dict) and answers[n].get("zero_total")):
                continue
            ctx.extra["exact_impl_model_checked"] = ctx.extra.get("exact_impl_model_checked", 0) + 1
            if not isinstance(answers[n], dict) or ians["lik"] != answers[n].get("lik"):
                ctx.disagree("c08.implrat/impl-structured-vs-forward-backward" + ("" if k2 is None else "/k=%d" % k2), case,
                             "identical rationals", "different")
        for (case, impl, brute), ans in zip(self.items, answers):
            if not isinstance(ans, dict) or "lik" not in ans:
                ctx.disagree("c08.fbrat", case, "likelihoods", ans); continue
            if ans.get("zero_total"):
                ctx.observe("exact cross-check: an instance whose exact normalisation is 0 was generated (skipped)"); continue
            if brute:
                ctx.extra["exact_brute_checked"] = ctx.extra.get("exact_brute_checked", 0) + 1
                if ans.get("post") != ans["lik"]:
                    ctx.disagree("c08.fbrat/forward-backward-vs-enumeration", case, "identical rationals", "different")
            worst, where = 0.0, None
            for i, ind in enumerate(ans["lik"]):
                for c, col in enumerate(ind):
                    for g, sx in enumerate(col):
                        ex = parse_frac(sx)
                        x = impl[i][c][g]
                        if x != x:
                            worst, where = float("inf"), (i, c, g, x, float(ex)); continue
                        d = abs(Fraction(x) - ex)
                        if d <= Fraction(1, 10 ** 300):
                            continue
                        rel = float(d / max(abs(ex), abs(Fraction(x))))
                        if rel > worst:
                            worst, where = rel, (i, c, g, x, float(ex))
            ctx.extra["exact_checked"] = ctx.extra.get("exact_checked", 0) + 1
            ctx.extra["max_rel_dev_exact"] = max(ctx.extra.get("max_rel_dev_exact", 0.0), worst)
            if worst > EXACT_REL:
                i, c, g, x, ex = where
                ctx.fail(f"likelihood of individual {i}, column {c}, genotype {g} is {x!r}; the exact posterior (rational arithmetic) is "
                         f"{ex!r}: relative deviation {worst:.3g} > {EXACT_REL}", dict(case, exact=True, impl=impl), key="posterior-exact")
        self.items = []


def exact_case(ctx, ebatch, case, brute_budget=1500):
    ctx.evaluated()
    impl = run_impl(case)
    cov = G.coverage(case)
    if max(cov) >= 2:
        ctx.nontrivial("exact:" + json.dumps(case, sort_keys=True))
    ctx.dist("exact n_cols", case["n_cols"]); ctx.dist("exact pedigree", case.get("ped", "?"))
    n_brute = ctx.extra.get("exact_brute_requested", 0)
    brute = G.brute_cost(case) <= brute_budget and n_brute < (30 if ctx.quick else 150) * ctx.scale
    if brute:
        ctx.extra["exact_brute_requested"] = n_brute + 1
    ebatch.add(case, impl, brute)


# ------------------------------------------------------------------------------------------------
# GenotypeVcfWriter.write_genotypes on crafted likelihood triples: GL / GQ / threshold on the integer side
# ------------------------------------------------------------------------------------------------

def crafted_triples(rng, n):
    out = []
    while len(out) < n:
        r = rng.random()
        if r < 0.30:
            x = [rng.random() + 1e-3 for _ in range(3)]; s = sum(x); l = [v / s for v in x]
        elif r < 0.55:
            # peaked: the other mass is 10^-k (+ noise), so GQ walks through the whole range
            k = rng.uniform(0.0, 16.0); m = 10.0 ** (-k); a = m * rng.random()
            l = [a, m - a, 1.0 - m]; rng.shuffle(l)
        elif r < 0.65:
            # other mass next to a rounding boundary of GQ: 10^(-(n+0.5)/10) * (1 +- delta)
            nq = rng.randrange(0, 120); m = 10.0 ** (-(nq + 0.5) / 10.0) * (1.0 + rng.choice([-1, 1]) * rng.choice([1e-3, 1e-6, 1e-9]))
            a = m * rng.random(); l = [a, m - a, 1.0 - m]; rng.shuffle(l)
        elif r < 0.75:
            l = rng.choice([[0.0, 0.0, 1.0], [0.0, 1.0, 0.0], [0.0, 0.0, 0.0], [0.5, 0.5, 0.0], [1 / 3, 1 / 3, 1 / 3], [0.25, 0.5, 0.25],
                            [1e-300, 1.0, 5e-324], [5e-324, 5e-324, 1.0], [1e-200, 1.0 - 1e-12, 1e-12], [0.0, 1e-310, 1.0]])
            l = list(l)
        elif r < 0.85:
            # not normalised (the writer takes what it is given): masses above 1 give GQ <= 0
            l = [rng.choice([0.1, 0.5, 0.7, 0.9, 1.0, 1.3, 2.0, 7.0]) * (1 + 1e-3 * rng.random()) for _ in range(3)]
        else:
            # (the model's exact integer search is linear in GQ: very small masses are kept rare)
            e = 10.0 ** (rng.uniform(-320, -40) if rng.random() < 0.1 else rng.uniform(-40, -1)); l = [e, e * rng.random(), 1.0]; rng.shuffle(l)
        out.append([float(v) for v in l])
    return out


def exact_gq(q):
    """min(round(-10 log10 q), 10000) with 60-digit decimals (independent of the Lean integer search); None = too close to a tie"""
    import decimal
    if q <= 0:
        return 10000
    with decimal.localcontext() as c:
        c.prec = 60
        c.prec = 1200
        dq = decimal.Decimal(q.numerator) / decimal.Decimal(q.denominator)   # a double: exact with < 1100 digits
        c.prec = 60
        f = -10 * (+dq).log10()
        fl = f.to_integral_value(rounding=decimal.ROUND_FLOOR)
        frac = f - fl
        if abs(frac - decimal.Decimal("0.5")) < decimal.Decimal("1e-9"):
            return None
        n = int(fl) + (1 if frac > decimal.Decimal("0.5") else 0)
    return min(n, 10000)


def writer_cases(ctx, n):
    from fractions import Fraction
    from whatshap.vcf import VcfReader, GenotypeVcfWriter
    from whatshap.core import PhredGenotypeLikelihoods
    from whatshap.cli.genotype import determine_genotype
    rng = ctx.rng
    d = os.path.join(ctx.workdir(), "writer"); os.makedirs(d, exist_ok=True)
    inp, outp = os.path.join(d, "in.vcf"), os.path.join(d, "out.vcf")
    triples = crafted_triples(rng, n)
    thrs = [rng.choice([0, 0, 1, 3, 5, 10, 13, 20, 30, 40, 60, 90, 150]) for _ in triples]
    with open(inp, "w") as f:
        f.write("##fileformat=VCFv4.2\n##contig=<ID=chr1,length=100000000>\n##FORMAT=<ID=GT,Number=1,Type=String,Description=\"g\">\n"
                "#CHROM\tPOS\tID\tREF\tALT\tQUAL\tFILTER\tINFO\tFORMAT\ts1\n")
        for k in range(n):
            f.write(f"chr1\t{100 + 10 * k}\t.\tA\tC\t.\t.\t.\tGT\t0/1\n")
    gts = []
    with open(outp, "w") as out:
        with GenotypeVcfWriter(command_line=None, in_path=inp, out_file=out) as w:
            with VcfReader(inp, only_snvs=False, genotype_likelihoods=False, ignore_genotypes=True) as r:
                for table in r:
                    gls = [PhredGenotypeLikelihoods(t) for t in triples]
                    # genotype.py: gt_prob = 1.0 - (10 ** (-gt_qual_threshold / 10.0)); geno = determine_genotype(likelihoods, gt_prob)
                    gts = [determine_genotype(g, 1.0 - (10 ** (-thr / 10.0))) for g, thr in zip(gls, thrs)]
                    table.set_genotype_likelihoods_of("s1", gls)
                    table.set_genotypes_of("s1", gts)
                    w.write_genotypes(table.chromosome, table, False)
    recs = parse_out_vcf(outp)
    if len(recs) != n:
        ctx.fail(f"writer produced {len(recs)} records for {n} variants", {"kind": "writer"}, key="writer-records"); return
    called = [None if g.is_none() else sum(g.as_vector()) for g in gts]
    reqs = [{"op": "c08.conv", "gl": [f2b(x) for x in l], "g": g} for l, g in zip(triples, called)]
    reqs2, idx2 = [], []
    for k, (l, g, thr) in enumerate(zip(triples, called, thrs)):
        m = max(l)
        if m <= 1.0:
            fr = Fraction(m)
            reqs2.append({"op": "c08.gq", "a": fr.numerator, "b": fr.denominator, "thr": thr}); idx2.append(k)
    answers = ctx.model.ask_many(reqs)
    answers2 = dict(zip(idx2, ctx.model.ask_many(reqs2))) if reqs2 else {}
    amb = 0
    for k, (l, g, thr, rec, ans) in enumerate(zip(triples, called, thrs, recs, answers)):
        ctx.evaluated()
        c = rec["calls"][0]
        case = {"kind": "writer", "gl": l, "thr": thr, "called": g, "written": {"GT": str(c.get("GT")), "GL": c.get("GL"), "GQ": c.get("GQ")}}
        ctx.dist("writer GQ", "none" if c.get("GQ") is None else min(c["GQ"] // 10 * 10, 200))
        # GT as determined
        gt = c.get("GT")
        alleles = None if gt is None or gt[0] is None or any(a is None for a in gt[0]) else gt[0]
        if (None if alleles is None else sum(alleles)) != g:
            ctx.fail(f"written GT {alleles} is not the determined genotype {g}", case, key="writer-gt")
        # GL: log10 of the likelihood, floor -1000 (also for 0), as text with 6 significant digits
        mgl = [b2f(x) for x in ans["GL"]]
        wgl = c.get("GL")
        if wgl is None or len(wgl) != 3 or any(x is None for x in wgl):
            ctx.fail("no GL written", case, key="writer-gl")
        else:
            for j in range(3):
                exp = max(math.log10(l[j]), -1000) if l[j] > 0 else -1000.0
                if abs(wgl[j] - exp) > 6e-6 * abs(exp) + 1e-300:
                    ctx.fail(f"GL[{j}] = {wgl[j]} for likelihood {l[j]!r}: log10 (floor -1000) is {exp!r}", case, key="writer-gl")
                if mgl[j] != exp:
                    ctx.disagree("c08.conv/GL", case, exp, mgl[j])
        # GQ
        if g is None:
            if c.get("GQ") is not None:
                ctx.fail("GQ written for ./.", case, key="writer-gq-on-nocall")
            if ans.get("GQ") is not None:
                ctx.disagree("c08.conv/GQ", case, None, ans.get("GQ"))
            continue
        q = 0
        for j in range(3):
            if j != g:
                q = q + l[j]                 # what `sum(...)` does
        if b2f(ans["q"]) != q:
            ctx.disagree("c08.conv/geno_q", case, q, b2f(ans["q"]))
        want = exact_gq(Fraction(q)) if q > 0 else 10000
        if want is None:
            amb += 1; continue
        if c.get("GQ") != want:
            ctx.fail(f"GQ {c.get('GQ')} written for a mass {q!r} of the other genotypes: min(round(-10 log10), 10000) = {want}", case, key="writer-gq")
        if ans.get("GQ") != want:
            ctx.disagree("c08.conv/GQ", case, want, ans.get("GQ"))
        if not (-3300 <= c.get("GQ", 0) <= 10000):
            ctx.fail(f"GQ {c.get('GQ')} outside [-3300, 10000]", case, key="writer-gq-range")
        # threshold and GQ agree (normalised triples, mass not dominated by cancellation)
        if abs(sum(l) - 1.0) <= 1e-15 and q >= 1e-9 and c.get("GQ") is not None and c["GQ"] < thr:
            ctx.fail(f"genotype called at phred threshold {thr} but GQ is {c['GQ']}", case, key="writer-gq-below-threshold")
        a2 = answers2.get(k)
        if a2 is not None:
            gt_prob = 1.0 - (10 ** (-thr / 10.0))
            srt = sorted(l)
            if abs(srt[2] - gt_prob) > 1e-12 and srt[2] > srt[1]:
                # exact threshold test of the model = the float test of determine_genotype away from the boundary
                if bool(a2["above"]) != (srt[2] > gt_prob):
                    ctx.disagree("c08.gq/aboveThr", case, srt[2] > gt_prob, a2)
        ctx.nontrivial("writer:" + json.dumps([l, thr]))
    ctx.extra["writer_calls"] = ctx.extra.get("writer_calls", 0) + n
    ctx.extra["writer_gq_near_tie_skipped"] = ctx.extra.get("writer_gq_near_tie_skipped", 0) + amb
    shutil.rmtree(d, ignore_errors=True)


def gt_edge_cases(ctx):
    """ties and thresholds on exact floats: real determine_genotype vs the rule vs the Lean model"""
    vals = [0.0, 0.1, 0.25, 1 / 3, 0.5, 0.9, 1.0]
    reqs, meta = [], []
    for a in vals:
        for b in vals:
            for c in vals:
                for thr in (0.0, 0.25, 1 / 3, 0.5, 0.9, 0.9999):
                    l = [a, b, c]
                    ctx.evaluated()
                    e, i = expected_gt(l, thr), impl_gt(l, thr)
                    if e != i:
                        ctx.fail(f"determine_genotype({l}, {thr}) = {i}, rule gives {e}", {"kind": "gt", "gl": l, "thr": thr}, key="gt-rule")
                    reqs.append({"op": "c08.call", "gl": [f2b(x) for x in l], "thr": f2b(thr)}); meta.append((l, thr, i))
    for (l, thr, i), ans in zip(meta, ctx.model.ask_many(reqs)):
        if ans.get("gt", "?") != i:
            ctx.disagree("c08.call", {"kind": "gt", "gl": l, "thr": thr}, i, ans)
        elif i is not None:
            mass = b2f(ans["mass"])
            if not close(mass, sum(l[k] for k in range(3) if k != i), 1e-12):
                ctx.disagree("c08.call.mass", {"kind": "gt", "gl": l, "thr": thr}, sum(l[k] for k in range(3) if k != i), mass)
    ctx.nontrivial("gt-edge-table")


def replay_case(ctx, batch, case):
    if case.get("kind") == "gt":
        e, i = expected_gt(case["gl"], case["thr"]), impl_gt(case["gl"], case["thr"])
        ctx.evaluated()
        if e != i:
            ctx.fail(f"determine_genotype({case['gl']}, {case['thr']}) = {i}, rule gives {e}", case, key="gt-rule")
    elif case.get("kind") == "writer":
        writer_cases(ctx, 400)
    elif case.get("kind") == "glue":
        glue_case(ctx, case, tag="glue-replay")
    elif case.get("kind") == "cli":
        ctx.observe("cli replay cases are regenerated from the seed, not replayed")
    else:
        exact = case.get("exact")
        case = {k: v for k, v in case.items() if k not in ("impl", "oracle", "spec", "scal", "exact")}
        one_case(ctx, batch, case, corpus=True)
        if exact:
            eb = ExactBatch(ctx)
            exact_case(ctx, eb, case)
            eb.flush()


def run(ctx):
    rng = ctx.rng
    batch = Batch(ctx)
    if ctx.replay:
        replay_case(ctx, batch, json.load(open(ctx.replay))["case"])
        batch.flush(); return
    for _, c in ctx.corpus():
        replay_case(ctx, batch, c)
    gt_edge_cases(ctx)

    n_small = (400 if ctx.quick else 3000) * ctx.scale
    n_large = (220 if ctx.quick else 1500) * ctx.scale
    for k in range(n_small):
        ped = None
        case = G.gen_instance(rng, ped=ped, max_cov=rng.choice([2, 3, 4]), big_q=(k % 7 == 0), uncovered_ok=(k % 3 != 0))
        if G.n_local_states(case) >= 256:
            case = G.gen_instance(rng, ped=case["ped"], n_cols=rng.choice([2, 3]), n_reads=rng.randrange(1, 5), max_cov=3)
        one_case(ctx, batch, case)
    for k in range(n_large):
        ped = rng.choice(["single"] * 6 + ["trio"] * 3 + ["trio_child_first", "quartet", "two_unrelated"] + (["three_gen"] if not ctx.quick and k % 10 == 0 else []))
        S = G.n_local_states({"triples": G.PEDIGREES[ped][1], "n_ind": G.PEDIGREES[ped][0]})
        if S <= 4:
            n_cols, cov, nr = rng.randrange(4, 17), rng.choice([3, 5, 6, 7]), rng.randrange(6, 30)
        elif S <= 64:
            n_cols, cov, nr = rng.randrange(3, 10), rng.choice([2, 3, 4, 5]), rng.randrange(4, 16)
        else:
            n_cols, cov, nr = rng.randrange(3, 7), rng.choice([2, 3]), rng.randrange(3, 9)
        case = G.gen_instance(rng, ped=ped, n_cols=n_cols, max_cov=cov, n_reads=nr, uncovered_ok=(k % 4 == 0))
        one_case(ctx, batch, case)
    batch.flush()

    # exact rational cross-check: implementation floats against the posterior computed WITHOUT floating point
    import time as _time
    _t_exact = _time.time()
    ebatch = ExactBatch(ctx)
    n_exact = (120 if ctx.quick else 600) * ctx.scale
    for k in range(n_exact):
        if k % 4 == 3:
            ped = rng.choice(["single"] * 4 + ["two_unrelated", "trio"])
            S = G.n_local_states({"triples": G.PEDIGREES[ped][1], "n_ind": G.PEDIGREES[ped][0]})
            case = G.gen_instance(rng, ped=ped, n_cols=rng.randrange(4, 10 if S <= 16 else 6), max_cov=rng.choice([2, 3, 4]),
                                  n_reads=rng.randrange(4, 14 if S <= 16 else 7), uncovered_ok=(k % 8 == 3))
        else:
            case = G.gen_instance(rng, max_cov=rng.choice([2, 3, 4]), uncovered_ok=(k % 3 != 0))
            if G.n_local_states(case) >= 256:
                case = G.gen_instance(rng, ped=case["ped"], n_cols=rng.choice([2, 3]), n_reads=rng.randrange(1, 5), max_cov=3)
        exact_case(ctx, ebatch, exactify(case))
    ebatch.flush()
    ctx.extra["exact_part_s"] = round(_time.time() - _t_exact, 1)

    if not ctx.quick:
        # exhaustive: single individual, <= 3 reads over <= 3 columns, every read shape/allele pattern, two quality levels
        cnt = 0
        shapes = {2: [[0, 1]], 3: [[0, 1], [1, 2], [0, 2], [0, 1, 2]]}
        import itertools
        for n_cols in (2, 3):
            rows = []
            for cols in shapes[n_cols]:
                for als in itertools.product((0, 1), repeat=len(cols)):
                    rows.append([[c, a, 10 if (c + a) % 2 else 30] for c, a in zip(cols, als)])
            for nr in (1, 2, 3):
                for combo in itertools.combinations_with_replacement(range(len(rows)), nr):
                    reads = sorted(({"ind": 0, "entries": rows[k]} for k in combo), key=lambda r: r["entries"][0][0])
                    case = {"ped": "single", "n_ind": 1, "triples": [], "n_cols": n_cols, "reads": reads,
                            "priors": [[[0.2, 0.5, 0.3]] * n_cols], "recomb": [10] * n_cols}
                    one_case(ctx, batch, case); cnt += 1
        batch.flush()
        ctx.extra["exhaustive_single_le3reads_le3cols"] = cnt
        ctx.extra["exhaustive"] = True

    for _ in range((1 if ctx.quick else 5) * ctx.scale):
        writer_cases(ctx, 400 if ctx.quick else 1500)

    import time
    ctx.extra["library_part_s"] = round(time.time() - ctx.t0, 1)
    for k in range((24 if ctx.quick else 200) * ctx.scale):
        glue_case(ctx, gen_glue_spec(rng, k), tag=f"glue{k}")
    ctx.extra["glue_part_s"] = round(time.time() - ctx.t0 - ctx.extra["library_part_s"], 1)
    n_cli = (8 if ctx.quick else 30) * ctx.scale
    for k in range(n_cli):
        cli_case(ctx, rng, k, big=(not ctx.quick and k % 4 == 0))
    shutil.rmtree(ctx.workdir(), ignore_errors=True)

"""C02 — read-based phasing of error-free reads reproduces the true haplotypes.

Pipeline property: the generator owns the ground truth (reference, well separated variants of all four types,
true diploid haplotypes per sample, error-free reads with canonical CIGARs), the real CLI `whatshap phase` is run
(with reference, default exact algorithm) and every phase set of the output must carry the truth up to one swap.

property predicate (ctx.fail): for every sample, every phase set of the output: the phased alleles at all its
  variants equal the true haplotype alleles, or all equal the swapped ones.
seam checks through the trace hook (they localise a failure and tie the stage models to the code):
  A  allele detection: every allele in the reads handed to the solver is the allele of the read's true haplotype
     (that is C06 on this run)                                  -> ctx.fail key=seam-allele (it breaks C02's premise chain)
  B  selected reads ⊆ candidate reads (C07)                      -> ctx.disagree
  C  solver: reported cost 0 (theorem errfree_truth_cost_zero + dp_optimal); the Lean model's dpCost of the traced
     instance equals the reported cost (C01 correspondence on real pipeline instances) -> ctx.disagree
  A->B->C as one chain (Props.C02.pipeline_truth_from_raw_reads / checked_precondition_sound): read selection keeps candidates
     unchanged (Lean `c02.select` == traced selected reads), >= 2 variants each, solver reads == kept reads, solver columns ==
     their positions (keys seam-select, seam-columns), and the Lean precondition `rawPreconditionB` itself (mkInst succeeds,
     trusted het genotypes, biallelic truth, every read an error-free copy) holds on the traced solver input with the
     generator's truth (`c02.errfree`, key seam-errfree)
  Aw weights (round 10): every allele observation of every candidate read has the weight the documented behaviour implies — 30 with a
     reference, the base quality without (key seam-quality; in-process reader: reader-quality); base-quality profiles are a routine
     dimension of the generator (harness/gen/c02_quals.py); Props.C02.zero_weight_link_witness is the proved reason
  A0 reads of a sample (round 8): every candidate read of sample s in the trace is, by the generator's bookkeeping per input
     file, a read of s (key seam-read-sample); in-process: the real MultiBamReader.fetch(contig, sample) of every run's files
     == the generator's reads of that sample (key fetch-read-sample) == Lean `C02Bam.fetch` (op c02.fetch;
     Props.C02.fetched_reads_are_the_samples, fetch_none_iff, fetched_reads_disjoint)
  A' reader reuse (round 9): one real PhasedInputReader/ReadSetReader per layout, in-process, queried for every (chromosome,
     sample) in chromosome-major / sample-major / shuffled order with repetitions: every returned read is a read of that sample
     on that chromosome and every allele is its haplotype's (keys reader-allele, reader-read-sample, reader-repeat); plus extra
     cases on references whose contigs are related by length/sequence (harness/gen/c02_contigs.py: equal length, identical,
     off by one, shared prefix/suffix, rotated, near copies; 2-5 contigs, 1-3 samples)
"""
import json, os, shutil

from harness.gen import sim
from harness.gen import c02_forms as FORMS
from harness.gen import c02_layout as LAYOUT
from harness.gen import c02_contigs as CONTIGS
from harness.gen import c02_quals as QUALS

RULE = ("generated phasing scenarios with ground truth: 1-2 contigs (plus cases with 2-5 contigs related by length/sequence: equal length, "
        "identical, lengths differing by one, shared prefix/suffix, rotated, near copies; several contig-name styles), 3-14 well separated variants (SNV, MNP, "
        "insertion, deletion), 1-3 samples with own true haplotypes, error-free single and paired reads, depth 2-40 "
        "(above the internal cap of 15), input genotypes in every textual form (0/1, 1/0, 0|1, 1|0 with/without PS, HP values, "
        "mixed within a phase set), options --tag PS/HP, --only-snvs, --sample subsets, --ignore-read-groups "
        "(single sample); base-quality profiles (constant 30, per-base mixtures of 0/2/30/93, all-Q0 long reads, Q0 at variant columns only, Q0 only "
        "on the templates bridging two groups of variants, no qualities '*' for all or half of the reads), SNV-only scenarios also with "
        "--no-reference (positive qualities); alignment-file layouts (1-6 files: per-sample files, several files per sample, mixed files; 1-3 read "
        "groups per file and sample; read-group IDs numbered per file so that one ID names different samples in different "
        "files, shared pool, unique, legacy; header-only decoy @RG lines; read names unique or numbered per file), one CLI "
        "process or 2-3 runs in one interpreter, plus in-process MultiBamReader.fetch queries per sample and one in-process PhasedInputReader reused for "
        "(chromosome, sample) queries in several orders with repetitions. Non-trivial = at least one phase set with >= 2 variants in the output; distinct = distinct "
        "(seed-derived) scenario")
ASSUMPTIONS = ["'well separated' = consecutive variants at least 25 bp apart (beyond the 10 bp re-alignment overhang)",
               "htslib/pysam used to write inputs and parse outputs"]
MANIFEST = dict(
    text="Lean 4 theorems on the solver model: for error-free reads the optimum is 0, every zero-cost bipartition "
         "agrees with the truth on each read-connected component up to one swap and no covered column is a tie "
         "(zero_cost_* theorems) composed with C01's optimality theorem; the remaining stages are tied to the code by "
         "seam checks on the trace of real `whatshap phase` runs over generated data with known ground truth, and the "
         "end-to-end predicate (every phase set = truth up to swap) is evaluated on every output",
    design_ref="DESIGN.md §5 C02",
    note="stage A (allele detection) contract is a theorem only for the logic modelled under C06; here it is checked as a "
         "seam on every run — since E09 by the Lean precondition itself (rawPreconditionB, sound by checked_precondition_sound) on the "
         "traced solver input; pipeline_truth_from_raw_reads composes stage A's per-read contract, any read selection and the "
         "ColumnIterator conversion (C01.mkInst) into ErrFree. trusted: Lean kernel, hand-written models, pysam/htslib, generator's "
         "notion of 'well separated'",
    technique="Lean 4 proof (zero-cost uniqueness + DP optimality composition) + ground-truth pipeline differential with seam checks",
)


def make_pairs(rng, sc, frac):
    """turn a fraction of the scenario's reads into FR mate pairs of the same haplotype (same name)"""
    out, pid = [], 0
    for r in sc.reads:
        if rng.random() < frac and len(r["seq"]) > 120:
            seq = sc.contigs[r["chrom"]]
            L = len(seq)
            s, h, name = r["sample"], r["hap"], r["chrom"]
            a_end = r["start"] + rng.randrange(40, 80)
            b_start = min(L - 50, a_end + rng.randrange(20, 200))
            A = sim.hap_read(seq, sc.variants[name], sc.haps[(s, name)][h], r["start"], a_end)
            B = sim.hap_read(seq, sc.variants[name], sc.haps[(s, name)][h], b_start, min(L, b_start + rng.randrange(40, 90)))
            if A and B and A[0] + 2 < B[0]:
                pid += 1
                nm = f"p{pid}_{s}_h{h}"
                base = {"chrom": name, "rg": "rg_" + s, "sample": s, "hap": h, "mapq": 60}
                ra = dict(base, name=nm, start=A[0], cigar=A[1], seq=A[2], covered=A[3], flag=99)
                rb = dict(base, name=nm, start=B[0], cigar=B[1], seq=B[2], covered=B[3], flag=147)
                ra["mate"] = {"chrom": name, "start": rb["start"]}
                rb["mate"] = {"chrom": name, "start": ra["start"]}
                out += [ra, rb]
                continue
        out.append(r)
    sc.reads = out


def add_island(rng, sc, ctx):
    """On one contig of one sample replace the reads by: paired-end fragments whose mates cover only v[i] and only v[l],
    and short reads that cover exactly the variants in between (v[j..k], the 'island').  Nothing links the island to
    the fragments, so the island is a phase set of its own (or unphased, if a single variant) whatever its orientation."""
    s = sc.samples[0]
    for name, seq in sc.contigs.items():
        vs = sc.variants[name]
        hs = sc.haps[(s, name)]
        het = [i for i in range(len(vs)) if hs[0][i] != hs[1][i]]
        for x in range(len(het) - 3):
            i, j, k, l = het[x], het[x + 1], het[x + 2], het[x + 3]
            reads, pid = [], 0
            ok = True
            for h in (0, 1):
                for rep in range(3):
                    A = sim.hap_read(seq, vs, hs[h], max(0, vs[i].pos - 30 - rep), vs[i].pos + len(vs[i].ref) + 12)
                    B = sim.hap_read(seq, vs, hs[h], vs[l].pos - 12, min(len(seq), vs[l].pos + len(vs[l].ref) + 30 + rep))
                    M = sim.hap_read(seq, vs, hs[h], vs[j].pos - 12 - rep, vs[k].pos + len(vs[k].ref) + 12 + rep)
                    if not (A and B and M) or A[3] != [i] or B[3] != [l] or M[3] != list(range(j, k + 1)) or A[0] + 2 >= B[0]:
                        ok = False; break
                    pid += 1
                    base = {"chrom": name, "rg": "rg_" + s, "sample": s, "hap": h, "mapq": 60}
                    ra = dict(base, name=f"isl{pid}_{s}_h{h}", start=A[0], cigar=A[1], seq=A[2], covered=A[3], flag=99)
                    rb = dict(base, name=f"isl{pid}_{s}_h{h}", start=B[0], cigar=B[1], seq=B[2], covered=B[3], flag=147)
                    ra["mate"] = {"chrom": name, "start": rb["start"]}; rb["mate"] = {"chrom": name, "start": ra["start"]}
                    reads += [ra, rb, dict(base, name=f"mid{pid}_{s}_h{h}", start=M[0], cigar=M[1], seq=M[2], covered=M[3], flag=0)]
                if not ok:
                    break
            if ok:
                sc.reads = [r for r in sc.reads if not (r["chrom"] == name and r["sample"] == s)] + reads
                ctx.dist("island", "paired fragments around an unlinked island")
                return


def repeat_reference(r2):
    """a contig with a duplicated segment (segmental duplication / paralogous sequence variants): 2-4 copies of a
    50-90 bp unit separated by unique spacers; each copy carries one variant at the SAME offset, so the +-10 bp
    re-alignment windows of different variants are identical up to the variant itself, with different (also swapped)
    allele meaning; plus ordinary variants in the unique parts. Legal input of C02 ('all references')."""
    unit = sim.random_seq(r2, r2.randrange(50, 90))
    off = r2.randrange(15, len(unit) - 15)
    ncopies = r2.choice([2, 2, 3, 4])
    seq = sim.random_seq(r2, r2.randrange(40, 80))
    variants = []
    kind = r2.choice(["snv", "snv", "del", "ins"])
    bases = r2.sample("ACGT", 4)
    for k in range(ncopies):
        u = list(unit)
        start = len(seq)
        if kind == "snv":
            refb, altb = (bases[0], bases[1]) if k % 2 == 0 else (bases[1], bases[0])   # swapped meaning in odd copies
            u[off] = refb
            variants.append(sim.Variant("chr1", start + off, refb, altb, "snv"))
            seq += "".join(u)
        else:
            seq += "".join(u)
            v = sim.make_variant(r2, "chr1", seq + "ACGTACGTAC", start + off, kind)
            if v is not None:
                variants.append(v)
        seq += sim.random_seq(r2, r2.randrange(25, 60))
        # an ordinary variant in the unique spacer now and then
    seq += sim.random_seq(r2, r2.randrange(40, 80))
    # add a few ordinary SNVs in unique sequence, well separated from the others
    taken = [(v.pos - 30, v.pos + len(v.ref) + 30) for v in variants]
    for _ in range(r2.randrange(0, 4)):
        p = r2.randrange(30, len(seq) - 30)
        if all(not (a <= p <= b) for a, b in taken):
            variants.append(sim.make_variant(r2, "chr1", seq, p, "snv"))
            taken.append((p - 30, p + 31))
    variants.sort(key=lambda v: v.pos)
    return {"chr1": (seq, variants)}


def run(ctx):
    rng = ctx.rng
    wd = ctx.workdir()
    n_runs = (40 if ctx.quick else 400) * ctx.scale
    seeds = [rng.randrange(1 << 30) for _ in range(n_runs)]
    cases = [{"scenario_seed": s} for s in seeds]
    # round 9: additional cases on references whose contigs are related by length / sequence (harness/gen/c02_contigs.py);
    # drawn AFTER the seeds above, so the older cases are the same as before
    cases += [{"scenario_seed": rng.randrange(1 << 30), "contigs": "related"} for _ in range((16 if ctx.quick else 160) * ctx.scale)]
    if ctx.replay:
        cases = [json.load(open(ctx.replay))["case"]]
    else:
        cases = [c for _, c in ctx.corpus()] + cases
    model_reqs, model_meta = [], []
    glue_reqs, glue_meta = [], []
    fetch_reqs, fetch_meta = [], []
    pipe_reqs, pipe_meta = [], []
    try:
        for case in cases:
            import random
            r2 = random.Random(case["scenario_seed"])
            nsamp = r2.choice([1, 1, 2, 3])
            kinds = r2.choice([("snv",), ("snv", "ins", "del", "mnp"), ("snv", "ins", "del", "mnp"), ("ins", "del"), ("mnp", "snv")])
            deep = r2.random() < 0.3
            repeats = r2.random() < 0.3
            contig_info = None
            if case.get("contigs"):
                # multi-contig reference with equal-length / identical / off-by-one / shifted contigs (own random stream)
                repeats = False
                if deep and nsamp > 1:
                    deep = r2.random() < 0.3      # keep the quick tier quick: up to 5 contigs x 3 samples
                given, contig_info = CONTIGS.gen_contigs(random.Random(case["scenario_seed"] ^ 0xC02D), kinds)
            else:
                given = repeat_reference(r2) if repeats else None
            sc = sim.Scenario(r2, n_contigs=r2.choice([1, 1, 2]), contig_len=(700, 1600), n_variants=(3, 14), kinds=kinds,
                              samples=tuple(f"S{i + 1}" for i in range(nsamp)), depth=((18, 40) if deep else (2, 10)),
                              read_len=(r2.choice([60, 100, 150]), r2.choice([200, 400, 700])),
                              het_prob=(0.95 if repeats else 0.8), given=given)
            ctx.dist("reference", "segmental-duplication" if repeats else ("related contigs" if contig_info else "random"))
            ctx.dist("contigs", len(sc.contigs))
            if contig_info:
                for rel in contig_info["relations"][1:]:
                    ctx.dist("contig_relation", rel)
                ctx.dist("equal_length_neighbour_contigs", min(contig_info["equal_length_neighbours"], 2))
            make_pairs(r2, sc, r2.choice([0.0, 0.0, 0.3]))
            if r2.random() < 0.25:
                add_island(r2, sc, ctx)
            if r2.random() < 0.3:
                # clipped alignments (primer-trimmed amplicons, local aligners): hard clips are not part of SEQ, soft
                # clips are; neither moves the aligned bases
                for r in sc.reads:
                    if r2.random() < 0.6:
                        cig = [tuple(c) for c in r["cigar"]]
                        if r2.random() < 0.5:
                            n = r2.randrange(1, 25); cig = [(4, n)] + cig; r["seq"] = sim.random_seq(r2, n) + r["seq"]
                        if r2.random() < 0.5:
                            n = r2.randrange(1, 25); cig = cig + [(4, n)]; r["seq"] = r["seq"] + sim.random_seq(r2, n)
                        if r2.random() < 0.6:
                            cig = [(5, r2.randrange(1, 30))] + cig
                        if r2.random() < 0.4:
                            cig = cig + [(5, r2.randrange(1, 30))]
                        r["cigar"] = cig
                ctx.dist("clips", "soft/hard clipped reads")
            # ---- base qualities (round 10; own random stream, the scenarios themselves are unchanged): the reads stay error-free,
            # only their base qualities vary (all-'!' long reads, Q0 at variant columns, Q0 on the only reads bridging two groups
            # of variants, no qualities at all, mixtures) — and SNV-only scenarios also run WITHOUT a reference, where the weight
            # of an observation is the base quality (only positive qualities there: a weight-0 observation carries no phase
            # information by design, Props.C02.zero_weight_link_witness)
            r5 = random.Random(case["scenario_seed"] ^ 0xC02A)
            no_ref = case["no_reference"] if "no_reference" in case else (
                tuple(kinds) == ("snv",) and not repeats and not case.get("contigs") and r5.random() < 0.35)
            qprof = case.get("qual_profile") or QUALS.gen_profile(r5, positive_only=no_ref)
            qinfo = QUALS.apply(r5, sc, qprof)
            ctx.dist("base_qualities", qprof)
            ctx.dist("reference_option", "--no-reference" if no_ref else "--reference")
            ctx.dist("reads_with_q0_at_a_variant", "some" if qinfo["reads_with_q0_at_variant"] else "none")
            d = os.path.join(wd, "run")
            shutil.rmtree(d, ignore_errors=True)
            # optionally hand the reads over as TWO alignment files that reuse the same read names (two sequencing
            # runs numbering their reads alike): whatshap must keep same-named reads of different files apart
            reads0 = [dict(r) for r in sc.reads]    # the reads under their scenario-wide unique names (mates share one), for LAYOUT
            two_files = r2.random() < 0.3
            file_of = {}
            if two_files:
                counters = [0, 0]
                newname = {}
                for r in sc.reads:
                    if r["name"] not in newname:
                        f = r2.randrange(2)
                        newname[r["name"]] = (f, f"q{counters[f]}")
                        counters[f] += 1
                    f, nm = newname[r["name"]]
                    r["name"] = nm
                    file_of[id(r)] = f
            fa, bam, vcf = sc.write(d)
            QUALS.strip_missing(bam)
            prephased = r2.random() < 0.3
            if prephased:
                # the input VCF already carries (arbitrary, mostly WRONG) phase information, as after an earlier run or
                # another phaser; it is no phase input of this run, so it must not survive anywhere in the output —
                # in particular not on records this run skips (--only-snvs, see the option below)
                recs = sc.vcf_records()
                ps_fmt = {"PS": '##FORMAT=<ID=PS,Number=1,Type=Integer,Description="Phase set identifier">'}
                first_pos = {}
                for rec in recs:
                    first_pos.setdefault(rec["chrom"], rec["pos"] + 1)
                    rec["format"] = ["GT", "PS"]
                    for call in rec["calls"]:
                        a, b = call["GT"].split("/")
                        if a != b and r2.random() < 0.8:
                            if r2.random() < 0.5:
                                a, b = b, a
                            call["GT"] = f"{a}|{b}"; call["PS"] = first_pos[rec["chrom"]]
                        else:
                            call["PS"] = "."
                sim.write_vcf(vcf, sc.contigs, sc.samples, recs, fmt_defs=ps_fmt)
                ctx.dist("input_vcf", "pre-phased (wrong)")
            # textual form of the input genotypes (round 7; own random stream, so the scenarios themselves are the same as
            # before): `0/1`, `1/0`, `0|1`/`1|0` with and without PS, HP next to either order, homozygous `1|1` — chosen per
            # call, hence mixed within a phase set.  None of it is phase input: the output must be the truth for both tags
            r3 = random.Random(case["scenario_seed"] ^ 0xC02F)
            gt_forms = case.get("gt_forms") or (FORMS.gen_mode(r3) if (not prephased and r3.random() < 0.7) else None)
            input_marked = prephased
            if gt_forms and not prephased:
                recs = sc.vcf_records()
                fmt_defs, marked, used = FORMS.rewrite(r3, recs, gt_forms)
                sim.write_vcf(vcf, sc.contigs, sc.samples, recs, fmt_defs=fmt_defs)
                input_marked = marked
                ctx.dist("input_vcf", "genotype forms: " + gt_forms)
                for k, n_ in used.items():
                    ctx.dist("input_genotype_form", k)
            elif not prephased:
                ctx.dist("input_vcf", "plain 0/1")
            bams = [bam]
            if two_files and len({file_of[id(r)] for r in sc.reads}) < 2:
                two_files = False    # an empty alignment file is rejected by whatshap (not a C02 matter)
                file_of = {id(r): 0 for r in sc.reads}
            if two_files:
                bams = []
                for f in (0, 1):
                    bp = os.path.join(d, f"in{f}.bam")
                    sim.write_bam(bp, sc.contigs, [r for r in sc.reads if file_of[id(r)] == f], sc.read_groups())
                    QUALS.strip_missing(bp)
                    bams.append(bp)
            tag = r2.choice(["PS", "HP"])
            opts = ["--tag", tag]
            only_snvs = r2.random() < (0.6 if prephased and len(kinds) > 1 else 0.2)
            if only_snvs:
                opts += ["--only-snvs"]
            target = list(sc.samples)
            if nsamp > 1 and r2.random() < 0.4:
                target = r2.sample(sc.samples, r2.randrange(1, nsamp))
                for s in target:
                    opts += ["--sample", s]
            # ---- how the reads reach whatshap (round 8; own random stream, the scenarios themselves are unchanged): per-sample
            # files, several files per sample, several read groups per sample, read-group IDs that name different samples in
            # different files, decoy header lines; and several runs of the same scenario in ONE interpreter
            r4 = random.Random(case["scenario_seed"] ^ 0xC02B)
            legacy_hdr = [list(x) for x in sc.read_groups()]
            runs = [{"dir": d, "bams": bams, "file_of": file_of, "name_of": {}, "rg_of": {}, "layout": None,
                     "headers": [legacy_hdr for _ in bams]}]
            inproc = False
            if not two_files and r4.random() < 0.6:
                inproc = r4.random() < 0.35
                runs = []
                for k in range(r4.choice([2, 2, 3]) if inproc else 1):
                    if inproc and r4.random() < 0.25:
                        runs.append({"dir": os.path.join(d, f"L{k}"), "bams": [bam], "file_of": {}, "name_of": {}, "rg_of": {},
                                     "headers": [legacy_hdr],
                                     "layout": {"mode": "scenario file", "rg_ids": "legacy", "names": "unique", "colliding_ids": []}})
                        continue
                    files, place, info = LAYOUT.gen_layout(r4, sc.samples, reads0)
                    dk = os.path.join(d, f"L{k}")
                    paths = LAYOUT.write_layout(dk, sc.contigs, reads0, files, place)
                    for p_ in paths:
                        QUALS.strip_missing(p_)
                    runs.append({"dir": dk, "bams": paths, "file_of": {id(r): pl[0] for r, pl in zip(sc.reads, place)},
                                 "name_of": {id(r): pl[2] for r, pl in zip(sc.reads, place)},
                                 "rg_of": {id(r): pl[1] for r, pl in zip(sc.reads, place)}, "headers": info["files"], "layout": info})
                if nsamp == 1 and r4.random() < 0.3:
                    opts += ["--ignore-read-groups"]
            for run_ in runs:
                os.makedirs(run_["dir"], exist_ok=True)
                run_["args"] = (["phase", "--no-reference"] if no_ref else ["phase", "-r", fa]) + ["-o", os.path.join(run_["dir"], "out.vcf")] + opts + [vcf] + run_["bams"]
                run_["trace"] = os.path.join(run_["dir"], "trace.jsonl")
                ctx.dist("alignment_files", len(run_["bams"]))
                if run_["layout"]:
                    ctx.dist("layout", run_["layout"]["mode"]); ctx.dist("rg_ids", run_["layout"]["rg_ids"])
                    ctx.dist("read_names", run_["layout"]["names"])
                    ctx.dist("rg_id_names_several_samples", bool(run_["layout"]["colliding_ids"]))
            ctx.dist("process", f"{len(runs)} runs in one interpreter" if inproc else "one CLI process")
            if inproc:
                results = LAYOUT.run_inprocess([{"args": x["args"], "trace": x["trace"]} for x in runs], ctx.overlay, wd)
            else:
                rc, out, err, trace = sim.whatshap(runs[0]["args"], ctx.overlay, trace=runs[0]["trace"])
                results = [(rc, err, trace)]
            for ri, (run_, (rc, err, trace)) in enumerate(zip(runs, results)):
              file_of, name_of, args = run_["file_of"], run_["name_of"], run_["args"]
              ctx.evaluated()
              desc = {**case, "args": args[1:], "samples": sc.samples, "kinds": list(kinds), "deep": deep, "gt_forms": gt_forms,
                      "qual_profile": qprof, "qualities": qinfo, "no_reference": no_ref}
              if run_["layout"]:
                  desc["layout"] = run_["layout"]
              if contig_info:
                  desc["contig_info"] = contig_info
              if inproc:
                  desc["in_process_run"] = f"{ri + 1} of {len(runs)} in one interpreter"
              if rc != 0:
                  ctx.fail("whatshap phase failed on a well-formed error-free scenario: " + err[-400:], desc, key="phase-crash")
                  continue
              hdr, samples, recs = sim.read_vcf(os.path.join(run_["dir"], "out.vcf"))
              ctx.dist("samples", nsamp); ctx.dist("tag", tag); ctx.dist("kinds", "+".join(kinds)); ctx.dist("deep", deep)
              nontrivial = False
              for si, s in enumerate(samples):
                  ph = sim.decode_phase(recs, si)
                  if s not in target:
                      if ph and not input_marked:
                          ctx.fail(f"sample {s} was not selected but is phased in the output", desc, key="unselected-phased")
                      continue   # an unselected sample keeps whatever its input calls carried (C04): nothing to compare
                  sets = {}
                  for (c, p), (ps, al) in ph.items():
                      sets.setdefault((c, ps), []).append((p, al))
                  for (c, ps), items in sets.items():
                      truth = sc.truth(s, c)
                      same = all(truth[p] == tuple(al) for p, al in items)
                      swap = all(truth[p] == tuple(al)[::-1] for p, al in items)
                      if len(items) >= 2:
                          nontrivial = True
                      ctx.dist("phase_set_size", min(len(items), 6))
                      if not (same or swap):
                          ctx.fail(f"sample {s} contig {c} phase set {ps}: phased alleles are not the true haplotypes up to swap: "
                                   + str([(p, al, truth[p]) for p, al in sorted(items)][:8]), desc, key="phase-not-truth")
                      if only_snvs:
                          kinds_at = {v.pos: v.kind for v in sc.variants[c]}
                          for p, _ in items:
                              if kinds_at[p] != "snv":
                                  ctx.fail(f"--only-snvs but {kinds_at[p]} at {c}:{p} was phased", desc, key="only-snvs")
              if nontrivial:
                  ctx.nontrivial(case["scenario_seed"])
              # ---- seam checks on the trace
              truth_of_read = {}
              alns_of = {}
              for r in sc.reads:
                  truth_of_read.setdefault((file_of.get(id(r), 0), name_of.get(id(r), r["name"])), (r["sample"], r["hap"]))
                  alns_of.setdefault((file_of.get(id(r), 0), name_of.get(id(r), r["name"]), r["chrom"]), []).append(r)
              vcf_cache = {}
              for tr in trace:
                  chrom = tr["chrom"] if "chrom" in tr else tr["chromosome"]
                  pipeline_tie(ctx, sc, run_, tr, chrom, desc, vcf, only_snvs, no_ref, "--ignore-read-groups" in opts, vcf_cache,
                               pipe_reqs, pipe_meta)
                  posidx = {v.pos: i for i, v in enumerate(sc.variants[chrom])}
                  for rd in tr["all_reads"]:
                      if (rd["source_id"], rd["name"]) not in truth_of_read:
                          ctx.fail(f"seam A: the solver was given a read {rd['name']!r} attributed to input file {rd['source_id']}, "
                                   f"but that file holds no read of this name (reads of different files mixed up)", desc,
                                   key="seam-read-identity")
                          continue
                      s, h = truth_of_read[(rd["source_id"], rd["name"])]
                      hv = sc.haps[(s, chrom)][h]
                      for pos, al, q in rd["variants"]:
                          if hv[posidx[pos]] != al:
                              ctx.fail(f"seam A: read {rd['name']} (error-free copy of haplotype {h} of {s}) was given allele {al} "
                                       f"at {chrom}:{pos}, its haplotype carries {hv[posidx[pos]]}", desc, key="seam-allele")
                  # seam A, weights (round 10): the weight of every allele observation of every candidate read is what the
                  # documented behaviour implies — with a reference the constant 30 of the re-alignment, without one the base
                  # quality of the base aligned to the variant (30 when the alignment has no qualities).  A weight-0 observation
                  # would link variants for `find_components` without carrying phase information (zero_weight_link_witness)
                  bad_q = None
                  for s, cand in tr["candidates"].items():
                      for r in cand["reads"]:
                          for pos, al, q in r["variants"]:
                              want = {QUALS.expected_weight(a, pos, not no_ref) for a in alns_of.get((r["source_id"], r["name"], chrom), [])} - {None}
                              if want and q not in want and bad_q is None:
                                  bad_q = (r["name"], r["source_id"], pos, q, sorted(want))
                  if bad_q is not None:
                      ctx.fail(f"seam A (weights): read {bad_q[0]!r} of input file {bad_q[1]} observes the variant at {chrom}:{bad_q[2]} with weight "
                               f"{bad_q[3]}; " + ("with a reference every re-aligned allele has the weight 30" if not no_ref else
                                                 "without a reference the weight is the base quality at the variant")
                               + f" (expected {bad_q[4]}); base-quality profile {qprof}", desc, key="seam-quality")
                  for s, cand in tr["candidates"].items():
                      # seam A0 (read -> sample): a read belongs to the sample named by the @RG line of ITS OWN file whose ID is
                      # the read's RG tag; the generator knows whose haplotype every read of every file copies
                      for r in cand["reads"]:
                          who = truth_of_read.get((r["source_id"], r["name"]))
                          if who is not None and who[0] != s:
                              ctx.fail(f"seam A0: read {r['name']!r} of input file {r['source_id']} is a copy of haplotype {who[1]} of sample "
                                       f"{who[0]} (its RG tag names a read group of {who[0]} in that file's header) but was used as a "
                                       f"read of sample {s}", desc, key="seam-read-sample")
                              break
                      names = {(r["name"], r["source_id"]) for r in cand["reads"]}
                      for r in cand["selected"]:
                          if (r["name"], r["source_id"]) not in names:
                              ctx.disagree("seam B: selected read not among candidates", desc, r["name"], None)
                  # ---- seams A -> B -> C as the Lean composition states them (Props.C02.pipeline_truth_from_raw_reads):
                  # B: selection keeps candidates UNCHANGED (model `selectReads` on the candidates' variants and the indices of
                  #    the kept reads == the traced selected reads), every kept read has >= 2 variants, the solver's read set is
                  #    exactly the kept reads of the family, its columns are exactly their positions
                  fam = tr["family"]
                  kept = []
                  for s in fam:
                      cand = tr["candidates"][s]
                      index = {}
                      for i, r in enumerate(cand["reads"]):
                          index.setdefault((r["name"], r["source_id"]), i)
                      sel = [index.get((r["name"], r["source_id"])) for r in cand["selected"]]
                      if None not in sel:
                          glue_reqs.append({"op": "c02.select", "cands": [{"ind": 0, "variants": [list(v) for v in r["variants"]]} for r in cand["reads"]],
                                            "sel": sel})
                          glue_meta.append((desc, ("select", [[list(v) for v in r["variants"]] for r in cand["selected"]], s)))
                      for r in cand["selected"]:
                          if len(r["variants"]) < 2:
                              ctx.fail(f"seam B: read {r['name']} with {len(r['variants'])} variant(s) was handed on by read selection", desc, key="seam-select")
                          kept.append((r["name"], r["source_id"], r["sample_id"], json.dumps(r["variants"])))
                  solver_reads = [(r["name"], r["source_id"], r["sample_id"], json.dumps(r["variants"])) for r in tr["all_reads"]]
                  if sorted(kept) != sorted(solver_reads):
                      ctx.fail("seam B/C: the solver's read set is not the set of reads kept by read selection: "
                               + str(sorted(set(kept) ^ set(solver_reads))[:3]), desc, key="seam-select")
                  want_pos = sorted({v[0] for r in tr["all_reads"] for v in r["variants"]})
                  if list(tr["accessible_positions"]) != want_pos:
                      ctx.fail(f"seam C: the solver's columns {tr['accessible_positions'][:8]}… are not the positions of its reads {want_pos[:8]}…",
                               desc, key="seam-columns")
                  # A+B+C: the precondition of the solver theorems, evaluated by the Lean definition itself on the traced solver
                  #        input with the generator's truth (sound by Props.C02.checked_precondition_sound)
                  if len(fam) == 1 and all((rd["source_id"], rd["name"]) in truth_of_read for rd in tr["all_reads"]):
                      s0 = fam[0]
                      h0 = sc.haps[(s0, chrom)][0]
                      truth_list = [[v.pos, h0[i]] for i, v in enumerate(sc.variants[chrom])]
                      src_list = [truth_of_read[(rd["source_id"], rd["name"])][1] == 1 for rd in tr["all_reads"]]
                      glue_reqs.append({"op": "c02.errfree", "raw": trace_to_raw(tr), "truth": truth_list, "src": src_list})
                      glue_meta.append((desc, ("errfree", None, s0)))
                  if tr["cost"] != 0:
                      ctx.disagree("seam C: solver cost for error-free reads", desc, tr["cost"], 0)
                  raw = trace_to_raw(tr)
                  inst = trace_to_inst(tr)
                  if inst is not None:
                      # the model gets the solver's real input (positions + ReadSet); Lean's `mkInst` (model of
                      # ColumnIterator) makes the column instance; the Python conversion is kept as a cross-check
                      model_reqs.append({"op": "c01.mkinst", "raw": raw}); model_meta.append((desc, ("mkinst", inst)))
                      model_reqs.append({"op": "c01.cost", "raw": raw}); model_meta.append((desc, ("cost", tr["cost"])))
                  ctx.validated()
            # ---- in-process stream (this interpreter opens the readers of every run of every case, plus those of one more
            # layout of the same reads, all alive at once): the real MultiBamReader's reads of each sample == the generator's
            # reads of that sample, per file (oracle), == Lean `C02Bam.fetch` (Props.C02.fetched_reads_are_the_samples /
            # fetch_none_iff)
            files, place, info = LAYOUT.gen_layout(r4, sc.samples, reads0)
            extra = {"bams": [QUALS.strip_missing(p_) or p_ for p_ in LAYOUT.write_layout(os.path.join(d, "LX"), sc.contigs, reads0, files, place)],
                     "file_of": {id(r): pl[0] for r, pl in zip(sc.reads, place)}, "name_of": {id(r): pl[2] for r, pl in zip(sc.reads, place)},
                     "rg_of": {id(r): pl[1] for r, pl in zip(sc.reads, place)}, "headers": info["files"], "layout": info}
            fetch_stream(ctx, sc, [extra] + runs, case, fetch_reqs, fetch_meta)
            reader_stream(ctx, sc, [extra] + runs, fa, vcf, {**case, "contig_info": contig_info} if contig_info else case)
            if len(ctx.samples) < 2:
                ctx.sample({"case": desc, "n_records": len(recs), "n_trace": len(trace)})
    finally:
        shutil.rmtree(wd, ignore_errors=True)
    # one request at a time: a `c01.mkinst` answer is a whole instance, and pipelining requests behind an answer
    # that fills the model's stdout pipe would deadlock
    for (desc, (what, expect)), ans in zip(model_meta, (ctx.model.ask_many([r])[0] for r in model_reqs)):
        if what == "mkinst":
            if ans.get("inst") != expect:
                ctx.disagree("c01.mkinst on traced pipeline input (Lean conversion vs Python conversion)", desc,
                             expect, ans)
        elif ans.get("cost") != expect:
            ctx.disagree("c01.cost on traced pipeline instance", desc, expect, ans.get("cost", ans))
    for (desc, what, expect), ans in zip(fetch_meta, (ctx.model.ask_many([r])[0] for r in fetch_reqs)):
        got = ans.get("reads", ans) if isinstance(ans, dict) else ans
        got = sorted([list(x) for x in got]) if isinstance(got, list) else got
        if got != expect:
            ctx.disagree("c02.fetch (reads of a sample: MultiBamReader.fetch vs Lean C02Bam.fetch) " + what, desc, expect, got)
    # ---- round 10: the composed stage model (C06 reader -> ReadSet::sort -> len >= 2 -> C07 selection -> solver input) on the
    # alignments of the generated BAM files against the traced candidates / selected reads / solver columns
    limit = 70 if ctx.quick else 10 ** 9
    ctx.dist("pipeline_tie_requests", min(len(pipe_reqs), limit) // 10 * 10)
    for (desc, what, want), req in list(zip(pipe_meta, pipe_reqs))[:limit]:
        ans = ctx.model.ask_many([req])[0]
        if not isinstance(ans, dict) or ans.get("err") is not None:
            ctx.disagree("c02.pipeline (composed stage model raised / bad input) " + what, desc, "reads", ans if not isinstance(ans, dict) else ans.get("err"))
            continue
        if ans.get("cands") != want["cands"]:
            diff = [x for x in want["cands"] if x not in ans.get("cands", [])][:2], [x for x in ans.get("cands", []) if x not in want["cands"]][:2]
            ctx.disagree("c02.pipeline candidates (alignments -> C06 reader -> sort -> len >= 2 vs traced candidates) " + what, desc,
                         {"n": len(want["cands"]), "only_impl": diff[0]}, {"n": len(ans.get("cands", [])), "only_model": diff[1]})
            continue
        if ans.get("sel_reads") != want["sel_reads"]:
            ctx.disagree("c02.pipeline selected reads (model candidates at the traced indices vs traced selected reads) " + what, desc,
                         len(want["sel_reads"]), len(ans.get("sel_reads") or []))
        if ans.get("sel_positions") != want["positions"]:
            ctx.disagree("c02.pipeline solver columns (defaultPositions of the kept reads vs accessible_positions) " + what, desc,
                         want["positions"][:10], (ans.get("sel_positions") or [])[:10])
        if len(ans["sel"]) == len(ans["cands"]):
            ctx.dist("pipeline_tie_selection", "model keeps every candidate")
            if want["sel"] != ans["sel"]:
                ctx.disagree("c02.pipeline selection (coverage below the cap everywhere: every candidate is kept) " + what, desc, want["sel"], ans["sel"])
        else:
            ctx.dist("pipeline_tie_selection", "model drops reads (tie choices: compared by C07)")
            if len(want["sel"]) == len(want["cands"]):
                ctx.disagree("c02.pipeline selection (model drops candidates, whatshap kept all) " + what, desc, len(want["sel"]), ans["sel"])
    # glue requests are small (answers: a few booleans / the kept reads): one at a time as well, for the same reason
    ctx.dist("glue_requests", min(len(glue_reqs), 400) // 50 * 50)
    for (desc, (what, expect, sample)), ans in zip(glue_meta, (ctx.model.ask_many([r])[0] for r in glue_reqs)):
        if what == "select":
            got = [r["variants"] for r in ans] if isinstance(ans, list) else ans
            if got != expect:
                ctx.fail(f"seam B: the reads kept by read selection for {sample} are not unchanged candidates (model selectReads on the "
                         f"candidates differs from the traced selected reads)", desc, key="seam-select")
        elif not (isinstance(ans, dict) and ans.get("ok") is True):
            ctx.fail(f"seams A-C: the traced solver input of {sample} does not satisfy the precondition of the solver theorems "
                     f"(Lean rawPreconditionB: {ans})", desc, key="seam-errfree")


def bam_sources(bams, chrom):
    """the alignment records of one contig as pysam delivers them (independent of whatshap), in the shape of `c06.read` / `c02.pipeline`"""
    import pysam
    srcs = []
    for b in bams:
        with pysam.AlignmentFile(b) as af:
            rgs = [[g["ID"], g.get("SM")] for g in af.header.to_dict().get("RG", [])]
            alns = []
            for a in af.fetch(chrom):
                alns.append({"name": a.query_name, "flag": a.flag, "mapq": a.mapping_quality, "rg": a.get_tag("RG") if a.has_tag("RG") else None,
                             "start": a.reference_start, "cigar": [list(x) for x in a.cigartuples] if a.cigartuples else None,
                             "query": a.query_sequence, "quals": list(a.query_qualities) if a.query_qualities is not None else None,
                             "bx": "", "hp": -1, "ps": -1})
            srcs.append({"rgs": rgs, "alns": alns})
    return srcs


def pipeline_tie(ctx, sc, run_, tr, chrom, desc, vcf, only_snvs, no_ref, ignore_rg, cache, reqs, meta):
    """one `c02.pipeline` request per single-sample trace record: the alignments of the run's BAM files, the heterozygous input
    variants of the sample, `whatshap phase`'s defaults (mapq 20, overhang 10, no supplementary), the traced per-sample cap, the
    observed order of the candidates as the hash order of `ReadSet::sort`, the traced selected indices"""
    fam = tr["family"]
    if len(fam) != 1 or tr.get("algorithm", "whatshap") != "whatshap":
        return
    s = fam[0]
    if "vcf" not in cache:
        cache["vcf"] = sim.read_vcf(vcf)
    _, vsamples, vrecs = cache["vcf"]
    si = vsamples.index(s)
    vs = []
    for rec in vrecs:
        if rec["chrom"] != chrom:
            continue
        if only_snvs and not (len(rec["ref"]) == 1 and all(len(a) == 1 for a in rec["alts"])):
            continue
        gt = rec["calls"][si].get("GT")
        if gt is None or gt[0] is None or None in gt[0] or len(set(gt[0])) < 2:
            continue
        vs.append([rec["pos"], rec["ref"], list(rec["alts"])])
    if ("src", chrom) not in cache:
        cache[("src", chrom)] = bam_sources(run_["bams"], chrom)
    cand = tr["candidates"][s]
    index = {}
    for i, r in enumerate(cand["reads"]):
        index.setdefault((r["name"], r["source_id"]), i)
    sel = [index.get((r["name"], r["source_id"])) for r in cand["selected"]]
    if None in sel:
        return
    reqs.append({"op": "c02.pipeline", "cfg": {"mapq": 20, "duplicates": False, "supplementary": False, "threshold": 100000, "overhang": 10,
                                                "affine": None},
                 "sources": cache[("src", chrom)], "sample": None if ignore_rg else s, "variants": vs,
                 "reference": None if no_ref else sc.contigs[chrom], "cap": tr["max_coverage_per_sample"],
                 "order": [[r["source_id"], r["name"]] for r in cand["reads"]], "sel": sel, "asis": []})
    meta.append((desc, f"{chrom} {s}", {"cands": [[r["source_id"], r["name"], [list(v) for v in r["variants"]]] for r in cand["reads"]],
                                         "sel": sel, "sel_reads": [[list(v) for v in r["variants"]] for r in cand["selected"]],
                                         "positions": list(tr["accessible_positions"])}))
    ctx.dist("pipeline_tie", "with reference" if not no_ref else "without reference")


def fetch_stream(ctx, sc, runs, case, reqs, meta):
    """open the alignment files of several runs with the real `MultiBamReader` IN THIS PROCESS (all readers alive at once) and
    ask each, per contig, for the reads of every sample of the scenario and of two names no read belongs to"""
    import logging
    from whatshap.bam import MultiBamReader, SampleNotFoundError
    logging.getLogger("whatshap.bam").setLevel(logging.ERROR)    # "read group without SM" warnings of the decoy header lines
    readers = []
    try:
        for run_ in runs:
            readers.append(MultiBamReader(run_["bams"]))
        for k, (run_, reader) in enumerate(zip(runs, readers)):
            file_of, name_of, rg_of, headers = run_["file_of"], run_["name_of"], run_["rg_of"], run_["headers"]
            desc = {**case, "bams": run_["bams"], "headers": headers, "samples": sc.samples, "layout": run_["layout"],
                    "stream": f"in-process MultiBamReader.fetch, reader {k + 1} of {len(runs)} of this case"}
            for c in sc.contigs:
                mine = [(file_of.get(id(r), 0), name_of.get(id(r), r["name"]), rg_of.get(id(r), r["rg"]), r["sample"])
                        for r in sc.reads if r["chrom"] == c]
                files = [{"rgs": [list(g) for g in headers[f]], "alns": [[nm, rg] for ff, nm, rg, _ in mine if ff == f]}
                         for f in range(len(headers))]
                for s in list(sc.samples) + ["ghost", "nobody"]:
                    try:
                        impl = sorted([a.source_id, a.bam_alignment.query_name] for a in reader.fetch(c, s))
                    except SampleNotFoundError:
                        impl = None
                    named = any(g[1] == s for h in headers for g in h)
                    want = sorted([f, nm] for f, nm, _, sm in mine if sm == s) if named else None
                    ctx.dist("fetch_query", "sample not named by any header" if not named else
                             ("named by a header, no reads" if not want else "sample with reads"))
                    if impl != want:
                        def show(x):
                            return "SampleNotFoundError" if x is None else f"{len(x)} reads"
                        foreign = [x for x in (impl or []) if x not in (want or [])][:3]
                        missing = [x for x in (want or []) if x not in (impl or [])][:3]
                        ctx.fail(f"reads of sample {s} on {c}: MultiBamReader.fetch gave {show(impl)}, the files hold {show(want)} of "
                                 f"that sample; [file, name] foreign: {foreign} missing: {missing} (@RG [ID, SM] per file: {headers})",
                                 desc, key="fetch-read-sample")
                    reqs.append({"op": "c02.fetch", "files": files, "sample": s})
                    meta.append((desc, f"{c} {s}", impl))
    finally:
        for reader in readers:
            reader.close()


def reader_stream(ctx, sc, runs, fa, vcf, case):
    """round 9: ONE real `PhasedInputReader` (hence one `ReadSetReader`, one open reference FASTA) per alignment-file layout,
    opened IN THIS PROCESS and reused for a random sequence of (chromosome, sample) queries — every pair at least once, in
    random order, with repetitions, chromosome-major (what `whatshap phase` does), sample-major and fully shuffled — the way
    phase/genotype/haplotag reuse their reader across chromosomes and samples.  Oracle (seam A on ALL reads, not only the
    selected ones): a read returned for (chromosome c, sample s) is by the generator's bookkeeping a read of s on c, and every
    allele it was given is the allele its true haplotype carries at that position of c (key reader-allele / reader-read-sample);
    repeating a query gives the same reads (key reader-repeat)."""
    import logging, random
    from whatshap.cli import PhasedInputReader
    from whatshap.core import NumericSampleIds
    from whatshap.vcf import VcfReader
    logging.getLogger("whatshap.bam").setLevel(logging.ERROR)
    r6 = random.Random(case["scenario_seed"] ^ 0xC02E)
    with VcfReader(vcf, only_snvs=False) as vr:
        tables = {t.chromosome: t for t in vr}
    chroms = [c for c in sc.contigs if c in tables]
    pairs = [(c, s) for c in chroms for s in sc.samples]
    for k, run_ in enumerate(runs):
        if k > 0 and r6.random() < 0.5:
            continue
        order = r6.choice(["chromosome-major", "sample-major", "shuffled"])
        q = list(pairs)
        if order == "sample-major":
            q = [(c, s) for s in sc.samples for c in chroms]
        elif order == "shuffled":
            r6.shuffle(q)
        elif r6.random() < 0.5:
            cs = list(chroms); r6.shuffle(cs)          # chromosome-major in another chromosome order
            q = [(c, s) for c in cs for s in sc.samples]
        q += [r6.choice(pairs) for _ in range(r6.randrange(0, len(pairs) + 1))]      # repetitions / going back
        file_of, name_of = run_["file_of"], run_["name_of"]
        who = {}
        for r in sc.reads:
            who.setdefault((file_of.get(id(r), 0), name_of.get(id(r), r["name"]), r["chrom"]), (r["sample"], r["hap"]))
        desc = {**case, "bams": run_["bams"], "samples": sc.samples, "layout": run_["layout"], "query_order": order,
                "queries": [list(x) for x in q],
                "stream": f"in-process PhasedInputReader.read (one reader for all queries), layout {k + 1} of {len(runs)} of this case"}
        ctx.dist("reader_query_order", order)
        ctx.dist("reader_queries", min(len(q), 12))
        seen = {}
        with PhasedInputReader(list(run_["bams"]), fa, NumericSampleIds(), False, only_snvs=False, mapq_threshold=20) as pir:
            for qi, (c, s) in enumerate(q):
                readset, _ = pir.read(c, tables[c].variants, s, read_vcf=False)
                posidx = {v.pos: i for i, v in enumerate(sc.variants[c])}
                got = sorted((rd.source_id, rd.name, tuple((v.position, v.allele) for v in rd)) for rd in readset)
                badq = [(rd.name, v.position, v.quality) for rd in readset for v in rd if v.quality != 30]
                if badq:
                    ctx.fail(f"query {qi + 1} ({c}, {s}): with a reference every re-aligned allele has the weight 30, read {badq[0][0]!r} "
                             f"observes {c}:{badq[0][1]} with weight {badq[0][2]} ({len(badq)} such observations)", desc, key="reader-quality")
                if (c, s) in seen and seen[(c, s)] != got:
                    ctx.fail(f"query {qi + 1} ({c}, {s}) repeated on the same reader gave other reads/alleles than the first time "
                             f"({len(seen[(c, s)])} vs {len(got)} reads; first difference: "
                             f"{sorted(set(seen[(c, s)]) ^ set(got))[:2]})", desc, key="reader-repeat")
                seen.setdefault((c, s), got)
                bad = False
                for src, name, vs in got:
                    t = who.get((src, name, c))
                    if t is None or t[0] != s:
                        ctx.fail(f"query {qi + 1} ({c}, {s}): read {name!r} of input file {src} was returned, which is "
                                 + ("no read of that file on that chromosome" if t is None else f"a read of sample {t[0]}"),
                                 desc, key="reader-read-sample")
                        bad = True
                        break
                    hv = sc.haps[(s, c)][t[1]]
                    for pos, al in vs:
                        if pos not in posidx or hv[posidx[pos]] != al:
                            prev = q[qi - 1] if qi else None
                            ctx.fail(f"query {qi + 1} ({c}, {s}; previous query {prev}; contig lengths "
                                     f"{[len(x) for x in sc.contigs.values()]}): read {name} (error-free copy of haplotype {t[1]} "
                                     f"of {s}) was given allele {al} at {c}:{pos}, its haplotype carries "
                                     f"{hv[posidx[pos]] if pos in posidx else 'no variant there'}", desc, key="reader-allele")
                            bad = True
                            break
                    if bad:
                        break
                ctx.validated()


def trace_to_raw(tr):
    """the solver's real input of a trace record (`c01.*` ops, key "raw"): positions + reads at genomic positions"""
    fam = tr["family"]
    ids = tr["numeric_sample_ids"]
    ind_of = {ids[s]: i for i, s in enumerate(fam)}
    pos = tr["accessible_positions"]
    geno = []
    for s in fam:
        per = []
        for i in range(len(pos)):
            gl = tr["genotype_likelihoods"][s][i]
            if tr["distrust_genotypes"] and gl is not None:
                per.append([int(x) for x in gl])
            else:
                g = tr["genotypes"][s][i]
                k = sum(g) if (len(g) == 2 and all(a in (0, 1) for a in g)) else None
                per.append([0 if j == k else None for j in range(3)])
        geno.append(per)
    return {"positions": list(pos),
            "reads": [{"ind": ind_of[rd["sample_id"]], "variants": [list(v) for v in rd["variants"]]}
                      for rd in tr["all_reads"]],
            "nind": len(fam), "trios": [[fam.index(f), fam.index(m), fam.index(c)] for f, m, c in tr["trios"]],
            "geno": geno, "recomb": tr["recombination_costs"]}


def trace_to_inst(tr, max_cov=12):
    """the solver instance of a trace record in the C01 model's format (None if too large for the model)"""
    pos = tr["accessible_positions"]
    col = {p: i for i, p in enumerate(pos)}
    fam = tr["family"]
    ids = tr["numeric_sample_ids"]
    # individual index = order of add_individual = order of `family`
    ind_of = {ids[s]: i for i, s in enumerate(fam)}
    reads = []
    for rd in tr["all_reads"]:
        es = [[col[p], a, q] for p, a, q in rd["variants"] if p in col]
        if not es:
            return None
        reads.append({"ind": ind_of[rd["sample_id"]], "first": es[0][0], "last": es[-1][0], "entries": es})
    cov = [0] * len(pos)
    for r in reads:
        for c in range(r["first"], r["last"] + 1):
            cov[c] += 1
    if cov and max(cov) > max_cov:
        return None
    geno = []
    for s in fam:
        per = []
        for i in range(len(pos)):
            gl = tr["genotype_likelihoods"][s][i]
            if tr["distrust_genotypes"] and gl is not None:
                per.append([int(x) for x in gl])
            else:
                g = tr["genotypes"][s][i]
                k = sum(g) if (len(g) == 2 and all(a in (0, 1) for a in g)) else None
                per.append([0 if j == k else None for j in range(3)])
        geno.append(per)
    trios = [[fam.index(f), fam.index(m), fam.index(c)] for f, m, c in tr["trios"]]
    return {"ncols": len(pos), "reads": reads, "nind": len(fam), "trios": trios, "geno": geno,
            "recomb": tr["recombination_costs"]}

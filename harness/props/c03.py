"""C03 — phase sets are exactly the read-connected components, named by leftmost variant.

(i)  in-process: the real `find_components` / `compute_overall_components` on generated incidence structures
     (windows, paired, gapped, nested, interleaved reads; master blocks; het maps; error paths) against the Lean
     model (whole map / exception kind must be equal), and against two union-find-free oracles: a BFS in Python
     and the executable Lean spec (`c03.spec`): component = smallest position connected to it.
(ii) pipeline: `whatshap phase` on simulated data (single / paired reads, depth above the coverage cap, PS and HP
     tags, single sample, --ped with and without --no-genetic-haplotyping, a few --distrust-genotypes runs) with
     the trace hook: traced components = model(traced reads); PS/HP of every phased call in the output VCF =
     1 + smallest position connected (by the traced reads, plus the master block of positions homozygous in a
     family member, computed from the INPUT VCF) to it; two phased variants share a set iff connected.
(iii) the glue between read selection and the writer (Model/C03Pipe.lean): in-process `merge_readsets`, `ReadList.write`,
     `find_largest_component`; whole runs of harness/gen/c03_pipe.py (several chromosomes with different data, several
     families, multi-sample runs without --ped, decorated VCFs, --chromosome/--sample, --output-read-list, ...): per trace
     record the read set handed to the solver = union of the members' SELECTED reads, accessible positions, family stage
     (`c03.family`), read-list rows; per run the composed model `c03.pipeline` (selected reads -> family stage -> C04 writer ->
     C09 decoders) = decoded phase statement of every call of the output VCF; oracle (BFS over the selected reads) on the
     output VCF and the read list.  A second part of this stream re-phases VCFs that ALREADY carry the phasing of an earlier
     run (PS and/or HP on every record kind, also on the kinds the run skips: multi-ALT, duplicate positions, no ALT, non-SNVs
     under --only-snvs; old ids equal to / different from new set ids): every phased call of the output, whatever the record
     kind, is a member of the set it names — a record that is no variant of the run is covered by no used read and may neither
     share a set with another call (`same-set-iff-connected`) nor be phased on its own (`phased-but-not-accessible`).
"""
import json, os, shutil, sys

RULE = ("an incidence structure (phased positions, reads as position lists with sample ids, optional master block and "
        "het map), or a CLI run reduced to (accessible positions, traced reads, master block, phase sets of the output "
        "VCF). Non-trivial: at least two components of which one has >= 2 members, or a master block joining >= 2 "
        "read-components, or an error outcome (assertion / KeyError). Distinct = distinct structure (JSON of the case)")
MANIFEST = dict(
    text="Lean 4 theorems about a model of find_components / compute_overall_components built on the union-find "
         "model: component equality <-> connectivity by reads (+ master block), component = leftmost connected "
         "position, PS = that position + 1, master block merges all touched components; the model is tied to the "
         "working tree by running the real functions in-process and `whatshap phase` with the trace hook, and an "
         "independent BFS oracle is evaluated on the implementation's output (trace and output VCF); deepening: a model of "
         "phase.py between read selection and the writer (merge_readsets, accessible positions, per-family / per-chromosome "
         "dicts, read list) composed with the C04 writer and C09 decoder models, with end-to-end theorems from the selected "
         "reads to the decoded phase set of every written call, tied to whole CLI runs (`c03.pipeline`); round 10: the identifier as "
         "TEXT (type rule of missing_headers for the predefined FORMAT keys, htslib's rendering of an integer under Type=Integer / "
         "Type=Float: `c03.pstype`), whole runs at large coordinates x header declarations judged from the output text (F140)",
    design_ref="DESIGN.md §5 C03",
    note="trusted: Lean kernel, axioms ⊆ {propext, Classical.choice, Quot.sound}; hand-written model (differential "
         "correspondence: quick ~4 200 in-process cases + ~48 CLI runs); allele detection, read selection and the solver's "
         "super-reads are taken as given (trace hook); --merge-reads is outside (F85)",
    technique="Lean 4 proof (union-find invariant: root = least element of the class, kernel of root = equivalence "
              "closure of the merged pairs) + differential correspondence + BFS oracle on CLI output",
)
ASSUMPTIONS = [
    "the reads 'used for phasing' are the reads handed to the solver, read from the trace hook (selection itself is C07)",
    "in --distrust-genotypes runs the per-sample heterozygous positions are taken from the traced super-reads",
    "the Python set/dict iteration order inside find_components does not influence the result (proved for the model: "
    "find returns the root whatever was compressed before)",
]


# ------------------------------------------------------------------------------------------------
# independent oracle (no union-find): BFS over blocks
# ------------------------------------------------------------------------------------------------

def spec_blocks(phased, reads, master, het):
    ps = set(phased)
    blocks = []
    for sid, positions in reads:
        if het is None:
            b = [p for p in positions if p in ps]
        else:
            hs = dict((k, set(v)) for k, v in het).get(sid)
            b = [] if hs is None else [p for p in positions if p in ps and p in hs]
        blocks.append(b)
    if master is not None:
        blocks.append(list(master))
    return blocks


def bfs_leftmost(phased, blocks):
    """{p: smallest position connected to p}"""
    member = {}
    for bi, b in enumerate(blocks):
        for p in b:
            member.setdefault(p, []).append(bi)
    out = {}
    for p in set(phased):
        if p in out:
            continue
        seen, todo, used = {p}, [p], set()
        while todo:
            v = todo.pop()
            for bi in member.get(v, ()):
                if bi in used:
                    continue
                used.add(bi)
                for w in blocks[bi]:
                    if w not in seen:
                        seen.add(w); todo.append(w)
        m = min(seen)
        for v in seen:
            if v in set(phased):
                out[v] = m
    return out


# ------------------------------------------------------------------------------------------------
# in-process cases
# ------------------------------------------------------------------------------------------------

def gen_reads(rng, universe, n_samples, style):
    n = len(universe)
    reads = []

    def window(lo, hi):
        return universe[lo:hi]
    k = rng.randrange(0, 2 * n + 2)
    for _ in range(k):
        sid = rng.randrange(n_samples)
        st = style if style != "mixed" else rng.choice(["windows", "paired", "gapped", "nested", "interleaved"])
        if n == 0:
            reads.append([sid, []]); continue
        if st == "windows":
            a = rng.randrange(n); b = min(n, a + rng.randrange(1, 5))
            ps = window(a, b)
        elif st == "paired":
            a = rng.randrange(n); l1 = rng.randrange(1, 3); g = rng.randrange(1, 5); l2 = rng.randrange(1, 3)
            ps = window(a, a + l1) + window(a + l1 + g, a + l1 + g + l2)
        elif st == "gapped":
            ps = [p for p in universe if rng.random() < rng.choice([0.2, 0.5])]
        elif st == "nested":
            if rng.random() < 0.4:
                a = rng.randrange(n); b = min(n - 1, a + rng.randrange(2, 7))
                ps = [universe[a], universe[b]] if b > a else [universe[a]]
            else:
                a = rng.randrange(n); ps = window(a, a + 2)
        else:  # interleaved
            par = rng.randrange(2); a = rng.randrange(n)
            ps = [p for i, p in enumerate(universe) if i % 2 == par and a <= i < a + 6]
        if rng.random() < 0.05:
            rng.shuffle(ps)
        reads.append([sid, ps])
    return reads


def gen_fc_case(rng):
    n = rng.choice([0, 1, 2, 3, 4, 5, 6, 8, 10, 12])
    universe = sorted(rng.sample(range(0, 4 * n + 6), min(4 * n + 6, n + rng.randrange(0, 3))))
    phased = sorted(rng.sample(universe, min(len(universe), n)))
    r = rng.random()
    if r < 0.03 and len(phased) >= 2:
        phased = phased[::-1]                     # not sorted -> AssertionError
    elif r < 0.08 and phased:
        i = rng.randrange(len(phased)); phased = phased[:i + 1] + phased[i:]   # duplicate, still sorted
    n_samples = rng.choice([1, 1, 2, 3])
    reads = gen_reads(rng, universe, n_samples, rng.choice(["windows", "paired", "gapped", "nested", "interleaved", "mixed", "mixed"]))
    master = None
    r = rng.random()
    if r < 0.4:
        pool = phased if rng.random() < 0.93 else universe     # a non-phased master position -> KeyError
        master = [p for p in pool if rng.random() < rng.choice([0.1, 0.4])]
        if rng.random() < 0.2:
            rng.shuffle(master)
        if rng.random() < 0.05 and master:
            master = master + [master[0]]                      # merge(x, x) -> AssertionError
    het = None
    if rng.random() < 0.4:
        sids = list(range(n_samples))
        if rng.random() < 0.1 and sids:
            sids.pop(rng.randrange(len(sids)))                 # missing sample -> KeyError (only if reached)
        het = [[s, sorted(p for p in universe if rng.random() < 0.7)] for s in sids]
    return {"kind": "fc", "phased": phased, "reads": reads, "master": master, "het": het}


def gen_oc_case(rng):
    n = rng.choice([1, 2, 3, 4, 5, 6, 8, 10])
    universe = sorted(rng.sample(range(0, 4 * n + 6), n + rng.randrange(0, 3)))
    accessible = sorted(rng.sample(universe, n))
    fam = rng.choice([1, 2, 3, 3, 4])
    reads = gen_reads(rng, universe, fam, rng.choice(["windows", "paired", "gapped", "nested", "mixed"]))
    hom = [p for p in universe if rng.random() < rng.choice([0.0, 0.15, 0.4])]
    rng.shuffle(hom)
    supers = []
    for s in range(fam):
        pos = [p for p in universe if rng.random() < 0.9]
        supers.append([s, [[p] + rng.choice([[0, 1], [1, 0], [0, 1], [1, 0], [0, 0], [1, 1], [3, 0], [1, 3], [3, 3]]) for p in pos]])
    return {"kind": "oc", "accessible": accessible, "reads": reads, "distrust": rng.random() < 0.5, "fam_size": fam,
            "genetic": rng.random() < 0.7, "homozygous": hom, "superreads": supers}


def mk_readset(reads, alleles=None):
    from whatshap.core import Read, ReadSet
    rs = ReadSet()
    for i, (sid, ps) in enumerate(reads):
        r = Read(f"r{i}", 60, 0, sid)
        for p in ps:
            # alleles and qualities are irrelevant for connectivity: vary them, including quality 0 (base quality 0 with
            # --no-reference, PQ 0 of a phased block used as a read): such a read still links the variants it covers
            r.add_variant(p, (i + p) % 2, 0 if (i * 7 + p * 13) % 4 == 0 else 10 + (i * p) % 40)
        rs.add(r)
    return rs


def run_impl_fc(case):
    from whatshap.cli.phase import find_components
    rs = mk_readset(case["reads"])
    het = None if case["het"] is None else {s: set(ps) for s, ps in case["het"]}
    try:
        res = find_components(list(case["phased"]), rs, None if case["master"] is None else list(case["master"]), het)
        return {"ok": sorted([int(k), int(v)] for k, v in res.items())}
    except AssertionError:
        return {"err": "AssertionError"}
    except KeyError:
        return {"err": "KeyError"}


def run_impl_oc(case):
    from whatshap.cli.phase import compute_overall_components
    from whatshap.core import Read, ReadSet, NumericSampleIds
    nsi = NumericSampleIds()
    family = [f"s{i}" for i in range(case["fam_size"])]
    for s in family:
        nsi[s]
    rs = mk_readset(case["reads"])
    supers = []
    for sid, vars_ in case["superreads"]:
        s = ReadSet()
        for h in (0, 1):
            r = Read(f"superread_{h}_{sid}", 0, 0, sid)
            for v in vars_:
                r.add_variant(v[0], v[1 + h], 30)
            s.add(r)
        supers.append(s)
    try:
        res = compute_overall_components(list(case["accessible"]), rs, case["distrust"], family, case["genetic"],
                                         list(case["homozygous"]), nsi, supers)
        return {"ok": sorted([int(k), int(v)] for k, v in res.items())}
    except AssertionError:
        return {"err": "AssertionError"}
    except KeyError:
        return {"err": "KeyError"}


def oc_params(case):
    """master block / het map of compute_overall_components, recomputed independently for the oracle"""
    acc = set(case["accessible"])
    multi = case["fam_size"] > 1 and case["genetic"]
    if case["distrust"]:
        het, homs = [], set()
        for sid, vars_ in case["superreads"][:case["fam_size"]]:
            het.append([sid, sorted(v[0] for v in vars_ if v[0] in acc and sorted(v[1:]) == [0, 1])])
            homs |= {v[0] for v in vars_ if v[0] in acc and v[1] == v[2] and v[1] in (0, 1)}
        return (sorted(homs) if multi else None), het
    return (sorted(set(case["homozygous"]) & acc) if multi else None), None


class Batch:
    """collects model requests; compares after a pipelined ask"""

    def __init__(self, ctx):
        self.ctx, self.reqs, self.cb = ctx, [], []

    def add(self, req, cb):
        self.reqs.append(req); self.cb.append(cb)
        if len(self.reqs) >= 400:
            self.flush()

    def flush(self):
        if not self.reqs:
            return
        for req, cb, ans in zip(self.reqs, self.cb, self.ctx.model.ask_many(self.reqs)):
            cb(req, ans)
        self.reqs, self.cb = [], []


def check_structure(ctx, batch, case, impl, phased, reads, master, het, model_req, label):
    """impl: {"ok": [[p, c]..]} or {"err": ..}; oracle + correspondence"""
    ctx.evaluated()
    blocks = spec_blocks(phased, reads, master, het)
    if "ok" in impl:
        got = {p: c for p, c in impl["ok"]}
        want = bfs_leftmost(phased, blocks)
        if set(got) != set(phased):
            ctx.fail(f"{label}: result keys {sorted(got)} are not the phased positions {sorted(set(phased))}", case, key="fc-keys")
        for p in sorted(set(phased)):
            if p in got and got[p] != want[p]:
                ctx.fail(f"{label}: position {p} is in component {got[p]} but the leftmost position connected to it by the "
                         f"reads{' / master block' if master else ''} is {want[p]}", case, key="component-not-leftmost-connected")
                break
        comps = {}
        for p, c in got.items():
            comps.setdefault(c, []).append(p)
        read_comps = bfs_leftmost(phased, spec_blocks(phased, reads, None, het))
        nt = (len(comps) >= 2 and any(len(v) >= 2 for v in comps.values())) or \
             (master and len({read_comps[p] for p in master if p in read_comps}) >= 2)
        ctx.dist(label + "_n_components", len(comps))
        # second oracle: executable Lean spec
        def cb_spec(req, ans, got=got, case=case):
            left = {p: c for p, c in ans.get("leftmost", [])}
            for p, c in sorted(got.items()):
                if left.get(p) != c:
                    ctx.fail(f"{label}: position {p} in component {c}, Lean spec (BFS closure) says leftmost connected is {left.get(p)}",
                             case, key="component-not-leftmost-connected")
                    break
        batch.add({"op": "c03.spec", "phased": phased, "reads": reads, "master": master, "het": het, "pairs": []}, cb_spec)
    else:
        nt = True
        ctx.dist(label + "_error", impl["err"])
    if nt:
        ctx.nontrivial(json.dumps(case, sort_keys=True))

    def cb_model(req, ans, impl=impl, case=case):
        m = {"ok": ans["ok"]} if "ok" in ans else ans
        if m != impl:
            ctx.disagree(req["op"], case, impl, m)
    batch.add(model_req, cb_model)


def do_fc(ctx, batch, case):
    impl = run_impl_fc(case)
    req = {"op": "c03.find_components", "phased": case["phased"], "reads": case["reads"], "master": case["master"], "het": case["het"]}
    ctx.dist("fc_n_positions", len(case["phased"])); ctx.dist("fc_n_reads", min(len(case["reads"]), 20))
    ctx.dist("fc_master", "none" if case["master"] is None else min(len(case["master"]), 5))
    ctx.dist("fc_het", case["het"] is not None)
    check_structure(ctx, batch, case, impl, case["phased"], case["reads"], case["master"], case["het"], req, "find_components")
    ctx.sample({"case": case, "impl": impl})


def do_oc(ctx, batch, case):
    impl = run_impl_oc(case)
    req = dict(case, op="c03.overall"); req.pop("kind")
    master, het = oc_params(case)
    ctx.dist("oc_fam_size", case["fam_size"]); ctx.dist("oc_distrust", case["distrust"]); ctx.dist("oc_genetic", case["genetic"])
    check_structure(ctx, batch, case, impl, case["accessible"], case["reads"], master, het, req, "compute_overall_components")


# ------------------------------------------------------------------------------------------------
# pipeline cases
# ------------------------------------------------------------------------------------------------

def gen_cli_case(rng, mode):
    from harness.gen import c05_ped as G
    mode, _, forced_style = mode.partition(":")
    sub = rng.randrange(1 << 30)
    import random
    r = random.Random(sub)
    args = []
    if mode in ("single", "deep"):
        n_s = r.choice([1, 1, 2])
        case = G.make_single_case(r, samples=[f"S{i + 1}" for i in range(n_s)], n_variants=(10, 28), contig_len=(2500, 5000),
                                  het_prob=r.choice([0.7, 0.9, 1.0]))
        style = r.choice(["random", "interleaved", "nested", "chain-gaps"]) if mode == "single" else r.choice(["random", "clusters", "clusters"])
        style = forced_style or style
        case["style"] = style
        nvar = len(case["variants"])
        for s in case["samples"]:
            if style == "random":
                if mode == "deep":      # depth above the cap: selection has to drop reads
                    G.add_reads(r, case, s, depth=r.choice([6, 10, 18]), read_len=(50, 160), paired_frac=r.choice([0.3, 0.7]),
                                insert=(60, 700), noise=r.choice([0, 0.03]))
                else:
                    G.add_reads(r, case, s, depth=r.choice([0.4, 0.8, 1.5, 3]), read_len=(50, 160), paired_frac=r.choice([0.0, 0.5, 0.9]),
                                insert=(60, 700), noise=r.choice([0, 0, 0.05]))
            else:
                G.add_structured_reads(r, case, s, G.structure_blocks(r, nvar, style), noise=r.choice([0, 0, 0.05]))
                if style != "clusters" and r.random() < 0.3:
                    G.add_reads(r, case, s, depth=0.3, read_len=(50, 160))
        cap = r.choice([1, 1, 2, 3]) if mode == "deep" and r.random() < 0.8 else 15
    else:
        case = G.make_family_case(r, n_children=r.choice([1, 1, 2]), n_variants=(8, 20), contig_len=(2000, 4000), conflict_prob=0.05,
                                  missing_prob=0.05, unrelated=r.random() < 0.3, parent_gt_weights=r.choice([(1, 3, 1), (1, 8, 1), (0, 1, 0)]))
        for s in case["samples"]:
            G.add_reads(r, case, s, depth=r.choice([0, 0.5, 1, 2, 4]), read_len=(50, 160), paired_frac=r.choice([0.0, 0.5]),
                        insert=(60, 500), noise=r.choice([0, 0, 0.05]))
        cap = r.choice([2, 3, 6, 15])
        if mode == "ped-nogenetic":
            args.append("--no-genetic-haplotyping")
    args += ["--internal-downsampling", str(cap)]
    tag = r.choice(["PS", "PS", "HP"])
    args += ["--tag", tag]
    if r.random() < 0.2:
        args.append("--distrust-genotypes")
    if r.random() < 0.5:
        args.append("--no-reference")
        use_ref = False
    else:
        use_ref = True
    return {"kind": "cli", "mode": mode, "data": case, "args": args, "use_ref": use_ref, "tag": tag, "sub_seed": sub}


def run_cli(ctx, batch, case):
    from harness.gen import sim, c05_ped as G
    d = os.path.join(ctx.workdir(), "cli")
    shutil.rmtree(d, ignore_errors=True)
    try:
        paths = G.write_case(case["data"], d)
        out = os.path.join(d, "out.vcf")
        args = ["phase", "-o", out] + list(case["args"])
        if case["use_ref"]:
            args += ["--reference", paths["fasta"]]
        if case["data"].get("ped") and case["mode"] != "single":
            args += ["--ped", paths["ped"]]
        args += [paths["vcf"], paths["bam"]]
        rc, so, se, trace = sim.whatshap(args, ctx.overlay, trace=os.path.join(d, "trace.jsonl"))
        ctx.evaluated()
        if rc != 0:
            ctx.fail(f"whatshap phase exited with {rc}: {se[-300:]}", _slim(case), key="cli-crash")
            return
        _, _, inrecs = sim.read_vcf(paths["vcf"])
        try:
            samples, recs, n_nul = G.read_vcf_tolerant(out)
            if n_nul:
                ctx.observe("output VCF contains NUL bytes (--tag HP with every sample's HP missing in a record; C04/C09 finding)")
        except Exception as e:      # the output of a successful run must be a readable VCF
            ctx.fail(f"output VCF of whatshap phase cannot be parsed: {type(e).__name__}: {e}", _slim(case), key="output-vcf-unreadable")
            return
        check_cli(ctx, batch, case, samples, recs, inrecs, trace)
    finally:
        shutil.rmtree(d, ignore_errors=True)


def _slim(case):
    return case


def check_cli(ctx, batch, case, samples, recs, inrecs, trace):
    from harness.gen import sim, c05_ped as G
    ctx.dist("cli_mode", case["mode"]); ctx.dist("cli_tag", case["tag"]); ctx.dist("cli_read_style", case["data"].get("style", "random"))
    ctx.dist("cli_distrust", "--distrust-genotypes" in case["args"])
    seen_samples = set()
    for t in trace:
        fam = t["family"]
        ids = t["numeric_sample_ids"]
        acc = t["accessible_positions"]
        reads = [[r["sample_id"], [v[0] for v in r["variants"]]] for r in t["all_reads"]]
        supers = [[ids[s], [[a[0], a[1], b[1]] for a, b in zip(t["superreads"][s][0]["variants"], t["superreads"][s][1]["variants"])]]
                  for s in fam]
        ocase = {"kind": "oc", "accessible": acc, "reads": reads, "distrust": t["distrust_genotypes"], "fam_size": len(fam),
                 "genetic": t["genetic_haplotyping"], "homozygous": t["homozygous_positions"], "superreads": supers}
        traced = {"ok": sorted([int(a), int(b)] for a, b in t["overall_components"])}
        # ---- correspondence at the seam: traced components = model(traced reads)
        def cb(req, ans, traced=traced, ocase=ocase):
            m = {"ok": ans["ok"]} if "ok" in ans else ans
            ctx.validated()
            if m != traced:
                ctx.disagree("c03.overall(trace)", {"kind": "oc-trace", "cli": case, "instance": ocase}, traced, m)
        req = dict(ocase, op="c03.overall"); req.pop("kind")
        batch.add(req, cb)
        # ---- oracle on the OUTPUT VCF
        # master block from the INPUT genotypes: accessible positions at which some family member is homozygous
        sidx = {s: samples.index(s) for s in fam}
        multi = len(fam) > 1 and "--no-genetic-haplotyping" not in case["args"]
        het = None
        if t["distrust_genotypes"]:
            master, het = oc_params(ocase)
        elif multi:
            master = []
            for r in inrecs:
                if r["pos"] in set(acc):
                    for s in fam:
                        gt = r["calls"][sidx[s]]["GT"][0]
                        if gt is not None and None not in gt and len(set(gt)) == 1:
                            master.append(r["pos"]); break
            master = sorted(set(master))
        else:
            master = None
        blocks = spec_blocks(acc, reads, master, het)
        left = bfs_leftmost(acc, blocks)
        n_sets = set()
        for s in fam:
            seen_samples.add(s)
            phase = G.decode_calls([r for r in recs if r["chrom"] == t["chromosome"]], sidx[s])
            items = sorted((pos, ps) for pos, (ps, al) in phase.items())
            for pos, ps in items:
                if pos not in left:
                    ctx.fail(f"sample {s}: variant at {pos + 1} is phased (set {ps}) but no read used for phasing covers it "
                             f"(not an accessible position)", {"kind": "cli", "cli": case}, key="phased-but-not-accessible")
                    continue
                if ps != left[pos] + 1:
                    ctx.fail(f"sample {s}: variant at {pos + 1} has phase set {ps}; the leftmost variant connected to it by the reads "
                             f"used for phasing{' and the master block' if master else ''} is at {left[pos] + 1}",
                             {"kind": "cli", "cli": case, "instance": ocase, "phase_sets": items}, key="ps-not-leftmost-connected")
                    break
                n_sets.add(ps)
            # pairwise iff (redundant given the check above, but it is the property as stated)
            for i in range(len(items)):
                for k in range(i + 1, len(items)):
                    (p, a), (q, b) = items[i], items[k]
                    if p in left and q in left and ((a == b) != (left[p] == left[q])):
                        ctx.fail(f"sample {s}: variants at {p + 1} and {q + 1} are {'in the same' if a == b else 'in different'} phase "
                                 f"set(s) but are {'' if left[p] == left[q] else 'not '}connected by reads", {"kind": "cli", "cli": case},
                                 key="same-set-iff-connected")
                        break
        ctx.dist("cli_n_phase_sets", len(n_sets)); ctx.dist("cli_n_accessible", min(len(acc), 30))
        ctx.dist("cli_n_reads", min(len(reads) // 5 * 5, 100))
        gapped = sum(1 for _, ps in reads if ps and any(a not in set(ps) for a in acc if min(ps) < a < max(ps)))
        ctx.dist("cli_has_gapped_reads", gapped > 0)
        # selection cut components?  components of the candidate reads vs. of the selected reads
        cand = [[ids[s], [v[0] for v in r["variants"]]] for s in fam for r in t["candidates"][s]["reads"]]
        ncand = len(set(bfs_leftmost(acc, spec_blocks(acc, cand, master, het)).values()))
        nsel = len(set(left.values()))
        ctx.dist("cli_selection_split_components", nsel > ncand)
        ctx.dist("cli_reads_dropped_by_selection", len(cand) > len(reads))
        comps = {}
        for p, c in left.items():
            comps.setdefault(c, []).append(p)
        spans = sorted((min(v), max(v)) for v in comps.values())
        ctx.dist("cli_interleaved_or_nested_components", any(spans[i + 1][0] < spans[i][1] for i in range(len(spans) - 1)))
        if (len(comps) >= 2 and any(len(v) >= 2 for v in comps.values())) or (master and len(master) >= 2):
            ctx.nontrivial(json.dumps([acc, reads, master, sorted(n_sets)]))
    # samples that were not phased at all must not carry phase sets from nowhere
    if len(ctx.samples) < 4:
        ctx.sample({"cli_args": case["args"], "mode": case["mode"], "n_trace_records": len(trace)})


# ------------------------------------------------------------------------------------------------
# glue between read selection and the writer: merge_readsets, ReadList.write, find_largest_component (in-process)
# ------------------------------------------------------------------------------------------------

def _mk_read(rd):
    from whatshap.core import Read
    r = Read(rd["name"], 60, rd["source_id"], rd["sample_id"])
    for p, a, q in rd["variants"]:
        r.add_variant(p, a, q)
    return r


def _dump(read):
    return {"name": read.name, "source_id": read.source_id, "sample_id": read.sample_id,
            "variants": [[v.position, v.allele, v.quality] for v in read]}


def _read_key(rd):
    return (rd["name"], rd["source_id"], rd["sample_id"], tuple(map(tuple, rd["variants"])))


def gen_merge_case(rng):
    n_sets = rng.choice([1, 1, 2, 3, 4])
    universe = sorted(rng.sample(range(0, 60), rng.randrange(2, 12)))
    readsets, k = [], 0
    for si in range(n_sets):
        rs = []
        for _ in range(rng.randrange(0, 6)):
            k += 1
            ps = sorted(rng.sample(universe, rng.randrange(0 if rng.random() < 0.1 else 1, min(6, len(universe)) + 1)))
            r = rng.random()
            if r < 0.04 and len(ps) >= 2:
                ps = ps[::-1]                       # not sorted -> AssertionError
            elif r < 0.07 and ps:
                ps = ps + [ps[-1]]                  # repeated position: is_sorted() is strict -> AssertionError
            rs.append({"name": f"r{k}", "source_id": rng.choice([0, 0, 1]), "sample_id": si,
                       "variants": [[p, rng.randrange(2), rng.choice([0, 10, 30])] for p in ps]})
        readsets.append(rs)
    r = rng.random()
    flat = [(i, j) for i, rs in enumerate(readsets) for j in range(len(rs))]
    if r < 0.15 and len(flat) >= 2:
        (i, j), (i2, j2) = rng.sample(flat, 2)
        if i != i2:                                 # the same name in two members' read sets
            readsets[i2][j2]["name"] = readsets[i][j]["name"]
            if rng.random() < 0.7:
                readsets[i2][j2]["source_id"] = readsets[i][j]["source_id"]     # -> RuntimeError
    return {"kind": "merge", "readsets": readsets}


def do_merge(ctx, batch, case):
    from whatshap.core import ReadSet
    from whatshap.cli.phase import merge_readsets
    ctx.evaluated()
    d = {}
    for i, rs in enumerate(case["readsets"]):
        x = ReadSet()
        for rd in rs:
            x.add(_mk_read(rd))
        d[f"s{i}"] = x
    try:
        res = merge_readsets(d)
        impl = {"ok": [_dump(r) for r in res]}
    except AssertionError:
        impl = {"err": "AssertionError"}
    except RuntimeError:
        impl = {"err": "RuntimeError"}
    flat = [rd for rs in case["readsets"] for rd in rs]
    ctx.dist("merge_outcome", impl.get("err", "ok")); ctx.dist("merge_n_sets", len(case["readsets"]))
    if "ok" in impl:
        # predicate: the reads used for phasing are exactly the selected reads of all members; sorted by first position
        if sorted(map(_read_key, impl["ok"])) != sorted(map(_read_key, flat)):
            ctx.fail("merge_readsets: the merged read set is not the union of the members' read sets", case, key="all-reads-not-union-of-selected")
        keys = [(-1 if not rd["variants"] else rd["variants"][0][0]) for rd in impl["ok"]]
        if keys != sorted(keys):
            ctx.fail("merge_readsets: result is not sorted by first position", case, key="all-reads-not-sorted")
        if len(flat) >= 2 and len(case["readsets"]) >= 2:
            ctx.nontrivial(json.dumps(case, sort_keys=True))
    else:
        ctx.nontrivial(json.dumps(case, sort_keys=True))

    def cb(req, ans, impl=impl, case=case):
        if "ok" in ans and "ok" in impl:
            mk = [(-1 if not rd["variants"] else rd["variants"][0][0]) for rd in ans["ok"]]
            if sorted(map(_read_key, ans["ok"])) != sorted(map(_read_key, impl["ok"])) or mk != sorted(mk):
                ctx.disagree("c03.merge", case, impl, ans)
        elif ans != impl:
            ctx.disagree("c03.merge", case, impl, ans)
    batch.add({"op": "c03.merge", "readsets": case["readsets"]}, cb)


def gen_readlist_case(rng):
    n_members = rng.choice([1, 1, 2, 3])
    members = [[f"m{i}", i] for i in range(n_members)]
    universe = sorted(rng.sample(range(0, 80), rng.randrange(3, 14)))
    # a plausible component map: contiguous runs named by their first position
    comps, cur = [], None
    for p in universe:
        if cur is None or rng.random() < 0.35:
            cur = p
        comps.append([p, cur])
    sample_comps = [[m[0], [list(c) for c in comps]] for m in members]
    reads = []
    for k in range(rng.randrange(0, 8)):
        ps = sorted(rng.sample(universe, rng.randrange(1, min(5, len(universe)) + 1)))
        reads.append({"name": f"r{k}", "source_id": rng.choice([0, 1]), "sample_id": rng.randrange(n_members),
                      "variants": [[p, rng.randrange(2), rng.choice([0, 7, 30])] for p in ps]})
    bip = [rng.randrange(2) for _ in reads]
    r = rng.random()
    if r < 0.06:
        bip = bip + [0] if rng.random() < 0.5 else bip[:-1] if bip else [0]
    elif r < 0.12 and reads:
        rng.choice(reads)["sample_id"] = n_members + 1               # unknown numeric id
    elif r < 0.18 and reads:
        sample_comps.pop(rng.randrange(len(sample_comps)))           # a member without components
    elif r < 0.24 and reads:
        x = rng.choice(reads); first = x["variants"][0][0]
        for sc in sample_comps:
            sc[1] = [c for c in sc[1] if c[0] != first]              # first position without component
    elif r < 0.28 and reads:
        rng.choice(reads)["variants"] = []                           # read[0] of an empty read
    return {"kind": "readlist", "members": members, "sample_comps": sample_comps, "reads": reads, "bipartition": bip}


def parse_read_list(path):
    rows = []
    with open(path) as f:
        header = f.readline()
        for line in f:
            c = line.rstrip("\n").split("\t")
            rows.append([c[0], int(c[1]), c[2], int(c[3]), int(c[4]), int(c[5]), int(c[6]), int(c[7])])
    return header, rows


def expected_readlist(case):
    """what ReadList.write has to do, written down independently of the code and of the Lean model"""
    if len(case["reads"]) != len(case["bipartition"]):
        return {"err": "AssertionError"}
    names = dict((i, n) for n, i in case["members"])
    comps = {s: {p: c for p, c in cs} for s, cs in case["sample_comps"]}
    rows = []
    for rd, hap in zip(case["reads"], case["bipartition"]):
        if rd["sample_id"] not in names or names[rd["sample_id"]] not in comps:
            return {"err": "KeyError"}
        if not rd["variants"]:
            return {"err": "IndexError"}
        first, last = rd["variants"][0][0], rd["variants"][-1][0]
        c = comps[names[rd["sample_id"]]]
        if first not in c:
            return {"err": "KeyError"}
        rows.append([rd["name"], rd["source_id"], names[rd["sample_id"]], c[first] + 1, hap, len(rd["variants"]), first + 1, last + 1])
    return {"ok": rows}


def do_readlist(ctx, batch, case):
    from whatshap.core import ReadSet, NumericSampleIds
    from whatshap.cli.phase import ReadList
    ctx.evaluated()
    nsi = NumericSampleIds()
    for name, i in case["members"]:
        assert nsi[name] == i
    rs = ReadSet()
    for rd in case["reads"]:
        rs.add(_mk_read(rd))
    comps = {s: {p: c for p, c in cs} for s, cs in case["sample_comps"]}
    path = os.path.join(ctx.workdir(), "readlist.tsv")
    try:
        with ReadList(path) as rl:
            rl.write(rs, list(case["bipartition"]), comps, nsi)
        impl = {"ok": parse_read_list(path)[1]}
    except (AssertionError, KeyError, IndexError) as e:
        impl = {"err": type(e).__name__}
    finally:
        if os.path.exists(path):
            os.remove(path)
    ctx.dist("readlist_outcome", impl.get("err", "ok"))
    want = expected_readlist(case)
    if impl != want:
        ctx.fail(f"ReadList.write gave {json.dumps(impl)[:300]}, expected {json.dumps(want)[:300]} (one row per read, phase set = 1 + "
                 f"component of the read's first variant)", case, key="read-list-row")
    if "err" in impl or len(case["reads"]) >= 2:
        ctx.nontrivial(json.dumps(case, sort_keys=True))

    def cb(req, ans, impl=impl, case=case):
        if ans != impl:
            ctx.disagree("c03.readlist", case, impl, ans)
    batch.add({"op": "c03.readlist", "members": case["members"], "sample_comps": case["sample_comps"], "reads": case["reads"],
               "bipartition": case["bipartition"]}, cb)


def do_largest(ctx, batch, comps, case):
    """find_largest_component (only logged by whatshap): a sorted list of positions that is one of the components and
    has the maximal size; size = model"""
    from whatshap.cli.phase import find_largest_component
    res = find_largest_component({p: c for p, c in comps})
    blocks = {}
    for p, c in comps:
        blocks.setdefault(c, []).append(p)
    best = max([len(b) for b in blocks.values()] + [0])
    if list(res) != sorted(res) or len(res) != best or (res and sorted(blocks[dict(map(tuple, comps))[res[0]]]) != list(res)):
        ctx.fail(f"find_largest_component returned {list(res)}, not a largest component (size {best})", case, key="largest-component")

    def cb(req, ans, n=len(res), case=case):
        if ans.get("size") != n:
            ctx.disagree("c03.largest", case, n, ans)
    batch.add({"op": "c03.largest", "comps": [list(c) for c in comps]}, cb)


# ------------------------------------------------------------------------------------------------
# whole runs: from the selected reads of every (chromosome, family) to the phase sets in the output VCF / read list
# ------------------------------------------------------------------------------------------------

def decode_call(call, fmt):
    """independent decoder of one call in the `c04_records.model_record` shape: (block, alleles) or None"""
    gt, fields = call["gt"], dict((k, v) for k, v in call["fields"])
    if gt is None or len(gt) < 2 or any(a is None for a in gt):
        return None
    if call["phased"] and len(set(gt)) > 1:
        ps = fields.get("PS") if "PS" in fmt else 0
        return (ps if isinstance(ps, int) else None, list(gt))
    hp = fields.get("HP")
    if isinstance(hp, list) and hp and len(hp) == len(gt) and len({b for b, _ in hp}) == 1:
        order = [h - 1 for _, h in hp]
        if sorted(order) == list(range(len(gt))):
            return (hp[0][0], [gt[order.index(i)] for i in range(len(gt))])
    return None


def eligible_first(recs, only_snvs):
    """indices of the records neither writer nor reader skip: exactly one ALT, not symbolic-free requirement (a symbolic
    ALT counts as an ordinary biallelic record for the writer), an SNV under --only-snvs, and the first such record at
    its (chromosome, position)"""
    seen, out = set(), set()
    for i, r in enumerate(recs):
        if len(r["alts"]) != 1:
            continue
        if only_snvs and not (len(r["ref"]) == 1 and len(r["alts"][0]) == 1):
            continue
        k = (r["chrom"], r["pos"])
        if k in seen:
            continue
        seen.add(k); out.add(i)
    return out


def skip_kind(recs, i, only_snvs):
    """why neither reader nor writer look at record i"""
    r = recs[i]
    if not r["alts"]:
        return "no-ALT"
    if len(r["alts"]) > 1:
        return "multi-allelic"
    if only_snvs and not (len(r["ref"]) == 1 and len(r["alts"][0]) == 1):
        return "non-SNV (--only-snvs)"
    return "duplicate-position"


def pedigree_families(ped_lines, phased_samples):
    """{sample: sorted members of its family}, from the PED file and the samples phased in the run, independently of the
    implementation: a PED line is a relationship iff child, father and mother are all known and all phased in this run
    (whatshap ignores the others with a warning); families = connected components of these relationships; every other
    sample is a family of its own"""
    ps = set(phased_samples)
    group = {s: {s} for s in ps}
    for _, ch, fa, mo in ped_lines:
        if "0" in (ch, fa, mo) or not {ch, fa, mo} <= ps:
            continue
        g = group[ch] | group[fa] | group[mo]
        for x in g:
            group[x] = g
    return {s: sorted(g) for s, g in group.items()}


# ---- the phase set identifier as TEXT (round 10, F140): what a reader of the file sees, not what pysam's typed access returns
_DECIMAL = None


def text_ids(fmt_text, col):
    """the identifier token(s) a call's TEXT carries for its phase set ([] = the call makes no phase statement or has no id):
    a heterozygous `|` genotype with a PS value -> that PS token; otherwise an HP value -> the prefixes in front of `-<hap>`"""
    keys = fmt_text.split(":") if fmt_text else []
    vals = col.split(":")
    d = {k: (vals[i] if i < len(vals) else ".") for i, k in enumerate(keys)}
    gt = d.get("GT", ".")
    if "|" in gt and "/" not in gt:
        al = gt.split("|")
        if "." not in al and len(set(al)) > 1:
            return [d["PS"]] if d.get("PS", ".") not in (".", "") else []
    hp = d.get("HP", ".")
    if hp not in (".", ""):
        return sorted({x.rsplit("-", 1)[0] if "-" in x else x for x in hp.split(",")})
    return []


def is_decimal_position(tok):
    global _DECIMAL
    if _DECIMAL is None:
        import re
        _DECIMAL = re.compile(r"[1-9][0-9]*\Z")
    return bool(_DECIMAL.match(tok))


def text_phase_oracle(ctx, case, chrom, fam, sidx, rin, rout, elig, left):
    """every phased call of a family member at a variant of the run: its identifier TOKEN is the decimal integer = 1-based POS of the
    leftmost variant of its read-connected component, and two calls carry the same token iff they are connected"""
    lg = case["params"].get("large") or {}
    for s in fam:
        seen = {}                # token -> (component, position)
        of_comp = {}             # component -> token
        for i, r in enumerate(rout):
            if rin[i]["chrom"] != chrom or i not in elig or r["pos"] not in left or r.get("fmt_text") is None:
                continue
            col = r["sample_text"][sidx[s]]
            toks = text_ids(r["fmt_text"], col)
            if not toks:
                continue
            pos, comp = r["pos"], left[r["pos"]]
            bad = [t for t in toks if not is_decimal_position(t)]
            if bad or len(toks) > 1:
                ctx.fail(f"sample {s}: the call at {chrom}:{pos + 1} is written as {r['fmt_text']} {col}: its phase set identifier "
                         f"{(bad or toks)[0]!r} is not the decimal number {comp + 1} (the 1-based position of the leftmost variant of its "
                         f"read-connected component)" + (f"; the input header declares PS as {lg.get('ps')}" if lg else ""), case,
                         key="ps-id-not-integer-position")
                return True
            tok = toks[0]
            if tok in seen and seen[tok][0] != comp:
                ctx.fail(f"sample {s}: {chrom}:{seen[tok][1] + 1} and {chrom}:{pos + 1} both carry the phase set identifier {tok!r} but are "
                         f"not connected by reads used for phasing (leftmost variants {seen[tok][0] + 1} and {comp + 1})", case,
                         key="same-set-iff-connected")
                return
            if comp in of_comp and of_comp[comp] != tok:
                ctx.fail(f"sample {s}: {chrom}:{pos + 1} carries the identifier {tok!r}, another call of its read-connected component "
                         f"(leftmost variant {comp + 1}) carries {of_comp[comp]!r}", case, key="same-set-iff-connected")
                return
            seen.setdefault(tok, (comp, pos)); of_comp.setdefault(comp, tok)


PSTYPE_KEYS = ["GL", "GQ", "GT", "HP", "PQ", "PS", "HS", "AD", "XX"]
PSTYPE_NUMBERS = [1, 2, ".", "A", "G", "R"]
PSTYPE_TYPES = ["Integer", "Float", "String", "Character"]


def do_pstype(ctx, batch):
    """the type rule of `missing_headers` for the predefined FORMAT keys (every key x Number x Type, one header line per file) and the
    PS type of the writer's output header against the decision table of `Model/C03Header.lean` (as coded / as repaired), and htslib's
    text of integers under `Type=Integer` / `Type=Float` against `renderDec` / `renderFloatG`"""
    import pysam
    from whatshap import vcf as V
    d = os.path.join(ctx.workdir(), "pstype")
    os.makedirs(d, exist_ok=True)
    path = os.path.join(d, "h.vcf")
    decls, impl, ps_out = [], [], []
    verbosity = pysam.set_verbosity(0)          # htslib warns about every non-standard declaration

    def write(key, number, typ, body="chr1\t5\t.\tA\tC\t.\t.\t.\tGT\t0/1\n"):
        with open(path, "w") as f:
            f.write("##fileformat=VCFv4.2\n##contig=<ID=chr1,length=300000000>\n")
            if key != "GT":
                f.write('##FORMAT=<ID=GT,Number=1,Type=String,Description="Genotype">\n')
            if key is not None:
                f.write(f'##FORMAT=<ID={key},Number={number},Type={typ},Description="x">\n')
            f.write("#CHROM\tPOS\tID\tREF\tALT\tQUAL\tFILTER\tINFO\tFORMAT\ts1\n" + body)

    for key in PSTYPE_KEYS:
        for number in PSTYPE_NUMBERS:
            for typ in PSTYPE_TYPES:
                write(key, number, typ)
                try:
                    _, formats, _ = V.missing_headers(path)
                    res = "rewrite" if key in formats else "accept"
                except V.VcfError:
                    res = "refuse"
                except OSError:
                    continue          # htslib cannot read the record under this declaration (GT typed Integer / Float): no input
                decls.append([key, number, typ]); impl.append(res)
                out_t = "-"
                if key == "PS":
                    try:
                        with open(path + ".out", "w") as fo:
                            w = V.PhasedVcfWriter(path, None, fo, tag="PS")
                            out_t = w._writer.header.formats["PS"].type
                            w.close()
                    except V.VcfError:
                        out_t = None
                ps_out.append(out_t)
                ctx.evaluated()
    write(None, None, None)
    with open(path + ".out", "w") as fo:
        w = V.PhasedVcfWriter(path, None, fo, tag="PS")
        absent_t = w._writer.header.formats["PS"].type
        w.close()
    # ---- htslib's text of an integer under the two types
    rng = ctx.rng
    ints = [1, 9, 10, 999999, 1000000, 1000001, 9999994, 9999995, 9999996, 16777215, 16777216, 16777217, 20000001, 20000004, 20000203,
            123456500, 123456496, 123456504, 99999950, 99999949, 536870911, 2147483647, 2147483583, 2147483584, 1234565, 12345650, 12345750]
    for _ in range(150 if ctx.quick else 3000):
        k = rng.choice([6, 7, 7, 8, 8, 9, 9])
        ints.append(min(rng.randrange(10 ** (k - 1), 10 ** k), 2 ** 31 - 1))
    for _ in range(60 if ctx.quick else 1000):
        # next to a rounding boundary of the 6th significant digit / of the 24-bit mantissa
        k = rng.choice([7, 8, 9])
        base = rng.randrange(10 ** 5, 10 ** 6) * 10 ** (k - 6) + 5 * 10 ** (k - 7)
        ints.append(max(1, min(base + rng.choice([-9, -8, -4, -1, 0, 1, 4, 8, 9]), 2 ** 31 - 1)))
    texts = {}
    for typ in ("Integer", "Float"):
        hdr = pysam.VariantHeader()
        hdr.add_line("##contig=<ID=chr1,length=2147483647>")
        hdr.add_line('##FORMAT=<ID=GT,Number=1,Type=String,Description="Genotype">')
        hdr.add_line(f'##FORMAT=<ID=PS,Number=1,Type={typ},Description="x">')
        hdr.add_sample("s1")
        out = os.path.join(d, f"r_{typ}.vcf")
        with pysam.VariantFile(out, "w", header=hdr) as vf:
            for j, n in enumerate(ints):
                rec = vf.new_record(contig="chr1", start=j, alleles=("A", "C"))
                rec.samples["s1"]["GT"] = (0, 1)
                rec.samples["s1"]["PS"] = n
                vf.write(rec)
        texts[typ] = [l.rstrip("\n").split("\t")[9].split(":")[1] for l in open(out) if not l.startswith("#")]
    shutil.rmtree(d, ignore_errors=True)
    pysam.set_verbosity(verbosity)
    case = {"kind": "pstype"}

    def cb(req, ans):
        ctx.validated()
        if "coded" not in ans:
            ctx.disagree("c03.pstype", case, "ok", ans); return
        norm = lambda l: ["accept" if x == "not-predefined" else x for x in l]
        coded, fixed = norm(ans["coded"]), norm(ans["fixed"])
        which = "as-coded" if impl == coded and ps_out == ans["ps_out_coded"] else \
                "as-repaired" if impl == fixed and ps_out == ans["ps_out_fixed"] else None
        ctx.dist("pstype_rule_of_missing_headers", which)
        if which is None:
            diff = [(dc, i, c, f) for dc, i, c, f in zip(decls, impl, coded, fixed) if i != c or i != f]
            diff2 = [(dc, i, c, f) for dc, i, c, f in zip(decls, ps_out, ans["ps_out_coded"], ans["ps_out_fixed"]) if i != c or i != f]
            if os.environ.get("C03_DEBUG"):
                print("pstype", diff[:12], diff2[:12], file=sys.stderr)
            ctx.disagree("c03.pstype", case, {"decision": [x[:2] for x in diff][:8], "ps_output_type": [x[:2] for x in diff2][:8]},
                         {"decision(coded,fixed)": [x[2:] for x in diff][:8], "ps_output_type(coded,fixed)": [x[2:] for x in diff2][:8]})
        if absent_t != ans["ps_out_absent"]:
            ctx.disagree("c03.pstype(absent)", case, absent_t, ans["ps_out_absent"])
        for n, ti, tf, mi, mf in zip(ints, texts["Integer"], texts["Float"], ans["as_integer"], ans["as_float"]):
            if (ti, tf) != (mi, mf):
                ctx.disagree("c03.pstype(text)", {"kind": "pstype", "n": n}, {"Integer": ti, "Float": tf}, {"Integer": mi, "Float": mf})
                break
            if not (is_decimal_position(ti) and int(ti) == n):
                ctx.fail(f"htslib writes the Integer-typed identifier {n} as {ti!r}", {"kind": "pstype", "n": n}, key="ps-id-not-integer-position")
                break
        ctx.dist("pstype_float_tokens_that_are_not_the_integer", sum(1 for n, tf in zip(ints, texts["Float"]) if tf != str(n)) * 100 // len(ints))
    batch.add({"op": "c03.pstype", "decls": decls, "ints": ints}, cb)


def run_pipe(ctx, batch, case):
    from harness.gen import sim, c03_pipe as P, c04_records as R
    p = case["params"]
    d = os.path.join(ctx.workdir(), "pipe")
    shutil.rmtree(d, ignore_errors=True)
    try:
        sc, paths, args, extra = P.build(case, d)
        out = os.path.join(d, "out.vcf")
        rc, so, se, trace = sim.whatshap(["phase", "-o", out] + args + [paths["vcf"], paths["bam"]] + extra, ctx.overlay,
                                         trace=os.path.join(d, "trace.jsonl"))
        ctx.evaluated()
        ctx.dist("pipe_layout", p["layout"]); ctx.dist("pipe_n_contigs", p["n_contigs"]); ctx.dist("pipe_tag", p["tag"])
        ctx.dist("pipe_cap", p["cap"])
        if p.get("mixed"):
            ctx.dist("pipe_mixed_family_plus", "+".join(sorted(f"{e['kind']}:{e['where']}" for e in p["mixed"]["extras"])))
        ctx.dist("pipe_options", "".join(ch for ch, k in (("D", "distrust"), ("H", "include_hom"), ("G", "no_genetic"), ("S", "only_snvs"),
                                                           ("C", "chrom_sel"), ("s", "sample_sel"), ("L", "read_list"), ("I", "ignore_rg"),
                                                           ("M", "merge_reads"), ("V", "phased_vcf_input"), ("N", "dup_names"),
                                                           ("d", "decor"), ("R", "rephase"), ("X", "mixed"), ("B", "large")) if p.get(k)) or "-")
        if p.get("large"):
            ctx.dist("pipe_large_header_decl(PS/HP/PQ)", f"{p['large']['ps']}/{p['large']['hp']}/{p['large']['pq']}")
            ctx.dist("pipe_large_outcome", f"PS {p['large']['ps']}: " + ("phased" if rc == 0 else "refused (PS type)" if "non-standard type" in se
                                                                          else "error"))
        if rc != 0:
            last = (se.strip().splitlines() or ["?"])[-1][:200]
            if "duplicate read name" in se and p["dup_names"]:
                # modelled (`PErr.duplicateRead`): two members of one family have a selected read with the same name and source
                ctx.observe("RuntimeError 'ReadSet::add: duplicate read name' when two members of a family carry a read of the same name")
                ctx.dist("pipe_outcome", "duplicate-read-name")
                return
            if "Traceback" in se or rc < 0:
                ctx.fail(f"whatshap phase crashed: {last}", case, key="cli-crash")
            else:
                ctx.observe("clean command-line error: " + last[:90])
            ctx.dist("pipe_outcome", "error")
            return
        ctx.dist("pipe_outcome", "ok")
        _, samples, rin = R.load_vcf(paths["vcf"])
        _, osamples, rout = R.load_vcf(out)
        if osamples != samples or len(rin) != len(rout):
            ctx.fail("output VCF has other samples / another number of records than the input", case, key="pipe-output-shape")
            return
        read_rows = parse_read_list(paths["read_list"])[1] if p["read_list"] else None
        check_pipe(ctx, batch, case, sc, samples, rin, rout, trace, se, read_rows)
    finally:
        shutil.rmtree(d, ignore_errors=True)


def check_pipe(ctx, batch, case, sc, samples, rin, rout, trace, stderr, read_rows):
    from harness.gen import c04_records as R
    import re
    p = case["params"]
    elig = eligible_first(rin, p["only_snvs"])
    by_chrom = {}
    for t in trace:
        by_chrom.setdefault(t["chromosome"], []).append(t)
    min_rin = [R.model_record(r, samples) for r in rin]
    min_rout = [R.model_record(r, samples) for r in rout]
    largest_logged = [int(x) for x in re.findall(r"Largest block contains (\d+) variants", stderr)]
    with_largest = [t for t in trace if t["overall_components"]]
    rl_pos = 0
    fam_json = {}
    n_sets_total, split_any, dropped_any = 0, False, False
    n_prephased_skipped, prephased_hit = 0, False
    # pedigree mode is decided from the COMMAND LINE and the PED file (never from the trace's own flag / master block):
    # --ped without --no-genetic-haplotyping, and the sample's family (relationships among the samples phased) has > 1 member
    exp_fams = pedigree_families(sc["ped_lines"] if sc["use_ped"] else [], sc["sel_s"] or samples)
    genetic_opt = sc["use_ped"] and not p["no_genetic"]
    singles_done = set()           # names of single-sample families already processed in this run (any chromosome)
    for ti, t in enumerate(trace):
        fam, ids, chrom = t["family"], t["numeric_sample_ids"], t["chromosome"]
        acc = t["accessible_positions"]
        selected = [t["candidates"][s]["selected"] for s in fam]
        flat = [rd for rs in selected for rd in rs]
        exp_fam = exp_fams.get(fam[0], [fam[0]])
        if sorted(fam) != exp_fam:
            ctx.fail(f"{chrom}: samples {fam} are phased as one family, the PED file and the phased samples give {exp_fam}", case,
                     key="family-not-pedigree-component")
        multi = len(exp_fam) > 1 and genetic_opt
        if len(exp_fam) == 1:
            singles_done.add(fam[0])
        elif sc["use_ped"]:
            ctx.dist("pipe_ped_family_after_single_family", ("genetic:" if genetic_opt else "no-genetic:") +
                     ("none" if not singles_done else "+".join(sorted({"before" if x < min(fam) else "after" for x in singles_done}))))
        # ---- the reads used for phasing = the selected reads of all members (merge_readsets)
        if sorted(map(_read_key, t["all_reads"])) != sorted(map(_read_key, flat)):
            ctx.fail(f"{chrom} {fam}: the read set handed to the solver is not the union of the members' selected reads", case,
                     key="all-reads-not-union-of-selected")
        want_acc = sorted({v[0] for rd in flat for v in rd["variants"]} | (set(t["homozygous_positions"]) if multi else set()))
        if want_acc != acc:
            ctx.fail(f"{chrom} {fam}: accessible positions are not the positions covered by the selected reads"
                     f"{' plus the homozygous positions' if multi else ''}", case, key="accessible-positions")
        supers = [[ids[s], [[a[0], a[1], b[1]] for a, b in zip(t["superreads"][s][0]["variants"], t["superreads"][s][1]["variants"])]]
                  for s in fam]
        fj = {"members": [[s, ids[s]] for s in fam], "selected": selected, "homozygous": t["homozygous_positions"], "superreads": supers}
        fam_json.setdefault(chrom, []).append(fj)
        # ---- correspondence: family stage
        n_reads = len(t["all_reads"])
        rows_here = None
        if read_rows is not None:
            rows_here = read_rows[rl_pos:rl_pos + n_reads]; rl_pos += n_reads

        def cb(req, ans, t=t, rows_here=rows_here, flat=flat):
            ctx.validated()
            if "err" in ans or "error" in ans:
                ctx.disagree("c03.family(trace)", {"kind": "pipe-family", "case": case, "request": req}, "ok", ans); return
            impl = {"accessible": t["accessible_positions"], "comps": sorted([int(a), int(b)] for a, b in t["overall_components"]),
                    "reads": sorted(map(_read_key, t["all_reads"]))}
            mod = {"accessible": ans["accessible"], "comps": ans["comps"], "reads": sorted(map(_read_key, ans["all_reads"]))}
            if impl != mod:
                ctx.disagree("c03.family(trace)", {"kind": "pipe-family", "case": case, "request": req},
                             {k: v for k, v in impl.items() if v != mod[k]}, {k: v for k, v in mod.items() if v != impl[k]})
        req = {"op": "c03.family", "distrust": t["distrust_genotypes"], "genetic": t["genetic_haplotyping"], "family": fj}
        batch.add(req, cb)
        if rows_here is not None and t["partitioning"] is not None:
            # the read list of this family: the model's ReadList.write on the reads in the solver's order
            def cbr(req, ans, rows_here=rows_here):
                if ans != {"ok": rows_here}:
                    ctx.disagree("c03.readlist(trace)", {"kind": "pipe-family", "case": case, "request": req}, rows_here, ans)
            batch.add({"op": "c03.readlist", "members": fj["members"], "reads": t["all_reads"], "bipartition": t["partitioning"],
                       "sample_comps": [[s, [list(c) for c in t["overall_components"]]] for s in fam]}, cbr)
        # ---- oracle: components from the SELECTED reads
        reads = [[rd["sample_id"], [v[0] for v in rd["variants"]]] for rd in flat]
        sidx = {s: samples.index(s) for s in fam}
        het = None
        ocase = {"accessible": acc, "reads": reads, "distrust": t["distrust_genotypes"], "fam_size": len(exp_fam),
                 "genetic": genetic_opt, "homozygous": t["homozygous_positions"], "superreads": supers}
        hom_in = {}                 # position -> a family member that is homozygous there (input genotypes / super-reads)
        if t["distrust_genotypes"]:
            master, het = oc_params(ocase)
            for sid, vars_ in supers:
                for v in vars_:
                    if v[1] == v[2] and v[1] in (0, 1):
                        hom_in.setdefault(v[0], next((m for m in fam if ids[m] == sid), "?"))
        elif multi:
            master = []
            for i, r in enumerate(rin):
                if i in elig and r["chrom"] == chrom and r["pos"] in set(acc):
                    for s in fam:
                        gt = r["calls"][sidx[s]].get("GT")
                        if gt is not None and gt[0] is not None and None not in gt[0] and len(set(gt[0])) == 1:
                            master.append(r["pos"]); hom_in[r["pos"]] = s; break
            master = sorted(set(master))
        else:
            master = None
        left = bfs_leftmost(acc, spec_blocks(acc, reads, master, het))
        # ---- the pedigree clause of the property, evaluated directly: the read components (used reads only, no master block)
        #      that touch a variant homozygous in some family member carry ONE phase set in every member's output
        if multi and master:
            read_comp = bfs_leftmost(acc, spec_blocks(acc, reads, None, het))
            touched = {}
            for q in master:
                if q in read_comp:
                    touched.setdefault(read_comp[q], q)
            ctx.dist("pipe_ped_read_components_touching_hom_variant", min(len(touched), 5))
            for s in fam:
                sets = {}
                for i, r in enumerate(min_rout):
                    if rin[i]["chrom"] != chrom or i not in elig or r["pos"] not in read_comp or read_comp[r["pos"]] not in touched:
                        continue
                    ph = decode_call(r["calls"][sidx[s]], r["format"])
                    if ph is not None:
                        sets.setdefault(ph[0], []).append(r["pos"] + 1)
                if len(sets) > 1:
                    (s1, q1), (s2, q2) = sorted(sets.items(), key=lambda kv: kv[1][0])[:2]
                    c1, c2 = read_comp[q1[0] - 1], read_comp[q2[0] - 1]
                    ctx.fail(f"pedigree mode (--ped, family {fam}, genetic haplotyping on): sample {s}: {chrom}:{q1[0]} lies in a read "
                             f"component touching {chrom}:{touched[c1] + 1} (homozygous in {hom_in.get(touched[c1])}), {chrom}:{q2[0]} in one "
                             f"touching {chrom}:{touched[c2] + 1} (homozygous in {hom_in.get(touched[c2])}); the components have to be merged "
                             f"into one phase set but the calls carry phase sets {s1} and {s2}"
                             f"{' (single-sample families ' + str(sorted(singles_done)) + ' were processed before)' if singles_done else ''}",
                             case, key="pedigree-components-not-merged")
                    break
        # read list rows of this family: phase set = 1 + leftmost position connected to the read's first variant
        if rows_here is not None:
            inv = {v: k for k, v in ids.items()}
            for rd, hap, row in zip(t["all_reads"], t["partitioning"] or [], rows_here):
                first, last = rd["variants"][0][0], rd["variants"][-1][0]
                want = [rd["name"], rd["source_id"], inv.get(rd["sample_id"]), left.get(first, -2) + 1, hap, len(rd["variants"]), first + 1, last + 1]
                if row != want:
                    ctx.fail(f"{chrom}: read list row {row} should be {want} (phase set = 1 + leftmost variant connected to the read's first "
                             f"variant by the reads used for phasing)", case, key="read-list-row")
                    break
            if len(rows_here) != n_reads:
                ctx.fail(f"{chrom} {fam}: read list has {len(rows_here)} rows for {n_reads} reads used for phasing", case, key="read-list-row")
        sets_here = set()
        comp_names = set(left.values())
        # (an identifier that is no decimal number is reported once, under its own key; the typed comparison below would repeat it)
        id_not_decimal = text_phase_oracle(ctx, case, chrom, fam, sidx, rin, rout, elig, left)
        if p.get("large"):
            lm = sorted({c + 1 for c in left.values()})
            ctx.dist("pipe_large_neighbouring_components_sharing_6_digits", min(sum(1 for x, y in zip(lm, lm[1:]) if "%.6g" % x == "%.6g" % y), 6))
            ctx.dist("pipe_large_position_digits", len(str(lm[0])) if lm else 0)
        for s in fam:
            sr = t["superreads"][s]
            sr_al = {a[0]: (a[1], b[1]) for a, b in zip(sr[0]["variants"], sr[1]["variants"])}
            items, stale = [], []
            n_old = 0
            for i, r in enumerate(min_rout):
                if rin[i]["chrom"] != chrom:
                    continue
                ph = decode_call(r["calls"][sidx[s]], r["format"])
                if i not in elig:
                    old = decode_call(min_rin[i]["calls"][sidx[s]], min_rin[i]["format"])
                    if old is not None:
                        n_old += 1
                        if old[0] is not None and (old[0] - 1) in comp_names:
                            prephased_hit = True
                pos = r["pos"]
                al = sr_al.get(pos)
                is_het = al is not None and sorted(al) == [0, 1]
                if ph is None:
                    if i in elig and is_het and pos in left:
                        ctx.fail(f"sample {s}: {chrom}:{pos + 1} has heterozygous super-read alleles {al} and a component but is not phased "
                                 f"in the output", case, key="het-accessible-not-phased")
                    continue
                if i not in elig:
                    # a record the run does not look at (no read used for phasing covers it as a variant) that is nevertheless
                    # a phased call of the output: it is a member of the phase set it names, whatever the record kind
                    stale.append((i, pos, ph[0])); continue
                if not is_het:
                    ctx.fail(f"sample {s}: {chrom}:{pos + 1} is phased in the output although its super-read alleles are {al}", case,
                             key="phased-but-superread-not-het")
                if pos not in left:
                    ctx.fail(f"sample {s}: variant at {chrom}:{pos + 1} is phased (set {ph[0]}) but is not an accessible position", case,
                             key="phased-but-not-accessible")
                    continue
                if ph[0] != left[pos] + 1:
                    if id_not_decimal:
                        break
                    ctx.fail(f"sample {s}: variant at {chrom}:{pos + 1} has phase set {ph[0]}; the leftmost variant connected to it by the "
                             f"selected reads of {fam}{' and the master block' if master else ''} is at {left[pos] + 1}", case,
                             key="ps-not-leftmost-connected")
                    break
                items.append((pos, ph[0]))
            if stale:
                phased_all = [(k, rin[k]["pos"], decode_call(r["calls"][sidx[s]], r["format"])) for k, r in enumerate(min_rout)
                              if rin[k]["chrom"] == chrom]
                def mates_of(i, ps):
                    m = [(k, q) for k, q, x in phased_all if k != i and x is not None and x[0] == ps]
                    return sorted({q + 1 for k, q in m if k in elig}), sorted({q + 1 for k, q in m if k not in elig})
                # report the most telling one: a stale call that sits in a phase set of variants of this run
                i, pos, ps = ([x for x in stale if mates_of(x[0], x[2])[0]] or [x for x in stale if mates_of(x[0], x[2])[1]] or stale)[0]
                m_run, m_skip = mates_of(i, ps)
                what = f"sample {s}: the {skip_kind(rin, i, p['only_snvs'])} record at {chrom}:{pos + 1} (record {i}) is not a variant of " \
                       f"the run (no read used for phasing covers it) but is a phased call of the output, phase set {ps}"
                if m_run or m_skip:
                    ctx.fail(what + ", which it shares with " + " and ".join(
                                 ([f"the variant(s) of the run at {m_run[:6]}"] if m_run else []) +
                                 ([f"other skipped record(s) at {m_skip[:6]}"] if m_skip else [])) +
                             ": they are in the same phase set but not linked by reads used for phasing", case, key="same-set-iff-connected")
                else:
                    ctx.fail(what, case, key="phased-but-not-accessible")
            n_prephased_skipped += n_old
            for a in range(len(items)):
                for b in range(a + 1, len(items)):
                    (p1, s1), (p2, s2) = items[a], items[b]
                    if (s1 == s2) != (left[p1] == left[p2]):
                        ctx.fail(f"sample {s}: {chrom}:{p1 + 1} and {chrom}:{p2 + 1} are {'in the same' if s1 == s2 else 'in different'} "
                                 f"phase set(s) but are {'' if left[p1] == left[p2] else 'not '}connected by selected reads", case,
                                 key="same-set-iff-connected")
                        break
            sets_here |= {x[1] for x in items}
        n_sets_total += len(sets_here)
        cand = [[ids[s], [v[0] for v in rd["variants"]]] for s in fam for rd in t["candidates"][s]["reads"]]
        ncand = len(set(bfs_leftmost(acc, spec_blocks(acc, cand, master, het)).values()))
        split_any |= len(set(left.values())) > ncand
        dropped_any |= len(cand) > len(reads)
        comps = {}
        for q, c in left.items():
            comps.setdefault(c, []).append(q)
        if (len(comps) >= 2 and any(len(v) >= 2 for v in comps.values())) or (master and len(master) >= 2):
            ctx.nontrivial(json.dumps([chrom, acc, reads, master, sorted(sets_here)]))
        if t["overall_components"]:
            do_largest(ctx, batch, [list(c) for c in t["overall_components"]], {"kind": "largest", "comps": t["overall_components"]})
    if read_rows is not None and rl_pos != len(read_rows):
        ctx.fail(f"read list has {len(read_rows)} rows, the runs used {rl_pos} reads", case, key="read-list-row")
    # ---- no phase set without reads used for phasing: a call of a sample / chromosome that was not phased in this run
    #      (excluded by --chromosome / --sample) carries exactly the phase statement of the input
    phased_here = {(t["chromosome"], s) for t in trace for s in t["family"]}
    for i, (ri, ro) in enumerate(zip(min_rin, min_rout)):
        for si, s in enumerate(samples):
            if (rin[i]["chrom"], s) in phased_here:
                continue
            a, b = decode_call(ri["calls"][si], ri["format"]), decode_call(ro["calls"][si], ro["format"])
            if b != a:
                ctx.fail(f"sample {s} at {rin[i]['chrom']}:{rin[i]['pos'] + 1} carries the phase statement {b} in the output, {a} in the "
                         f"input, although the sample was not phased on that chromosome in this run (no read of it was used)", case,
                         key="phase-set-without-reads")
                break
    # ---- the logged size of the largest block per family = size of a largest component
    if len(largest_logged) == len(with_largest):
        for n, t in zip(largest_logged, with_largest):
            sizes = {}
            for _, c in t["overall_components"]:
                sizes[c] = sizes.get(c, 0) + 1
            if n != max(sizes.values()):
                ctx.fail(f"log says the largest block has {n} variants, the largest component has {max(sizes.values())}", case, key="largest-component")
    # ---- correspondence: the whole run through the composed model (selected reads -> written records -> decoded phase sets)
    chroms = []
    idx_of = []
    for chrom, idxs in R.chrom_blocks(rin):
        chroms.append({"name": chrom, "families": fam_json.get(chrom, []), "records": [min_rin[i] for i in idxs]})
        idx_of.append(idxs)
    cfg = {"tag": p["tag"], "onlySnvs": p["only_snvs"], "distrust": p["distrust"], "genetic": not p["no_genetic"], "header": samples,
           "chromosomes": sc["sel_c"] or []}

    def cbp(req, ans):
        if "chroms" not in ans:
            ctx.disagree("c03.pipeline", case, "ok", ans); return
        for idxs, mrecs in zip(idx_of, ans["chroms"]):
            for i, m in zip(idxs, mrecs):
                impl = [decode_call(c, min_rout[i]["format"]) for c in min_rout[i]["calls"]]
                mod = [None if ph is None else (ph["block"], ph["alleles"]) for ph in m["phases"]]
                impl = [None if x is None else (x[0], list(x[1])) for x in impl]
                if impl != mod or min_rout[i]["format"] != m["format"]:
                    ctx.disagree("c03.pipeline", case, {"record": i, "chrom": rin[i]["chrom"], "pos": rin[i]["pos"], "phases": impl,
                                                        "format": min_rout[i]["format"]}, {"phases": mod, "format": m["format"]})
                    return
    batch.add({"op": "c03.pipeline", "cfg": cfg, "chroms": chroms}, cbp)
    ctx.dist("pipe_n_trace_records", min(len(trace), 12)); ctx.dist("pipe_n_phase_sets", min(n_sets_total, 20))
    ctx.dist("pipe_selection_split_components", split_any); ctx.dist("pipe_reads_dropped_by_selection", dropped_any)
    ctx.dist("pipe_chromosomes_phased", len(by_chrom))
    ctx.dist("pipe_skipped_records", min(len(rin) - len(elig), 10))
    rp = p.get("rephase")
    ctx.dist("pipe_rephased_input", "-" if not rp else f"{rp['enc']}/{rp['ids']}")
    # input calls of samples phased in this run that carry an OLD phase statement on a record the run skips, and whether such
    # an old id names a component of the new run (the situation in which a stale call would join a new phase set)
    ctx.dist("pipe_prephased_calls_on_skipped_records", min(n_prephased_skipped // 5 * 5, 60))
    ctx.dist("pipe_old_id_on_skipped_record_names_new_component", prephased_hit)
    if len(ctx.samples) < 6:
        ctx.sample({"pipe_params": p, "n_trace_records": len(trace), "phase_sets": n_sets_total})


# ------------------------------------------------------------------------------------------------

def run_case(ctx, batch, case):
    k = case.get("kind")
    if k == "fc":
        do_fc(ctx, batch, case)
    elif k == "oc":
        do_oc(ctx, batch, case)
    elif k == "oc-trace":
        do_oc(ctx, batch, case["instance"]); run_cli(ctx, batch, case["cli"])
    elif k == "cli":
        run_cli(ctx, batch, case["cli"] if "cli" in case else case)
    elif k == "merge":
        do_merge(ctx, batch, case)
    elif k == "readlist":
        do_readlist(ctx, batch, case)
    elif k == "largest":
        do_largest(ctx, batch, [list(c) for c in case["comps"]], case)
    elif k == "pipe":
        run_pipe(ctx, batch, case)
    elif k == "pipe-family":
        run_pipe(ctx, batch, case["case"])
    elif k == "pstype":
        do_pstype(ctx, batch)


def run(ctx):
    rng = ctx.rng
    batch = Batch(ctx)
    if ctx.replay:
        run_case(ctx, batch, json.load(open(ctx.replay))["case"]); batch.flush()
        shutil.rmtree(ctx.workdir(), ignore_errors=True); return
    for _, c in ctx.corpus():
        run_case(ctx, batch, c)
    if os.environ.get("C03_ONLY_LARGE"):        # development aid: corpus + the large-coordinate / header-declaration stream only
        run_large(ctx, batch, rng)
        shutil.rmtree(ctx.workdir(), ignore_errors=True); return
    if os.environ.get("C03_ONLY_MIXED"):        # development aid: only the family-plus-singles stream (after the corpus)
        from harness.gen import c03_pipe as P
        for _ in range((12 if ctx.quick else 120) * ctx.scale):
            run_pipe(ctx, batch, P.gen_case(rng, mixed=True))
        batch.flush()
        shutil.rmtree(ctx.workdir(), ignore_errors=True); return
    n = (2200 if ctx.quick else 30000) * ctx.scale
    for _ in range(n):
        do_fc(ctx, batch, gen_fc_case(rng))
    for _ in range((800 if ctx.quick else 10000) * ctx.scale):
        do_oc(ctx, batch, gen_oc_case(rng))
    for _ in range((600 if ctx.quick else 8000) * ctx.scale):
        do_merge(ctx, batch, gen_merge_case(rng))
    for _ in range((600 if ctx.quick else 8000) * ctx.scale):
        do_readlist(ctx, batch, gen_readlist_case(rng))
    batch.flush()
    if not ctx.quick:
        exhaustive(ctx, batch)
    from harness.gen import c05_ped as G
    G.assert_overlay_in_use(ctx.overlay)
    modes = ["single:interleaved"] * 2 + ["single:nested"] * 2 + ["single:chain-gaps", "single:random", "single:random"] + \
            ["deep:clusters"] * 3 + ["deep:random"] * 2 + ["ped"] * 5 + ["ped-nogenetic"] * 4
    if not ctx.quick:
        modes = modes * 10
    modes = modes * ctx.scale
    for m in modes:
        run_cli(ctx, batch, gen_cli_case(rng, m))
    batch.flush()
    from harness.gen import c03_pipe as P
    for _ in range((20 if ctx.quick else 200) * ctx.scale):
        run_pipe(ctx, batch, P.gen_case(rng))
    batch.flush()
    # re-phasing: the input is the output of an earlier run (PS / HP on every record kind, also on the kinds this run skips)
    for _ in range((14 if ctx.quick else 140) * ctx.scale):
        run_pipe(ctx, batch, P.gen_case(rng, rephase=True))
    batch.flush()
    # --ped runs whose VCF holds a real family PLUS samples that are in no trio (VCF column not in the PED, founder-only /
    # half PED line, trio dropped through --sample or a missing column), named before and after the family's representative,
    # on >= 2 chromosomes, the family having >= 2 read components that each touch a variant homozygous in a member
    for _ in range((12 if ctx.quick else 120) * ctx.scale):
        run_pipe(ctx, batch, P.gen_case(rng, mixed=True))
    batch.flush()
    # LARGE COORDINATES (contigs of 2*10^6 ... 5.4*10^8, positions of 7-9 digits, neighbouring components whose leftmost positions
    # agree in their first 6-7 digits) x HEADER DECLARATIONS of PS / HP / PQ in the input (absent, standard, PS Float / Number=. /
    # String ...; a refusal is fine), both tags, 1-4 samples, every third run re-phasing an earlier output, every fifth a family plus
    # singles; the oracle reads the identifier from the output TEXT
    run_large(ctx, batch, rng)
    G.assert_overlay_in_use(ctx.overlay)
    shutil.rmtree(ctx.workdir(), ignore_errors=True)


def run_large(ctx, batch, rng):
    from harness.gen import c03_pipe as P
    do_pstype(ctx, batch)
    for i in range((24 if ctx.quick else 240) * ctx.scale):
        run_pipe(ctx, batch, P.gen_case(rng, large=True, rephase=(i % 3 == 1), mixed=(i % 5 == 4)))
    batch.flush()


def exhaustive(ctx, batch):
    """all incidence structures with <= 3 reads over <= 4 positions (each read a non-empty subset), with every master
    block of size 0/2 — thorough tier"""
    import itertools
    cnt = 0
    for n in range(1, 5):
        pos = [3, 5, 8, 13][:n]
        subsets = [list(s) for k in range(1, n + 1) for s in itertools.combinations(pos, k)]
        for nr in range(0, 4):
            for reads in itertools.combinations_with_replacement(subsets, nr):
                masters = [None] + [list(m) for m in itertools.combinations(pos, 2)]
                for master in masters:
                    case = {"kind": "fc", "phased": pos, "reads": [[0, r] for r in reads], "master": master, "het": None}
                    do_fc(ctx, batch, case); cnt += 1
    ctx.extra["exhaustive_structures_le_3_reads_le_4_positions"] = cnt
    # pedigree merge rule: every set of homozygous positions x {trusted, distrust} x genetic on/off x family size 1/3
    # over a few fixed read structures on 5 positions
    pos = [2, 4, 7, 11, 12]
    structures = [[[0, [2, 4]], [1, [11, 12]]], [[0, [2, 7]], [1, [4, 11]], [2, [12, 99]]], [], [[0, [2, 4, 7, 11, 12]]],
                  [[0, [2, 12]], [1, [4, 7]], [2, [7, 11]]]]
    cnt2 = 0
    for reads in structures:
        for k in range(0, 6):
            for hom in itertools.combinations(pos + [50], k):
                for fam in (1, 3):
                    for genetic in (False, True):
                        supers = [[s, [[p, (0 if p in hom else 1), (0 if p in hom and s == 0 else (1 if p in hom else 0))] for p in pos]] for s in range(fam)]
                        for distrust in (False, True):
                            case = {"kind": "oc", "accessible": pos, "reads": [r for r in reads if r[0] < fam], "distrust": distrust,
                                    "fam_size": fam, "genetic": genetic, "homozygous": list(hom), "superreads": supers}
                            do_oc(ctx, batch, case); cnt2 += 1
    ctx.extra["exhaustive_masterblock_cases"] = cnt2
    ctx.extra["exhaustive"] = True
    batch.flush()

"""C03 — phase sets are exactly the read-connected components, named by leftmost variant.

(i)  in-process: the real `find_components` / `compute_overall_components` on generated incidence structures
     (windows, paired, gapped, nested, interleaved reads; master blocks; het maps; error paths) against the Lean
     model (whole map / exception kind must be equal), and against two union-find-free oracles: a BFS in Python
     and the executable Lean spec (`c03.spec`): component = smallest position connected to it.
(ii) pipeline: `whatshap phase` on simulated data (single / paired reads, depth above the coverage cap, PS and HP
     tags, single sample, --ped with and without --no-genetic-haplotyping, a few --distrust-genotypes runs) with
     the trace hook: traced components = model(traced reads); PS/HP of every phased call in the output VCF =
     1 + smallest position connected (by the traced reads, plus the master block of positions homozygous in a
     family member, computed from the INPUT VCF) to it; two phased variants share a set iff connected.
"""
import json, os, shutil

RULE = ("an incidence structure (phased positions, reads as position lists with sample ids, optional master block and "
        "het map), or a CLI run reduced to (accessible positions, traced reads, master block, phase sets of the output "
        "VCF). Non-trivial: at least two components of which one has >= 2 members, or a master block joining >= 2 "
        "read-components, or an error outcome (assertion / KeyError). Distinct = distinct structure (JSON of the case)")
MANIFEST = dict(
    text="Lean 4 theorems about a model of find_components / compute_overall_components built on the union-find "
         "model: component equality <-> connectivity by reads (+ master block), component = leftmost connected "
         "position, PS = that position + 1, master block merges all touched components; the model is tied to the "
         "working tree by running the real functions in-process and `whatshap phase` with the trace hook, and an "
         "independent BFS oracle is evaluated on the implementation's output (trace and output VCF)",
    design_ref="DESIGN.md §5 C03",
    note="trusted: Lean kernel, axioms ⊆ {propext, Classical.choice, Quot.sound}; hand-written model (differential "
         "correspondence: quick ~3 000 in-process structures + ~16 CLI runs); allele detection and read selection are "
         "taken as given (the reads 'used for phasing' are the traced selected reads)",
    technique="Lean 4 proof (union-find invariant: root = least element of the class, kernel of root = equivalence "
              "closure of the merged pairs) + differential correspondence + BFS oracle on CLI output",
)
ASSUMPTIONS = [
    "the reads 'used for phasing' are the reads handed to the solver, read from the trace hook (selection itself is C07)",
    "in --distrust-genotypes runs the per-sample heterozygous positions are taken from the traced super-reads",
    "the Python set/dict iteration order inside find_components does not influence the result (proved for the model: "
    "find returns the root whatever was compressed before)",
]


# ------------------------------------------------------------------------------------------------
# independent oracle (no union-find): BFS over blocks
# ------------------------------------------------------------------------------------------------

def spec_blocks(phased, reads, master, het):
    ps = set(phased)
    blocks = []
    for sid, positions in reads:
        if het is None:
            b = [p for p in positions if p in ps]
        else:
            hs = dict((k, set(v)) for k, v in het).get(sid)
            b = [] if hs is None else [p for p in positions if p in ps and p in hs]
        blocks.append(b)
    if master is not None:
        blocks.append(list(master))
    return blocks


def bfs_leftmost(phased, blocks):
    """{p: smallest position connected to p}"""
    member = {}
    for bi, b in enumerate(blocks):
        for p in b:
            member.setdefault(p, []).append(bi)
    out = {}
    for p in set(phased):
        if p in out:
            continue
        seen, todo, used = {p}, [p], set()
        while todo:
            v = todo.pop()
            for bi in member.get(v, ()):
                if bi in used:
                    continue
                used.add(bi)
                for w in blocks[bi]:
                    if w not in seen:
                        seen.add(w); todo.append(w)
        m = min(seen)
        for v in seen:
            if v in set(phased):
                out[v] = m
    return out


# ------------------------------------------------------------------------------------------------
# in-process cases
# ------------------------------------------------------------------------------------------------

def gen_reads(rng, universe, n_samples, style):
    n = len(universe)
    reads = []

    def window(lo, hi):
        return universe[lo:hi]
    k = rng.randrange(0, 2 * n + 2)
    for _ in range(k):
        sid = rng.randrange(n_samples)
        st = style if style != "mixed" else rng.choice(["windows", "paired", "gapped", "nested", "interleaved"])
        if n == 0:
            reads.append([sid, []]); continue
        if st == "windows":
            a = rng.randrange(n); b = min(n, a + rng.randrange(1, 5))
            ps = window(a, b)
        elif st == "paired":
            a = rng.randrange(n); l1 = rng.randrange(1, 3); g = rng.randrange(1, 5); l2 = rng.randrange(1, 3)
            ps = window(a, a + l1) + window(a + l1 + g, a + l1 + g + l2)
        elif st == "gapped":
            ps = [p for p in universe if rng.random() < rng.choice([0.2, 0.5])]
        elif st == "nested":
            if rng.random() < 0.4:
                a = rng.randrange(n); b = min(n - 1, a + rng.randrange(2, 7))
                ps = [universe[a], universe[b]] if b > a else [universe[a]]
            else:
                a = rng.randrange(n); ps = window(a, a + 2)
        else:  # interleaved
            par = rng.randrange(2); a = rng.randrange(n)
            ps = [p for i, p in enumerate(universe) if i % 2 == par and a <= i < a + 6]
        if rng.random() < 0.05:
            rng.shuffle(ps)
        reads.append([sid, ps])
    return reads


def gen_fc_case(rng):
    n = rng.choice([0, 1, 2, 3, 4, 5, 6, 8, 10, 12])
    universe = sorted(rng.sample(range(0, 4 * n + 6), min(4 * n + 6, n + rng.randrange(0, 3))))
    phased = sorted(rng.sample(universe, min(len(universe), n)))
    r = rng.random()
    if r < 0.03 and len(phased) >= 2:
        phased = phased[::-1]                     # not sorted -> AssertionError
    elif r < 0.08 and phased:
        i = rng.randrange(len(phased)); phased = phased[:i + 1] + phased[i:]   # duplicate, still sorted
    n_samples = rng.choice([1, 1, 2, 3])
    reads = gen_reads(rng, universe, n_samples, rng.choice(["windows", "paired", "gapped", "nested", "interleaved", "mixed", "mixed"]))
    master = None
    r = rng.random()
    if r < 0.4:
        pool = phased if rng.random() < 0.93 else universe     # a non-phased master position -> KeyError
        master = [p for p in pool if rng.random() < rng.choice([0.1, 0.4])]
        if rng.random() < 0.2:
            rng.shuffle(master)
        if rng.random() < 0.05 and master:
            master = master + [master[0]]                      # merge(x, x) -> AssertionError
    het = None
    if rng.random() < 0.4:
        sids = list(range(n_samples))
        if rng.random() < 0.1 and sids:
            sids.pop(rng.randrange(len(sids)))                 # missing sample -> KeyError (only if reached)
        het = [[s, sorted(p for p in universe if rng.random() < 0.7)] for s in sids]
    return {"kind": "fc", "phased": phased, "reads": reads, "master": master, "het": het}


def gen_oc_case(rng):
    n = rng.choice([1, 2, 3, 4, 5, 6, 8, 10])
    universe = sorted(rng.sample(range(0, 4 * n + 6), n + rng.randrange(0, 3)))
    accessible = sorted(rng.sample(universe, n))
    fam = rng.choice([1, 2, 3, 3, 4])
    reads = gen_reads(rng, universe, fam, rng.choice(["windows", "paired", "gapped", "nested", "mixed"]))
    hom = [p for p in universe if rng.random() < rng.choice([0.0, 0.15, 0.4])]
    rng.shuffle(hom)
    supers = []
    for s in range(fam):
        pos = [p for p in universe if rng.random() < 0.9]
        supers.append([s, [[p] + rng.choice([[0, 1], [1, 0], [0, 1], [1, 0], [0, 0], [1, 1], [3, 0], [1, 3], [3, 3]]) for p in pos]])
    return {"kind": "oc", "accessible": accessible, "reads": reads, "distrust": rng.random() < 0.5, "fam_size": fam,
            "genetic": rng.random() < 0.7, "homozygous": hom, "superreads": supers}


def mk_readset(reads, alleles=None):
    from whatshap.core import Read, ReadSet
    rs = ReadSet()
    for i, (sid, ps) in enumerate(reads):
        r = Read(f"r{i}", 60, 0, sid)
        for p in ps:
            # alleles and qualities are irrelevant for connectivity: vary them, including quality 0 (base quality 0 with
            # --no-reference, PQ 0 of a phased block used as a read): such a read still links the variants it covers
            r.add_variant(p, (i + p) % 2, 0 if (i * 7 + p * 13) % 4 == 0 else 10 + (i * p) % 40)
        rs.add(r)
    return rs


def run_impl_fc(case):
    from whatshap.cli.phase import find_components
    rs = mk_readset(case["reads"])
    het = None if case["het"] is None else {s: set(ps) for s, ps in case["het"]}
    try:
        res = find_components(list(case["phased"]), rs, None if case["master"] is None else list(case["master"]), het)
        return {"ok": sorted([int(k), int(v)] for k, v in res.items())}
    except AssertionError:
        return {"err": "AssertionError"}
    except KeyError:
        return {"err": "KeyError"}


def run_impl_oc(case):
    from whatshap.cli.phase import compute_overall_components
    from whatshap.core import Read, ReadSet, NumericSampleIds
    nsi = NumericSampleIds()
    family = [f"s{i}" for i in range(case["fam_size"])]
    for s in family:
        nsi[s]
    rs = mk_readset(case["reads"])
    supers = []
    for sid, vars_ in case["superreads"]:
        s = ReadSet()
        for h in (0, 1):
            r = Read(f"superread_{h}_{sid}", 0, 0, sid)
            for v in vars_:
                r.add_variant(v[0], v[1 + h], 30)
            s.add(r)
        supers.append(s)
    try:
        res = compute_overall_components(list(case["accessible"]), rs, case["distrust"], family, case["genetic"],
                                         list(case["homozygous"]), nsi, supers)
        return {"ok": sorted([int(k), int(v)] for k, v in res.items())}
    except AssertionError:
        return {"err": "AssertionError"}
    except KeyError:
        return {"err": "KeyError"}


def oc_params(case):
    """master block / het map of compute_overall_components, recomputed independently for the oracle"""
    acc = set(case["accessible"])
    multi = case["fam_size"] > 1 and case["genetic"]
    if case["distrust"]:
        het, homs = [], set()
        for sid, vars_ in case["superreads"][:case["fam_size"]]:
            het.append([sid, sorted(v[0] for v in vars_ if v[0] in acc and sorted(v[1:]) == [0, 1])])
            homs |= {v[0] for v in vars_ if v[0] in acc and v[1] == v[2] and v[1] in (0, 1)}
        return (sorted(homs) if multi else None), het
    return (sorted(set(case["homozygous"]) & acc) if multi else None), None


class Batch:
    """collects model requests; compares after a pipelined ask"""

    def __init__(self, ctx):
        self.ctx, self.reqs, self.cb = ctx, [], []

    def add(self, req, cb):
        self.reqs.append(req); self.cb.append(cb)
        if len(self.reqs) >= 400:
            self.flush()

    def flush(self):
        if not self.reqs:
            return
        for req, cb, ans in zip(self.reqs, self.cb, self.ctx.model.ask_many(self.reqs)):
            cb(req, ans)
        self.reqs, self.cb = [], []


def check_structure(ctx, batch, case, impl, phased, reads, master, het, model_req, label):
    """impl: {"ok": [[p, c]..]} or {"err": ..}; oracle + correspondence"""
    ctx.evaluated()
    blocks = spec_blocks(phased, reads, master, het)
    if "ok" in impl:
        got = {p: c for p, c in impl["ok"]}
        want = bfs_leftmost(phased, blocks)
        if set(got) != set(phased):
            ctx.fail(f"{label}: result keys {sorted(got)} are not the phased positions {sorted(set(phased))}", case, key="fc-keys")
        for p in sorted(set(phased)):
            if p in got and got[p] != want[p]:
                ctx.fail(f"{label}: position {p} is in component {got[p]} but the leftmost position connected to it by the "
                         f"reads{' / master block' if master else ''} is {want[p]}", case, key="component-not-leftmost-connected")
                break
        comps = {}
        for p, c in got.items():
            comps.setdefault(c, []).append(p)
        read_comps = bfs_leftmost(phased, spec_blocks(phased, reads, None, het))
        nt = (len(comps) >= 2 and any(len(v) >= 2 for v in comps.values())) or \
             (master and len({read_comps[p] for p in master if p in read_comps}) >= 2)
        ctx.dist(label + "_n_components", len(comps))
        # second oracle: executable Lean spec
        def cb_spec(req, ans, got=got, case=case):
            left = {p: c for p, c in ans.get("leftmost", [])}
            for p, c in sorted(got.items()):
                if left.get(p) != c:
                    ctx.fail(f"{label}: position {p} in component {c}, Lean spec (BFS closure) says leftmost connected is {left.get(p)}",
                             case, key="component-not-leftmost-connected")
                    break
        batch.add({"op": "c03.spec", "phased": phased, "reads": reads, "master": master, "het": het, "pairs": []}, cb_spec)
    else:
        nt = True
        ctx.dist(label + "_error", impl["err"])
    if nt:
        ctx.nontrivial(json.dumps(case, sort_keys=True))

    def cb_model(req, ans, impl=impl, case=case):
        m = {"ok": ans["ok"]} if "ok" in ans else ans
        if m != impl:
            ctx.disagree(req["op"], case, impl, m)
    batch.add(model_req, cb_model)


def do_fc(ctx, batch, case):
    impl = run_impl_fc(case)
    req = {"op": "c03.find_components", "phased": case["phased"], "reads": case["reads"], "master": case["master"], "het": case["het"]}
    ctx.dist("fc_n_positions", len(case["phased"])); ctx.dist("fc_n_reads", min(len(case["reads"]), 20))
    ctx.dist("fc_master", "none" if case["master"] is None else min(len(case["master"]), 5))
    ctx.dist("fc_het", case["het"] is not None)
    check_structure(ctx, batch, case, impl, case["phased"], case["reads"], case["master"], case["het"], req, "find_components")
    ctx.sample({"case": case, "impl": impl})


def do_oc(ctx, batch, case):
    impl = run_impl_oc(case)
    req = dict(case, op="c03.overall"); req.pop("kind")
    master, het = oc_params(case)
    ctx.dist("oc_fam_size", case["fam_size"]); ctx.dist("oc_distrust", case["distrust"]); ctx.dist("oc_genetic", case["genetic"])
    check_structure(ctx, batch, case, impl, case["accessible"], case["reads"], master, het, req, "compute_overall_components")


# ------------------------------------------------------------------------------------------------
# pipeline cases
# ------------------------------------------------------------------------------------------------

def gen_cli_case(rng, mode):
    from harness.gen import c05_ped as G
    mode, _, forced_style = mode.partition(":")
    sub = rng.randrange(1 << 30)
    import random
    r = random.Random(sub)
    args = []
    if mode in ("single", "deep"):
        n_s = r.choice([1, 1, 2])
        case = G.make_single_case(r, samples=[f"S{i + 1}" for i in range(n_s)], n_variants=(10, 28), contig_len=(2500, 5000),
                                  het_prob=r.choice([0.7, 0.9, 1.0]))
        style = r.choice(["random", "interleaved", "nested", "chain-gaps"]) if mode == "single" else r.choice(["random", "clusters", "clusters"])
        style = forced_style or style
        case["style"] = style
        nvar = len(case["variants"])
        for s in case["samples"]:
            if style == "random":
                if mode == "deep":      # depth above the cap: selection has to drop reads
                    G.add_reads(r, case, s, depth=r.choice([6, 10, 18]), read_len=(50, 160), paired_frac=r.choice([0.3, 0.7]),
                                insert=(60, 700), noise=r.choice([0, 0.03]))
                else:
                    G.add_reads(r, case, s, depth=r.choice([0.4, 0.8, 1.5, 3]), read_len=(50, 160), paired_frac=r.choice([0.0, 0.5, 0.9]),
                                insert=(60, 700), noise=r.choice([0, 0, 0.05]))
            else:
                G.add_structured_reads(r, case, s, G.structure_blocks(r, nvar, style), noise=r.choice([0, 0, 0.05]))
                if style != "clusters" and r.random() < 0.3:
                    G.add_reads(r, case, s, depth=0.3, read_len=(50, 160))
        cap = r.choice([1, 1, 2, 3]) if mode == "deep" and r.random() < 0.8 else 15
    else:
        case = G.make_family_case(r, n_children=r.choice([1, 1, 2]), n_variants=(8, 20), contig_len=(2000, 4000), conflict_prob=0.05,
                                  missing_prob=0.05, unrelated=r.random() < 0.3, parent_gt_weights=r.choice([(1, 3, 1), (1, 8, 1), (0, 1, 0)]))
        for s in case["samples"]:
            G.add_reads(r, case, s, depth=r.choice([0, 0.5, 1, 2, 4]), read_len=(50, 160), paired_frac=r.choice([0.0, 0.5]),
                        insert=(60, 500), noise=r.choice([0, 0, 0.05]))
        cap = r.choice([2, 3, 6, 15])
        if mode == "ped-nogenetic":
            args.append("--no-genetic-haplotyping")
    args += ["--internal-downsampling", str(cap)]
    tag = r.choice(["PS", "PS", "HP"])
    args += ["--tag", tag]
    if r.random() < 0.2:
        args.append("--distrust-genotypes")
    if r.random() < 0.5:
        args.append("--no-reference")
        use_ref = False
    else:
        use_ref = True
    return {"kind": "cli", "mode": mode, "data": case, "args": args, "use_ref": use_ref, "tag": tag, "sub_seed": sub}


def run_cli(ctx, batch, case):
    from harness.gen import sim, c05_ped as G
    d = os.path.join(ctx.workdir(), "cli")
    shutil.rmtree(d, ignore_errors=True)
    try:
        paths = G.write_case(case["data"], d)
        out = os.path.join(d, "out.vcf")
        args = ["phase", "-o", out] + list(case["args"])
        if case["use_ref"]:
            args += ["--reference", paths["fasta"]]
        if case["data"].get("ped") and case["mode"] != "single":
            args += ["--ped", paths["ped"]]
        args += [paths["vcf"], paths["bam"]]
        rc, so, se, trace = sim.whatshap(args, ctx.overlay, trace=os.path.join(d, "trace.jsonl"))
        ctx.evaluated()
        if rc != 0:
            ctx.fail(f"whatshap phase exited with {rc}: {se[-300:]}", _slim(case), key="cli-crash")
            return
        _, _, inrecs = sim.read_vcf(paths["vcf"])
        try:
            samples, recs, n_nul = G.read_vcf_tolerant(out)
            if n_nul:
                ctx.observe("output VCF contains NUL bytes (--tag HP with every sample's HP missing in a record; C04/C09 finding)")
        except Exception as e:      # the output of a successful run must be a readable VCF
            ctx.fail(f"output VCF of whatshap phase cannot be parsed: {type(e).__name__}: {e}", _slim(case), key="output-vcf-unreadable")
            return
        check_cli(ctx, batch, case, samples, recs, inrecs, trace)
    finally:
        shutil.rmtree(d, ignore_errors=True)


def _slim(case):
    return case


def check_cli(ctx, batch, case, samples, recs, inrecs, trace):
    from harness.gen import sim, c05_ped as G
    ctx.dist("cli_mode", case["mode"]); ctx.dist("cli_tag", case["tag"]); ctx.dist("cli_read_style", case["data"].get("style", "random"))
    ctx.dist("cli_distrust", "--distrust-genotypes" in case["args"])
    seen_samples = set()
    for t in trace:
        fam = t["family"]
        ids = t["numeric_sample_ids"]
        acc = t["accessible_positions"]
        reads = [[r["sample_id"], [v[0] for v in r["variants"]]] for r in t["all_reads"]]
        supers = [[ids[s], [[a[0], a[1], b[1]] for a, b in zip(t["superreads"][s][0]["variants"], t["superreads"][s][1]["variants"])]]
                  for s in fam]
        ocase = {"kind": "oc", "accessible": acc, "reads": reads, "distrust": t["distrust_genotypes"], "fam_size": len(fam),
                 "genetic": t["genetic_haplotyping"], "homozygous": t["homozygous_positions"], "superreads": supers}
        traced = {"ok": sorted([int(a), int(b)] for a, b in t["overall_components"])}
        # ---- correspondence at the seam: traced components = model(traced reads)
        def cb(req, ans, traced=traced, ocase=ocase):
            m = {"ok": ans["ok"]} if "ok" in ans else ans
            ctx.validated()
            if m != traced:
                ctx.disagree("c03.overall(trace)", {"kind": "oc-trace", "cli": case, "instance": ocase}, traced, m)
        req = dict(ocase, op="c03.overall"); req.pop("kind")
        batch.add(req, cb)
        # ---- oracle on the OUTPUT VCF
        # master block from the INPUT genotypes: accessible positions at which some family member is homozygous
        sidx = {s: samples.index(s) for s in fam}
        multi = len(fam) > 1 and "--no-genetic-haplotyping" not in case["args"]
        het = None
        if t["distrust_genotypes"]:
            master, het = oc_params(ocase)
        elif multi:
            master = []
            for r in inrecs:
                if r["pos"] in set(acc):
                    for s in fam:
                        gt = r["calls"][sidx[s]]["GT"][0]
                        if gt is not None and None not in gt and len(set(gt)) == 1:
                            master.append(r["pos"]); break
            master = sorted(set(master))
        else:
            master = None
        blocks = spec_blocks(acc, reads, master, het)
        left = bfs_leftmost(acc, blocks)
        n_sets = set()
        for s in fam:
            seen_samples.add(s)
            phase = G.decode_calls([r for r in recs if r["chrom"] == t["chromosome"]], sidx[s])
            items = sorted((pos, ps) for pos, (ps, al) in phase.items())
            for pos, ps in items:
                if pos not in left:
                    ctx.fail(f"sample {s}: variant at {pos + 1} is phased (set {ps}) but no read used for phasing covers it "
                             f"(not an accessible position)", {"kind": "cli", "cli": case}, key="phased-but-not-accessible")
                    continue
                if ps != left[pos] + 1:
                    ctx.fail(f"sample {s}: variant at {pos + 1} has phase set {ps}; the leftmost variant connected to it by the reads "
                             f"used for phasing{' and the master block' if master else ''} is at {left[pos] + 1}",
                             {"kind": "cli", "cli": case, "instance": ocase, "phase_sets": items}, key="ps-not-leftmost-connected")
                    break
                n_sets.add(ps)
            # pairwise iff (redundant given the check above, but it is the property as stated)
            for i in range(len(items)):
                for k in range(i + 1, len(items)):
                    (p, a), (q, b) = items[i], items[k]
                    if p in left and q in left and ((a == b) != (left[p] == left[q])):
                        ctx.fail(f"sample {s}: variants at {p + 1} and {q + 1} are {'in the same' if a == b else 'in different'} phase "
                                 f"set(s) but are {'' if left[p] == left[q] else 'not '}connected by reads", {"kind": "cli", "cli": case},
                                 key="same-set-iff-connected")
                        break
        ctx.dist("cli_n_phase_sets", len(n_sets)); ctx.dist("cli_n_accessible", min(len(acc), 30))
        ctx.dist("cli_n_reads", min(len(reads) // 5 * 5, 100))
        gapped = sum(1 for _, ps in reads if ps and any(a not in set(ps) for a in acc if min(ps) < a < max(ps)))
        ctx.dist("cli_has_gapped_reads", gapped > 0)
        # selection cut components?  components of the candidate reads vs. of the selected reads
        cand = [[ids[s], [v[0] for v in r["variants"]]] for s in fam for r in t["candidates"][s]["reads"]]
        ncand = len(set(bfs_leftmost(acc, spec_blocks(acc, cand, master, het)).values()))
        nsel = len(set(left.values()))
        ctx.dist("cli_selection_split_components", nsel > ncand)
        ctx.dist("cli_reads_dropped_by_selection", len(cand) > len(reads))
        comps = {}
        for p, c in left.items():
            comps.setdefault(c, []).append(p)
        spans = sorted((min(v), max(v)) for v in comps.values())
        ctx.dist("cli_interleaved_or_nested_components", any(spans[i + 1][0] < spans[i][1] for i in range(len(spans) - 1)))
        if (len(comps) >= 2 and any(len(v) >= 2 for v in comps.values())) or (master and len(master) >= 2):
            ctx.nontrivial(json.dumps([acc, reads, master, sorted(n_sets)]))
    # samples that were not phased at all must not carry phase sets from nowhere
    if len(ctx.samples) < 4:
        ctx.sample({"cli_args": case["args"], "mode": case["mode"], "n_trace_records": len(trace)})


# ------------------------------------------------------------------------------------------------

def run_case(ctx, batch, case):
    k = case.get("kind")
    if k == "fc":
        do_fc(ctx, batch, case)
    elif k == "oc":
        do_oc(ctx, batch, case)
    elif k == "oc-trace":
        do_oc(ctx, batch, case["instance"]); run_cli(ctx, batch, case["cli"])
    elif k == "cli":
        run_cli(ctx, batch, case["cli"] if "cli" in case else case)


def run(ctx):
    rng = ctx.rng
    batch = Batch(ctx)
    if ctx.replay:
        run_case(ctx, batch, json.load(open(ctx.replay))["case"]); batch.flush()
        shutil.rmtree(ctx.workdir(), ignore_errors=True); return
    for _, c in ctx.corpus():
        run_case(ctx, batch, c)
    n = (2200 if ctx.quick else 30000) * ctx.scale
    for _ in range(n):
        do_fc(ctx, batch, gen_fc_case(rng))
    for _ in range((800 if ctx.quick else 10000) * ctx.scale):
        do_oc(ctx, batch, gen_oc_case(rng))
    batch.flush()
    if not ctx.quick:
        exhaustive(ctx, batch)
    from harness.gen import c05_ped as G
    G.assert_overlay_in_use(ctx.overlay)
    modes = ["single:interleaved"] * 2 + ["single:nested"] * 2 + ["single:chain-gaps", "single:random", "single:random"] + \
            ["deep:clusters"] * 3 + ["deep:random"] * 2 + ["ped"] * 5 + ["ped-nogenetic"] * 4
    if not ctx.quick:
        modes = modes * 10
    modes = modes * ctx.scale
    for m in modes:
        run_cli(ctx, batch, gen_cli_case(rng, m))
    batch.flush()
    G.assert_overlay_in_use(ctx.overlay)
    shutil.rmtree(ctx.workdir(), ignore_errors=True)


def exhaustive(ctx, batch):
    """all incidence structures with <= 3 reads over <= 4 positions (each read a non-empty subset), with every master
    block of size 0/2 — thorough tier"""
    import itertools
    cnt = 0
    for n in range(1, 5):
        pos = [3, 5, 8, 13][:n]
        subsets = [list(s) for k in range(1, n + 1) for s in itertools.combinations(pos, k)]
        for nr in range(0, 4):
            for reads in itertools.combinations_with_replacement(subsets, nr):
                masters = [None] + [list(m) for m in itertools.combinations(pos, 2)]
                for master in masters:
                    case = {"kind": "fc", "phased": pos, "reads": [[0, r] for r in reads], "master": master, "het": None}
                    do_fc(ctx, batch, case); cnt += 1
    ctx.extra["exhaustive_structures_le_3_reads_le_4_positions"] = cnt
    # pedigree merge rule: every set of homozygous positions x {trusted, distrust} x genetic on/off x family size 1/3
    # over a few fixed read structures on 5 positions
    pos = [2, 4, 7, 11, 12]
    structures = [[[0, [2, 4]], [1, [11, 12]]], [[0, [2, 7]], [1, [4, 11]], [2, [12, 99]]], [], [[0, [2, 4, 7, 11, 12]]],
                  [[0, [2, 12]], [1, [4, 7]], [2, [7, 11]]]]
    cnt2 = 0
    for reads in structures:
        for k in range(0, 6):
            for hom in itertools.combinations(pos + [50], k):
                for fam in (1, 3):
                    for genetic in (False, True):
                        supers = [[s, [[p, (0 if p in hom else 1), (0 if p in hom and s == 0 else (1 if p in hom else 0))] for p in pos]] for s in range(fam)]
                        for distrust in (False, True):
                            case = {"kind": "oc", "accessible": pos, "reads": [r for r in reads if r[0] < fam], "distrust": distrust,
                                    "fam_size": fam, "genetic": genetic, "homozygous": list(hom), "superreads": supers}
                            do_oc(ctx, batch, case); cnt2 += 1
    ctx.extra["exhaustive_masterblock_cases"] = cnt2
    ctx.extra["exhaustive"] = True
    batch.flush()
